// C20: TLS contexts with a distinct real private key at every position, runtime updates, every admin
// config-dump endpoint. The driver replays operation histories enumerated by TLC from ConfigRedact.tla.
package main

import (
	"bytes"
	"crypto/ecdsa"
	"crypto/elliptic"
	"crypto/rand"
	"crypto/tls"
	"crypto/x509"
	"crypto/x509/pkix"
	"encoding/json"
	"encoding/pem"
	"fmt"
	"io/ioutil"
	"math/big"
	"net"
	"net/http/httptest"
	"os"
	"path/filepath"
	"reflect"
	"strings"
	"time"

	admin "mosn.io/mosn/pkg/admin/server"
	v2 "mosn.io/mosn/pkg/config/v2"
	"mosn.io/mosn/pkg/configmanager"
	"mosn.io/mosn/pkg/mtls"
	"mosn.io/mosn/pkg/server"
	"mosn.io/mosn/pkg/upstream/cluster"
	"verif/vh"
)

const placeholder = "***REDACTED***"

type keyPair struct {
	cert, key, marker string
	caPEM             string // the certificate as inline PEM (cert may be a path in the "path" form)
}

// curForm is the textual form in which the private keys of the current history are configured (ConfigRedact KeyForms).
var curForm = "pem"

// formKey renders a key pair in a form: all of them are accepted by MOSN's TLS code (mtls ConfigHooks.GetCertificate
// takes anything containing "-----BEGIN" as inline and the PEM decoder skips what precedes / follows the block),
// except "path", where private_key and cert_chain name files.
func formKey(k keyPair, form string) keyPair {
	out := k
	out.caPEM = k.cert
	switch form {
	case "pem":
	case "lead_ws":
		out.key = " \n\n" + k.key // the block itself must start a line
	case "preamble": // what `openssl pkcs12 -nodes` writes in front of the key block
		out.key = "Bag Attributes\n    localKeyID: 01 02 03 04\nKey Attributes: <No Attributes>\n" + k.key
	case "trailing":
		out.key = k.key + "# rotated 2026-09-24 by ops\n\n"
	case "crlf":
		out.key = strings.Replace(k.key, "\n", "\r\n", -1)
	case "two_blocks": // what `openssl ecparam -genkey` writes
		out.key = "-----BEGIN EC PARAMETERS-----\nBggqhkjOPQMBBw==\n-----END EC PARAMETERS-----\n" + k.key
	case "path":
		dir := filepath.Join(*work, "keys")
		vh.Must(os.MkdirAll(dir, 0755), "keys dir")
		stem := strings.Map(safeFileRune, k.marker[:12])
		kf := filepath.Join(dir, stem+".key")
		cf := filepath.Join(dir, stem+".crt")
		if _, err := os.Stat(kf); err != nil {
			mustWrite(kf, []byte(k.key))
			mustWrite(cf, []byte(k.cert))
		}
		out.key, out.cert = kf, cf
	default:
		vh.Must(fmt.Errorf("unknown key form %q", form), "case")
	}
	return out
}

func safeFileRune(r rune) rune {
	if r == '+' || r == '=' || r == '/' {
		return '_'
	}
	return r
}

// newKey makes a real certificate/key pair; the marker is a piece of the key's base64 body that
// cannot occur anywhere else.
func newKey(cn string) keyPair {
	k, err := ecdsa.GenerateKey(elliptic.P256(), rand.Reader)
	vh.Must(err, "key")
	tmpl := &x509.Certificate{SerialNumber: big.NewInt(time.Now().UnixNano()), Subject: pkix.Name{CommonName: cn},
		NotBefore: time.Now().Add(-time.Hour), NotAfter: time.Now().Add(240 * time.Hour),
		KeyUsage: x509.KeyUsageDigitalSignature | x509.KeyUsageCertSign, IsCA: true, BasicConstraintsValid: true,
		DNSNames: []string{cn}, ExtKeyUsage: []x509.ExtKeyUsage{x509.ExtKeyUsageServerAuth, x509.ExtKeyUsageClientAuth}}
	der, err := x509.CreateCertificate(rand.Reader, tmpl, tmpl, &k.PublicKey, k)
	vh.Must(err, "cert")
	kb, _ := x509.MarshalECPrivateKey(k)
	kp := keyPair{cert: string(pem.EncodeToMemory(&pem.Block{Type: "CERTIFICATE", Bytes: der})),
		key: string(pem.EncodeToMemory(&pem.Block{Type: "EC PRIVATE KEY", Bytes: kb}))}
	lines := strings.Split(kp.key, "\n")
	kp.marker = lines[1][8:48] // inside one base64 line: no JSON/YAML escaping can split it
	return kp
}

type redactCase struct {
	Form  string                   `json:"form"`  // textual form of every private key of the history
	Spell string                   `json:"spell"` // spelling of the key name at the untyped positions
	Init  [][]interface{}          `json:"init"`  // slots [position, element]
	Ops   []map[string]interface{} `json:"ops"`
}

// liveKey is a key currently configured at element slot of a position.
type liveKey struct {
	keyPair
	slot int
}

type redactor struct {
	tr      *tracer
	keys    []keyPair // pool of pre-generated pairs
	next    int
	live    map[string][]liveKey // position -> keys currently configured there
	pat     map[string]string    // array positions: which elements carry a key, e.g. "100"
	retired []keyPair            // keys that were configured earlier and replaced
	life    *Life
}

// arrayLen is the number of elements of the array-shaped untyped positions (ConfigRedact ArrayLen).
const arrayLen = 3

func isArrayPos(p string) bool { return p == "sfa" || p == "exta" }

func (r *redactor) take(n int) []keyPair {
	out := []keyPair{}
	for i := 0; i < n; i++ {
		out = append(out, formKey(r.keys[r.next%len(r.keys)], curForm))
		r.next++
	}
	return out
}

func tlsObj(kp keyPair, server bool) obj {
	ca := kp.caPEM
	if ca == "" {
		ca = kp.cert
	}
	o := obj{"status": true, "cert_chain": kp.cert, "private_key": kp.key, "ca_cert": ca}
	if !server {
		o["insecure_skip"] = true
	}
	return o
}

// curSpell is how the key NAME is spelled at the untyped positions of the current history (ConfigRedact KeySpells).
var curSpell = "exact"

const escSentinel = "private_keyVERIFESC" // replaced by an escaped spelling in the JSON text

func spelledName(spell string) string {
	switch spell {
	case "title":
		return "Private_Key"
	case "upper":
		return "PRIVATE_KEY"
	case "camel":
		return "privateKey"
	case "escaped":
		return escSentinel
	}
	return "private_key"
}

// respell puts the escaped spelling into a JSON text (the parser resolves it to private_key).
func respell(b []byte) []byte {
	return bytes.Replace(b, []byte(escSentinel), []byte("private\\u005fkey"), -1)
}

// utlsObj is a TLS context as it is written into an untyped config (filter config, extend).
func utlsObj(kp keyPair) obj {
	o := tlsObj(kp, false)
	if n := spelledName(curSpell); n != "private_key" {
		o[n] = o["private_key"]
		delete(o, "private_key")
	}
	return o
}

// consumerAccepts: does decoding into v2.TLSConfig (what the owner of an untyped config does) take the spelling as the key
func consumerAccepts(spell string) bool {
	doc := respell([]byte(`{"` + spelledName(spell) + `": "k"}`))
	var t v2.TLSConfig
	return json.Unmarshal(doc, &t) == nil && t.PrivateKey == "k"
}

func upsertByType(list []interface{}, typ string, entry obj) []interface{} {
	out := []interface{}{}
	for _, e := range list {
		if o, ok := e.(map[string]interface{}); ok && o["type"] == typ {
			continue
		}
		out = append(out, e)
	}
	return append(out, entry)
}

func asList(v interface{}) []interface{} {
	l, _ := v.([]interface{})
	return l
}

// docPlace writes position p into the document with fresh keys at the elements K (array positions; the other
// elements are contexts / servers without an inline key).
func (r *redactor) docPlace(doc obj, p string, K []int) {
	srv := doc["servers"].([]interface{})[0].(obj)
	l := srv["listeners"].([]interface{})[0].(obj)
	fc := l["filter_chains"].([]interface{})[0].(obj)
	lk := []liveKey{}
	one := func() keyPair {
		k := r.take(1)[0]
		lk = append(lk, liveKey{k, len(lk)})
		return k
	}
	// array positions: element i carries a key iff i in K
	elems := func(mk func(i int, k *keyPair) obj) []interface{} {
		in := map[int]bool{}
		for _, i := range K {
			in[i] = true
		}
		out := []interface{}{}
		pat := ""
		for i := 0; i < arrayLen; i++ {
			if in[i] {
				k := r.take(1)[0]
				lk = append(lk, liveKey{k, i})
				out = append(out, mk(i, &k))
				pat += "1"
			} else {
				out = append(out, mk(i, nil))
				pat += "0"
			}
		}
		r.pat[p] = pat
		return out
	}
	switch p {
	case "lis_ctx":
		delete(fc, "tls_context_set")
		delete(r.live, "lis_set")
		fc["tls_context"] = tlsObj(one(), true)
	case "lis_set":
		delete(fc, "tls_context")
		delete(r.live, "lis_ctx")
		fc["tls_context_set"] = []interface{}{tlsObj(one(), true), tlsObj(one(), true)}
	case "clu":
		doc["cluster_manager"].(obj)["clusters"].([]interface{})[0].(obj)["tls_context"] = tlsObj(one(), false)
	case "cm":
		doc["cluster_manager"].(obj)["tls_context"] = tlsObj(one(), false)
	case "ext":
		doc["extends"] = upsertByType(asList(doc["extends"]), "tunnel_agent", obj{"type": "tunnel_agent", "config": obj{"enable": false,
			"cluster": "C", "hosting_listener": "L", "tls_context": utlsObj(one())}})
	case "exta": // an extend with a list of servers, each with its own (optional) TLS context
		servers := elems(func(i int, k *keyPair) obj {
			o := obj{"address": fmt.Sprintf("10.20.0.%d:443", i+1), "weight": uint64(i + 1)}
			if k != nil {
				o["tls_context"] = utlsObj(*k)
			}
			return o
		})
		doc["extends"] = upsertByType(asList(doc["extends"]), "verif_servers", obj{"type": "verif_servers",
			"config": obj{"mode": "static", "servers": servers}})
	case "sf":
		l["stream_filters"] = upsertByType(asList(l["stream_filters"]), "verif_tls_holder", obj{"type": "verif_tls_holder",
			"config": obj{"upstream": obj{"tls_context": utlsObj(one())}}})
	case "sfa": // a network filter whose untyped config keeps a list of contexts; some refer to SDS / carry no key
		set := elems(func(i int, k *keyPair) obj {
			if k != nil {
				o := utlsObj(*k)
				o["server_name"] = fmt.Sprintf("s%d.verif", i)
				return o
			}
			return obj{"status": true, "server_name": fmt.Sprintf("s%d.verif", i), "sds_source": obj{"name": "by-sds"}}
		})
		fc["filters"] = upsertByType(asList(fc["filters"]), "verif_tls_array_holder", obj{"type": "verif_tls_array_holder",
			"config": obj{"upstream": obj{"name": "u", "tls_context_set": set}}})
	default:
		path, ok := extraPositions[p]
		if !ok {
			vh.Must(fmt.Errorf("unknown position %s", p), "case")
		}
		parent := place(doc, path[:len(path)-1])
		last := path[len(path)-1]
		if key, isKey := last.(string); isKey {
			parent[key] = tlsObj(one(), false)
		} else { // element of a list of contexts
			holder := place(doc, path[:len(path)-2])
			holder[path[len(path)-2].(string)] = []interface{}{tlsObj(one(), false)}
		}
	}
	r.live[p] = lk
}

func pairs(lk []liveKey) []keyPair {
	out := []keyPair{}
	for _, k := range lk {
		out = append(out, k.keyPair)
	}
	return out
}

// runtimePlace performs the runtime update that (re)configures position p with fresh keys at elements K.
func (r *redactor) runtimePlace(p string, K []int) error {
	old := pairs(r.live[p])
	var err error
	switch p {
	case "lis_ctx", "lis_set", "sf", "sfa":
		snap := configmanager.VerifSnapshot()
		cur, ok := snap.Listener["L"]
		if !ok {
			return fmt.Errorf("listener L not registered")
		}
		b, _ := json.Marshal(cur) // unredacted current listener configuration
		var lo obj
		json.Unmarshal(b, &lo)
		doc := obj{"servers": []interface{}{obj{"listeners": []interface{}{lo}}}, "cluster_manager": obj{"clusters": []interface{}{obj{}}}}
		if p == "lis_ctx" || p == "lis_set" {
			old = append(pairs(r.live["lis_ctx"]), pairs(r.live["lis_set"])...)
			fc := lo["filter_chains"].([]interface{})[0].(obj)
			delete(fc, "tls_context_set")
			delete(fc, "tls_context")
		}
		r.docPlace(doc, p, K)
		nb, _ := json.Marshal(lo)
		nb = respell(nb)
		lc := &v2.Listener{}
		if err = json.Unmarshal(nb, lc); err != nil {
			return err
		}
		err = server.GetListenerAdapterInstance().AddOrUpdateListener("", lc)
	case "clu":
		snap := configmanager.VerifSnapshot()
		c := snap.Cluster["C"]
		ks := r.take(1)
		b, _ := json.Marshal(tlsObj(ks[0], false))
		var t v2.TLSConfig
		json.Unmarshal(b, &t)
		c.TLS = t
		err = cluster.GetClusterMngAdapterInstance().TriggerClusterAddOrUpdate(c)
		r.live[p] = []liveKey{{ks[0], 0}}
	case "cm":
		ks := r.take(1)
		b, _ := json.Marshal(tlsObj(ks[0], false))
		var t v2.TLSConfig
		json.Unmarshal(b, &t)
		cluster.GetClusterMngAdapterInstance().UpdateTLSManager(&t)
		r.live[p] = []liveKey{{ks[0], 0}}
	case "ext", "exta":
		doc := obj{"servers": []interface{}{obj{"listeners": []interface{}{obj{"filter_chains": []interface{}{obj{}}}}}},
			"cluster_manager": obj{"clusters": []interface{}{obj{}}}}
		r.docPlace(doc, p, K)
		e := doc["extends"].([]interface{})[0].(obj)
		raw, _ := json.Marshal(e["config"])
		raw = respell(raw)
		typ := e["type"].(string)
		if err = v2.ExtendConfigParsed(typ, raw); err == nil {
			configmanager.SetExtend(typ, raw) // what the admin debug API and HandleExtendConfig do
		}
	}
	r.retired = append(r.retired, old...)
	return err
}

var endpointQuery = map[string]string{
	"full": "", "mosnconfig": "?mosnconfig", "allrouters": "?allrouters", "allclusters": "?allclusters",
	"alllisteners": "?alllisteners", "router": "?router=R", "cluster": "?cluster=C", "listener": "?listener=L",
}

// leakedIn names every slot whose key occurs in body: position and "position#element" (+ "/<key pattern>" for array positions).
func (r *redactor) leakedIn(body string) []map[string]string {
	tags := []string{}
	pos := map[string]string{}
	for p, ks := range r.live {
		for _, k := range ks {
			if strings.Contains(body, k.marker) {
				s := fmt.Sprintf("%s#%d", p, k.slot)
				if isArrayPos(p) {
					s += "/" + r.pat[p]
				}
				tags = append(tags, s)
				pos[s] = p
			}
		}
	}
	for _, k := range r.retired {
		if strings.Contains(body, k.marker) {
			tags = append(tags, "retired")
			pos["retired"] = "retired"
			break
		}
	}
	sortStrings(tags)
	out := []map[string]string{}
	for _, t := range tags {
		out = append(out, map[string]string{"p": pos[t], "s": t})
	}
	return out
}

func sortStrings(s []string) {
	for i := range s {
		for j := i + 1; j < len(s); j++ {
			if s[j] < s[i] {
				s[i], s[j] = s[j], s[i]
			}
		}
	}
}

func (r *redactor) dump(e string) {
	before := liveFacts()
	pb, _ := configmanager.InheritMosnconfig()
	req := httptest.NewRequest("GET", "http://127.0.0.1/api/v1/config_dump"+endpointQuery[e], nil)
	w := httptest.NewRecorder()
	admin.ConfigDump(w, req)
	body := w.Body.String()
	after := liveFacts()
	pa, _ := configmanager.InheritMosnconfig()
	var d []string
	diffTrees(before, after, "", &d)
	var pd []string
	x, e1 := decode(pb)
	y, e2 := decode(pa)
	if e1 != nil || e2 != nil {
		pd = []string{"#unparsable"}
	} else {
		equalCanon(x, y, "", &pd)
	}
	pathShown := false
	if curForm == "path" {
		for _, ks := range r.live {
			for _, k := range ks {
				if strings.Contains(body, k.key) {
					pathShown = true
				}
			}
		}
	}
	r.tr.Emit(vh.Ev{"ev": "dump", "e": e, "status": w.Code, "leaked": r.leakedIn(body), "path_shown": pathShown,
		"redacted": strings.Count(body, placeholder), "live_diff": strs(d), "persisted_diff": strs(pd), "bytes": len(body)})
}

// handshake checks that the listener's server-side TLS context built from the live configuration still works.
func handshakeOK() (bool, string) {
	snap := configmanager.VerifSnapshot()
	l, ok := snap.Listener["L"]
	if !ok {
		return false, "no listener"
	}
	mgr, err := mtls.NewTLSServerContextManager(&l)
	if err != nil {
		return false, err.Error()
	}
	if !mgr.Enabled() {
		return true, "tls off"
	}
	ln, err := net.Listen("tcp", "127.0.0.1:0")
	if err != nil {
		return false, "listen: " + err.Error()
	}
	defer ln.Close()
	errc := make(chan error, 1)
	go func() {
		c, err := ln.Accept()
		if err != nil {
			errc <- err
			return
		}
		defer c.Close()
		c.SetDeadline(time.Now().Add(5 * time.Second))
		sc, err := mgr.Conn(c)
		if err != nil {
			errc <- err
			return
		}
		buf := make([]byte, 1)
		_, err = sc.Read(buf) // drives the server side of the handshake
		errc <- err
	}()
	raw, err := net.DialTimeout("tcp", ln.Addr().String(), 2*time.Second)
	if err != nil {
		return false, "dial: " + err.Error()
	}
	defer raw.Close()
	raw.SetDeadline(time.Now().Add(5 * time.Second))
	cl := tls.Client(raw, &tls.Config{InsecureSkipVerify: true, ServerName: "verif"})
	if err := cl.Handshake(); err != nil {
		return false, "client: " + err.Error()
	}
	cl.Write([]byte{1})
	if err := <-errc; err != nil {
		return false, "server: " + err.Error()
	}
	return true, "ok"
}

// liveFacts is the effective configuration without the scratch aliases transferConfig leaves in
// MosnConfig (Servers[0].Listeners/Routers, ClusterManager.Clusters, Extends): they are rewritten from the
// maps on every persist and are not read by anything else.
func liveFacts() interface{} {
	f := effFacts()
	if m, ok := f.(map[string]interface{}); ok {
		if mc, ok := m["MosnConfig"].(map[string]interface{}); ok {
			delete(mc, "Extends")
			if cm, ok := mc["ClusterManager"].(map[string]interface{}); ok {
				delete(cm, "Clusters")
			}
			if ss, ok := mc["Servers"].([]interface{}); ok {
				for _, s := range ss {
					if so, ok := s.(map[string]interface{}); ok {
						delete(so, "Listeners")
						delete(so, "Routers")
					}
				}
			}
		}
	}
	return f
}

// tlsUsable builds the TLS managers of every listener and cluster of cfg the way MOSN's start-up does.
func tlsUsable(cfg *v2.MOSNConfig) error {
	for _, srv := range cfg.Servers {
		for i := range srv.Listeners {
			if _, err := mtls.NewTLSServerContextManager(&srv.Listeners[i]); err != nil {
				return fmt.Errorf("listener %s: %v", srv.Listeners[i].Name, err)
			}
		}
	}
	for i := range cfg.ClusterManager.Clusters {
		if _, err := mtls.NewTLSClientContextManager("verif", &cfg.ClusterManager.Clusters[i].TLS); err != nil {
			return fmt.Errorf("cluster %s: %v", cfg.ClusterManager.Clusters[i].Name, err)
		}
	}
	if _, err := mtls.NewTLSClientContextManager("verif-cm", &cfg.ClusterManager.TLSContext); err != nil {
		return fmt.Errorf("cluster manager: %v", err)
	}
	return nil
}

var extraPositions = map[string][]interface{}{}

func loadExtras() {
	if *extrasPth == "" {
		return
	}
	b, err := ioutil.ReadFile(*extrasPth)
	vh.Must(err, "extras")
	raw := map[string][]interface{}{}
	vh.Must(json.Unmarshal(b, &raw), "extras")
	for k, p := range raw {
		for i, e := range p {
			if f, ok := e.(float64); ok {
				p[i] = int(f)
			}
		}
		extraPositions[k] = p
	}
}

func runRedact() {
	loadExtras()
	g := BuildGraph()
	gen := &Gen{g: g}
	tr := newTracer(*tracePth)
	defer tr.Close()
	pool := []keyPair{}
	for i := 0; i < 48; i++ {
		pool = append(pool, newKey(fmt.Sprintf("k%d.verif", i)))
	}
	idx := 0
	err := vh.ReadCases(*cases, func(raw json.RawMessage) error {
		i := idx
		idx++
		if i < *start {
			return nil
		}
		mark(i)
		var c redactCase
		if err := json.Unmarshal(raw, &c); err != nil {
			return err
		}
		curForm = c.Form
		if curForm == "" {
			curForm = "pem"
		}
		curSpell = c.Spell
		if curSpell == "" {
			curSpell = "exact"
		}
		r := &redactor{tr: tr, keys: pool, next: i * 7, live: map[string][]liveKey{}, pat: map[string]string{}}
		doc := gen.Skeleton(i)
		initK := map[string][]int{}
		order := []string{}
		for _, sl := range c.Init {
			p := sl[0].(string)
			if _, seen := initK[p]; !seen {
				order = append(order, p)
			}
			initK[p] = append(initK[p], int(sl[1].(float64)))
		}
		for _, p := range order {
			r.docPlace(doc, p, initK[p])
		}
		dir := freshDir("redact")
		path := writeDoc(dir, doc, false)
		if fb, err := ioutil.ReadFile(path); err == nil {
			mustWrite(path, respell(fb))
		}
		initEv := c.Init
		if initEv == nil {
			initEv = [][]interface{}{}
		}
		tr.Emit(vh.Ev{"ev": "new", "id": i, "init": initEv, "form": curForm, "spell": curSpell})
		if curSpell != "exact" {
			tr.Emit(vh.Ev{"ev": "accepts", "spell": curSpell, "ok": consumerAccepts(curSpell)})
		}
		life, err := Start(path)
		if err != nil {
			tr.Emit(vh.Ev{"ev": "start", "ok": false, "err": trunc(err.Error())})
			return nil
		}
		r.life = life
		tr.Emit(vh.Ev{"ev": "start", "ok": true})
		for _, op := range c.Ops {
			switch op["op"] {
			case "place":
				p := op["p"].(string)
				K := []int{}
				for _, x := range asList(op["k"]) {
					K = append(K, int(x.(float64)))
				}
				err := r.runtimePlace(p, K)
				ev := vh.Ev{"ev": "place", "p": p, "k": K, "ok": err == nil}
				if err != nil {
					ev["err"] = trunc(err.Error())
				}
				tr.Emit(ev)
			case "dump":
				r.dump(op["e"].(string))
			}
		}
		// the end of every history: the restart file still holds every real key, TLS still works, a restart succeeds
		persisted, perr := life.Persist()
		hs, hmsg := handshakeOK()
		kept := []string{}
		for p, ks := range r.live {
			all := len(ks) > 0
			for _, k := range ks {
				esc, _ := json.Marshal(k.key) // the configured private_key exactly as given, as a JSON string
				if !strings.Contains(string(persisted), string(esc[1:len(esc)-1])) {
					all = false
				}
			}
			if all {
				kept = append(kept, p)
			}
		}
		sortStrings(kept)
		life.Stop()
		reloadOK := false
		reloadMsg := ""
		if perr == nil {
			// a restart would end the process (log.Fatalf) on an unusable TLS context: try the contexts of the
			// persisted file first, with the constructors the start-up uses
			if cfg, err := preflight(path); err != nil {
				reloadMsg = err.Error()
			} else if err := tlsUsable(cfg); err != nil {
				reloadMsg = err.Error()
			} else if l2, err := Start(path); err == nil {
				reloadOK = true
				l2.Stop()
			} else {
				reloadMsg = err.Error()
			}
		}
		tr.Emit(vh.Ev{"ev": "final", "kept": kept, "placeholder_in_file": strings.Contains(string(persisted), placeholder),
			"handshake": hs, "handshake_msg": trunc(hmsg), "reload": reloadOK, "reload_msg": trunc(reloadMsg)})
		return nil
	})
	vh.Must(err, "redact cases")
	mark(-1)
	_ = reflect.TypeOf
}
