// Driver for C19 (configuration survives dump and reload) and C20 (admin dump never leaks TLS keys).
// Modes:
//
//	graph      reflect the configuration type graph of the tree under verification (JSON on -out)
//	rt         replay TLC-enumerated abstract configurations through real MOSN lives, record a trace
//	samples    the same cycle for every shipped sample configuration
//	scenarios  hand-written configurations for the shapes the type-directed enumeration keeps fixed
//	redact     C20: TLS contexts with marker keys at every position, runtime-update histories, admin endpoints
//
// Verdicts are never taken here: the trace is validated by TLC against spec/config/ConfigDump*Trace.
package main

import (
	"encoding/json"
	"flag"
	"fmt"
	"io/ioutil"
	"net/http/httptest"
	"net/url"
	"os"
	"path/filepath"
	"sort"
	"strings"

	"github.com/ghodss/yaml"
	admin "mosn.io/mosn/pkg/admin/server"
	"mosn.io/mosn/pkg/configmanager"
	_ "mosn.io/mosn/pkg/filter/listener/originaldst"
	_ "mosn.io/mosn/pkg/filter/network/connectionmanager"
	_ "mosn.io/mosn/pkg/filter/network/proxy"
	_ "mosn.io/mosn/pkg/filter/network/streamproxy"
	_ "mosn.io/mosn/pkg/filter/network/tunnel"
	_ "mosn.io/mosn/pkg/filter/stream/faultinject"
	_ "mosn.io/mosn/pkg/filter/stream/gzip"
	_ "mosn.io/mosn/pkg/filter/stream/mirror"
	_ "mosn.io/mosn/pkg/filter/stream/payloadlimit"
	"mosn.io/mosn/pkg/log"
	_ "mosn.io/mosn/pkg/network"
	_ "mosn.io/mosn/pkg/protocol"
	_ "mosn.io/mosn/pkg/protocol/http"
	_ "mosn.io/mosn/pkg/protocol/http2"
	_ "mosn.io/mosn/pkg/protocol/xprotocol"
	_ "mosn.io/mosn/pkg/protocol/xprotocol/bolt"
	_ "mosn.io/mosn/pkg/router"
	_ "mosn.io/mosn/pkg/stream/http"
	_ "mosn.io/mosn/pkg/stream/http2"
	_ "mosn.io/mosn/pkg/stream/xprotocol"
	_ "mosn.io/mosn/pkg/upstream/healthcheck"
	"verif/vh"
)

var (
	mode      = flag.String("mode", "rt", "graph|rt|samples|scenarios|redact")
	outPath   = flag.String("out", "", "output file (graph)")
	cases     = flag.String("cases", "", "JSON-lines cases")
	tracePth  = flag.String("trace", "", "NDJSON trace (appended)")
	progress  = flag.String("progress", "", "file receiving the index of the case being executed")
	start     = flag.Int("start", 0, "first case index to execute")
	work      = flag.String("work", "", "scratch directory")
	repo      = flag.String("repo", "", "tree with configs/ and examples/")
	extrasPth = flag.String("extras", "", "redact: JSON object name -> json path of further typed TLS positions")
	yamlEvery = flag.Int("yaml-every", 5, "every n-th case is written as YAML")
)

type abstractCase struct {
	T      string            `json:"t"`
	Assign map[string]string `json:"a"`
	Admin  bool              `json:"admin"`
}

// simple append-only NDJSON writer (vh.Trace truncates)
type tracer struct{ f *os.File }

func newTracer(p string) *tracer {
	f, err := os.OpenFile(p, os.O_CREATE|os.O_APPEND|os.O_WRONLY, 0644)
	vh.Must(err, "trace")
	return &tracer{f: f}
}

func (t *tracer) Emit(e vh.Ev) {
	b, err := json.Marshal(e)
	vh.Must(err, "trace event")
	t.f.Write(append(b, '\n'))
}

func (t *tracer) Close() { t.f.Close() }

func mark(i int) {
	if *progress != "" {
		ioutil.WriteFile(*progress, []byte(fmt.Sprintf("%d", i)), 0644)
	}
}

func main() {
	flag.Parse()
	log.DefaultLogger.SetLogLevel(log.ERROR)
	log.StartLogger.SetLogLevel(log.ERROR)
	switch *mode {
	case "graph":
		g := BuildGraph()
		b, err := json.MarshalIndent(g, "", " ")
		vh.Must(err, "graph")
		mustWrite(*outPath, b)
	case "rt":
		runRT()
	case "samples":
		runSamples()
	case "scenarios":
		runScenarios()
	case "redact":
		runRedact()
	case "names":
		runNames()
	case "race":
		runRace()
	case "loop":
		runLoop()
	default:
		fmt.Fprintln(os.Stderr, "unknown mode")
		os.Exit(3)
	}
}

// cycle runs load -> persist -> stop -> reload -> persist on path and emits the observation events.
// obsFn maps a persisted document to the per-field observations (may be nil).
// reloadExtra, when set, adds observations of the second life to the reload event.
var reloadExtra func() map[string]interface{}

// adminBetween: query every admin config-dump endpoint while the first life runs (a read-only step of the life).
var adminBetween bool

// adminQueries lists the config_dump requests for the objects of the running configuration.
func adminQueries() []string {
	qs := []string{"", "?mosnconfig", "?allrouters", "?allclusters", "?alllisteners"}
	snap := configmanager.VerifSnapshot()
	add := func(param string, names []string) {
		sort.Strings(names)
		for i, n := range names {
			if i < 3 {
				qs = append(qs, "?"+param+"="+url.QueryEscape(n))
			}
		}
	}
	var ls, cs, rs []string
	for n := range snap.Listener {
		ls = append(ls, n)
	}
	for n := range snap.Cluster {
		cs = append(cs, n)
	}
	for n := range snap.Routers {
		rs = append(rs, n)
	}
	add("listener", ls)
	add("cluster", cs)
	add("router", rs)
	return qs
}

// adminDumps performs the requests and reports where the effective configuration differs afterwards.
func adminDumps(tr *tracer) {
	before := liveFacts()
	qs := adminQueries()
	for _, q := range qs {
		req := httptest.NewRequest("GET", "http://127.0.0.1/api/v1/config_dump"+q, nil)
		admin.ConfigDump(httptest.NewRecorder(), req)
	}
	var d []string
	diffTrees(before, liveFacts(), "", &d)
	tr.Emit(vh.Ev{"ev": "admin", "endpoints": len(qs), "diff": strs(d)})
}

func cycle(tr *tracer, path string, obsFn func(doc interface{}) map[string]string) {
	cycleLoadEv(tr, path, obsFn, false)
}

func cycleLoadEv(tr *tracer, path string, obsFn func(doc interface{}) map[string]string, expectRefused bool) {
	l0, err := Start(path)
	if err != nil {
		tr.Emit(vh.Ev{"ev": "load", "ok": false, "err": trunc(err.Error()), "expect_refused": expectRefused})
		return
	}
	tr.Emit(vh.Ev{"ev": "load", "ok": true, "expect_refused": expectRefused})
	e0 := effFacts()
	if adminBetween {
		adminDumps(tr)
	}
	inh, ierr := configmanager.InheritMosnconfig()
	d1, err := l0.Persist()
	l0.Stop()
	if err != nil || ierr != nil {
		tr.Emit(vh.Ev{"ev": "dump", "n": 1, "ok": false, "err": trunc(fmt.Sprint(err, ierr))})
		return
	}
	doc1, err := docJSON(path, d1)
	if err != nil {
		tr.Emit(vh.Ev{"ev": "dump", "n": 1, "ok": false, "err": trunc(err.Error())})
		return
	}
	// the bytes handed to a new MOSN on hot upgrade must describe the same configuration as the file
	inhDoc, err := decode(inh)
	var inhDiff []string
	if err != nil {
		inhDiff = []string{"#unparsable"}
	} else {
		plain := doc1
		if m, ok := doc1.(map[string]interface{}); ok {
			cp := map[string]interface{}{}
			for k, v := range m {
				if k != "#dirs" {
					cp[k] = v
				}
			}
			plain = cp
		}
		equalCanon(inhDoc, plain, "", &inhDiff)
	}
	ev := vh.Ev{"ev": "dump", "n": 1, "ok": true, "inherit_diff": strs(inhDiff)}
	if obsFn != nil {
		ev["obs"] = obsFn(doc1)
	}
	tr.Emit(ev)

	l1, err := Start(path)
	if err != nil {
		tr.Emit(vh.Ev{"ev": "reload", "ok": false, "err": trunc(err.Error())})
		return
	}
	e1 := effFacts()
	var fd []string
	diffTrees(e0, e1, "", &fd)
	rev := vh.Ev{"ev": "reload", "ok": true, "diff": strs(fd)}
	if reloadExtra != nil {
		for k, v := range reloadExtra() {
			rev[k] = v
		}
	}
	tr.Emit(rev)
	d2, err := l1.Persist()
	l1.Stop()
	if err != nil {
		tr.Emit(vh.Ev{"ev": "dump", "n": 2, "ok": false, "err": trunc(err.Error())})
		return
	}
	doc2, err := docJSON(path, d2)
	if err != nil {
		tr.Emit(vh.Ev{"ev": "dump", "n": 2, "ok": false, "err": trunc(err.Error())})
		return
	}
	var dd []string
	equalCanon(doc1, doc2, "", &dd)
	ev = vh.Ev{"ev": "dump", "n": 2, "ok": true, "diff": strs(dd)}
	if obsFn != nil {
		ev["obs"] = obsFn(doc2)
	}
	tr.Emit(ev)
}

func strs(s []string) []string {
	if s == nil {
		return []string{}
	}
	return s
}

func trunc(s string) string {
	if len(s) > 300 {
		return s[:300]
	}
	return s
}

func freshDir(name string) string {
	d := filepath.Join(*work, name)
	os.RemoveAll(d)
	vh.Must(os.MkdirAll(d, 0755), "mkdir")
	return d
}

func writeDoc(dir string, root interface{}, asYAML bool) string {
	b, err := json.MarshalIndent(root, "", "  ")
	vh.Must(err, "marshal case")
	p := filepath.Join(dir, "mosn_config.json")
	if asYAML {
		b, err = yaml.JSONToYAML(b)
		vh.Must(err, "yaml")
		p = filepath.Join(dir, "mosn_config.yaml")
	}
	mustWrite(p, b)
	return p
}

var aliases = map[string][]interface{}{
	"FilterChain.tls_context": {"tls_context_set", 0},
}

func runRT() {
	g := BuildGraph()
	gen := &Gen{g: g}
	tr := newTracer(*tracePth)
	defer tr.Close()
	idx := 0
	seed := int(vh.Seed())
	err := vh.ReadCases(*cases, func(raw json.RawMessage) error {
		i := idx
		idx++
		if i < *start {
			return nil
		}
		mark(i)
		var c abstractCase
		if err := json.Unmarshal(raw, &c); err != nil {
			return err
		}
		root, target, err := gen.Materialise(i, c.T, c.Assign)
		if err != nil {
			return err
		}
		ti := g.Types[c.T]
		asYAML := *yamlEvery > 0 && (i+seed)%*yamlEvery == 0
		dir := freshDir("case")
		path := writeDoc(dir, root, asYAML)
		format := "json"
		if asYAML {
			format = "yaml"
		}
		tr.Emit(vh.Ev{"ev": "case", "id": i, "t": c.T, "a": c.Assign, "fmt": format, "admin": c.Admin})
		adminBetween = c.Admin
		input := canon(target).(map[string]interface{})
		obsFn := func(doc interface{}) map[string]string {
			out := map[string]string{}
			base, _ := at(doc, ti.Pos)
			for _, f := range ti.Fields {
				if f.Fixed {
					continue
				}
				var got interface{}
				present := false
				if base != nil {
					p := []interface{}{f.JSON}
					if a, ok := aliases[c.T+"."+f.JSON]; ok {
						p = a
					}
					got, present = at(base, p)
				}
				iv, set := input[f.JSON]
				switch {
				case !present:
					out[f.JSON] = "absent"
				case set && covers(got, iv, "", nil):
					out[f.JSON] = "same"
				case zeroish(got):
					out[f.JSON] = "zero"
				default:
					out[f.JSON] = "other"
				}
			}
			return out
		}
		cycle(tr, path, obsFn)
		adminBetween = false
		return nil
	})
	vh.Must(err, "rt cases")
	mark(-1)
	fmt.Printf("rt cases=%d\n", idx)
}

func copyDir(src, dst string) error {
	return filepath.Walk(src, func(p string, info os.FileInfo, err error) error {
		if err != nil {
			return err
		}
		rel, _ := filepath.Rel(src, p)
		target := filepath.Join(dst, rel)
		if info.IsDir() {
			return os.MkdirAll(target, 0755)
		}
		if !info.Mode().IsRegular() || info.Size() > 4<<20 {
			return nil
		}
		b, err := ioutil.ReadFile(p)
		if err != nil {
			return err
		}
		return ioutil.WriteFile(target, b, 0644)
	})
}

func sampleFiles(root string) []string {
	var out []string
	for _, sub := range []string{"configs", "examples"} {
		filepath.Walk(filepath.Join(root, sub), func(p string, info os.FileInfo, err error) error {
			if err != nil || info.IsDir() {
				return nil
			}
			switch filepath.Ext(p) {
			case ".json", ".yaml", ".yml":
				out = append(out, p)
			}
			return nil
		})
	}
	sort.Strings(out)
	return out
}

func runSamples() {
	tr := newTracer(*tracePth)
	defer tr.Close()
	files := sampleFiles(*repo)
	for i, p := range files {
		if i < *start {
			continue
		}
		mark(i)
		rel, _ := filepath.Rel(*repo, p)
		// mirror the sample's directory into the scratch area, with the sibling "certs" directory the samples refer to
		top := freshDir("sample")
		srcDir := filepath.Dir(p)
		dir := filepath.Join(top, filepath.Base(srcDir))
		vh.Must(copyDir(srcDir, dir), "copy sample dir")
		if st, err := os.Stat(filepath.Join(filepath.Dir(srcDir), "certs")); err == nil && st.IsDir() && filepath.Base(srcDir) != "certs" {
			vh.Must(copyDir(filepath.Join(filepath.Dir(srcDir), "certs"), filepath.Join(top, "certs")), "copy certs")
		}
		path := filepath.Join(dir, filepath.Base(p))
		cfg, err := preflight(path)
		if err != nil || (len(cfg.Servers) == 0 && len(cfg.ClusterManager.Clusters) == 0 && len(cfg.RawStaticResources) == 0) {
			continue // not a MOSN configuration document
		}
		disarmAgents(path)
		wd, _ := os.Getwd()
		os.Chdir(dir)
		orig, _ := ioutil.ReadFile(path)
		for _, withAdmin := range []bool{false, true} {
			ioutil.WriteFile(path, orig, 0644) // the first cycle rewrote the file
			tr.Emit(vh.Ev{"ev": "case", "id": i, "t": "sample", "a": map[string]string{}, "fmt": strings.TrimPrefix(filepath.Ext(p), "."), "path": rel, "admin": withAdmin})
			adminBetween = withAdmin
			cycle(tr, path, nil)
			adminBetween = false
		}
		os.Chdir(wd)
	}
	mark(-1)
	fmt.Printf("samples=%d\n", len(files))
}

// disarmAgents switches off extends that start network clients of their own in background goroutines
// (the tunnel agent dials its servers and ends the process when its certificates cannot be read):
// "enable": true -> false in the scratch copy of a JSON sample. Everything else is left as shipped.
func disarmAgents(path string) {
	if filepath.Ext(path) != ".json" {
		return
	}
	b, err := ioutil.ReadFile(path)
	if err != nil {
		return
	}
	var doc map[string]interface{}
	d := json.NewDecoder(strings.NewReader(string(b)))
	d.UseNumber()
	if d.Decode(&doc) != nil {
		return
	}
	exts, _ := doc["extends"].([]interface{})
	changed := false
	for _, e := range exts {
		eo, _ := e.(map[string]interface{})
		if eo == nil || eo["type"] != "tunnel_agent" {
			continue
		}
		if c, ok := eo["config"].(map[string]interface{}); ok && c["enable"] == true {
			c["enable"] = false
			changed = true
		}
	}
	if changed {
		if nb, err := json.MarshalIndent(doc, "", "  "); err == nil {
			ioutil.WriteFile(path, nb, 0644)
		}
	}
}
