// C20: an admin config dump overlapping a persist, forced step by step through the verif gates
// (ConfigRedactRace.tla enumerates the interleavings).
package main

import (
	"bytes"
	"encoding/json"
	"fmt"
	"net/http/httptest"
	"sync"
	"time"

	admin "mosn.io/mosn/pkg/admin/server"
	"mosn.io/mosn/pkg/configmanager"
	"mosn.io/mosn/pkg/verifhook"
	"verif/vh"
)

type raceCase struct {
	Prior bool     `json:"prior"`
	E     string   `json:"e"`
	Sched []string `json:"sched"`
}

// gateBoard holds goroutines at named gates until the controller releases them.
type gateBoard struct {
	mu      sync.Mutex
	arrived chan string
	release map[string]chan struct{}
	active  bool
}

func newBoard(points ...string) *gateBoard {
	b := &gateBoard{arrived: make(chan string, 16), release: map[string]chan struct{}{}, active: true}
	for _, p := range points {
		b.release[p] = make(chan struct{}, 1)
	}
	return b
}

func (b *gateBoard) gate(point string, id uint64) {
	b.mu.Lock()
	ch, ok := b.release[point]
	on := b.active
	b.mu.Unlock()
	if !ok || !on {
		return
	}
	b.arrived <- point
	<-ch
}

func (b *gateBoard) open() { // let everything through from now on
	b.mu.Lock()
	b.active = false
	for _, ch := range b.release {
		select {
		case ch <- struct{}{}:
		default:
		}
	}
	b.mu.Unlock()
}

// gatedWriter holds the handler between "response marshalled" and "response written": every dump path calls
// WriteHeader(200) right before it writes the body
type gatedWriter struct {
	*httptest.ResponseRecorder
	b *gateBoard
}

func (g *gatedWriter) WriteHeader(code int) {
	g.b.gate("resp.write", 0)
	g.ResponseRecorder.WriteHeader(code)
}

func runRace() {
	g := BuildGraph()
	gen := &Gen{g: g}
	tr := newTracer(*tracePth)
	defer tr.Close()
	pool := []keyPair{}
	for i := 0; i < 8; i++ {
		pool = append(pool, newKey(fmt.Sprintf("r%d.verif", i)))
	}
	curForm, curSpell = "pem", "exact"
	idx := 0
	err := vh.ReadCases(*cases, func(raw json.RawMessage) error {
		i := idx
		idx++
		if i < *start {
			return nil
		}
		mark(i)
		var c raceCase
		if err := json.Unmarshal(raw, &c); err != nil {
			return err
		}
		r := &redactor{tr: tr, keys: pool, next: i, live: map[string][]liveKey{}, pat: map[string]string{}}
		doc := gen.Skeleton(i)
		for _, p := range []string{"lis_ctx", "clu", "cm", "sf"} {
			r.docPlace(doc, p, []int{0})
		}
		dir := freshDir("race")
		path := writeDoc(dir, doc, false)
		tr.Emit(vh.Ev{"ev": "race", "id": i, "prior": c.Prior, "e": c.E})
		life, err := Start(path)
		if err != nil {
			return fmt.Errorf("race: start: %v", err)
		}
		if c.Prior {
			configmanager.InheritMosnconfig()
		}
		before := liveFacts()

		board := newBoard("cfg.transfer.snapshot", "cfg.transfer.stored", "cfg.redact.copied", "cfg.redact.done", "resp.write")
		verifhook.SetGate(board.gate)
		var persisted []byte
		var body string
		pDone, dDone := make(chan struct{}), make(chan struct{})
		startP := func() {
			go func() {
				persisted, _ = configmanager.InheritMosnconfig()
				close(pDone)
			}()
		}
		startD := func() {
			go func() {
				req := httptest.NewRequest("GET", "http://127.0.0.1/api/v1/config_dump"+endpointQuery[c.E], nil)
				w := &gatedWriter{ResponseRecorder: httptest.NewRecorder(), b: board}
				admin.ConfigDump(w, req)
				body = w.Body.String()
				close(dDone)
			}()
		}
		diverged := false
		waitArrive := func(point string) {
			select {
			case got := <-board.arrived:
				if got != point {
					diverged = true
				}
			case <-time.After(5 * time.Second):
				diverged = true
			}
		}
		waitDone := func(ch chan struct{}) {
			select {
			case <-ch:
			case <-time.After(5 * time.Second):
				diverged = true
			}
		}
		for _, s := range c.Sched {
			if diverged {
				break
			}
			switch s {
			case "Ts":
				startP()
				waitArrive("cfg.transfer.snapshot")
			case "Tw":
				board.release["cfg.transfer.snapshot"] <- struct{}{}
				waitArrive("cfg.transfer.stored")
			case "Tm":
				board.release["cfg.transfer.stored"] <- struct{}{}
				waitDone(pDone)
			case "Rc":
				startD()
				waitArrive("cfg.redact.copied")
			case "Rr":
				board.release["cfg.redact.copied"] <- struct{}{}
				waitArrive("cfg.redact.done")
			case "Rm":
				board.release["cfg.redact.done"] <- struct{}{}
				waitArrive("resp.write")
			case "Rw":
				board.release["resp.write"] <- struct{}{}
				waitDone(dDone)
			}
			if !diverged {
				tr.Emit(vh.Ev{"ev": "step", "s": s})
			}
		}
		board.open()
		verifhook.SetGate(nil)
		if diverged { // let both finish; the model's remaining steps are reported in program order
			waitDone(pDone)
			waitDone(dDone)
		}
		quiet, _ := configmanager.InheritMosnconfig()
		var pd []string
		x, e1 := decode(persisted)
		y, e2 := decode(quiet)
		if e1 != nil || e2 != nil {
			pd = []string{"#unparsable"}
		} else {
			equalCanon(x, y, "", &pd)
		}
		var ld []string
		diffTrees(before, liveFacts(), "", &ld)
		leaked := []string{}
		for _, m := range r.leakedIn(body) {
			leaked = append(leaked, m["s"])
		}
		tr.Emit(vh.Ev{"ev": "result", "diverged": diverged, "persist_placeholder": bytes.Contains(persisted, []byte(placeholder)),
			"persist_diff": strs(pd), "leaked": leaked, "live_diff": strs(ld), "bytes": len(body)})
		life.Stop()
		return nil
	})
	vh.Must(err, "race cases")
	mark(-1)
}
