// Driver for C01 (forwarding fidelity).
//
//	-mode codec : replays the behaviours TLC enumerated from spec/wire/Codec.tla into the real api.XProtocol
//	              codecs (Decode, header/body mutators, SetRequestId+Encode as stream.go does) and records what the
//	              real code did; TLC validates the trace against CodecTrace.tla.
//	-mode relay : TCP proxy listener of an in-process MOSN, chunk/close schedules (see relay.go)
//	-mode xe2e  : xprotocol listeners of an in-process MOSN, pipelined bursts of frames of the enumerated shapes (see xe2e.go)
//	-mode http  : HTTP/1 and HTTP/2 listeners of an in-process MOSN, request targets/headers/bodies (see http.go)
package main

import (
	"flag"
	"fmt"
	"os"

	"verif/vh"
)

func main() {
	mode := flag.String("mode", "codec", "codec|relay|http|xe2e")
	cases := flag.String("cases", "", "cases file (JSON lines printed by TLC)")
	trace := flag.String("trace", "", "trace output (NDJSON)")
	shard := flag.Int("shard", 0, "this shard")
	shards := flag.Int("shards", 1, "number of shards")
	flag.Parse()
	if !vh.HooksCompiled() {
		vh.Must(fmt.Errorf("built without -tags verif"), "hooks")
	}
	switch *mode {
	case "codec":
		runCodec(*cases, *trace, *shard, *shards)
	case "relay":
		runRelay(*cases, *trace, *shard, *shards)
	case "http":
		runHTTP(*cases, *trace, *shard, *shards)
	case "xe2e":
		runXE2E(*cases, *trace, *shard, *shards)
	default:
		fmt.Fprintln(os.Stderr, "unknown mode")
		os.Exit(3)
	}
}
