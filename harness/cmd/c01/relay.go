package main

import (
	"encoding/json"
	"fmt"
	"io"
	"net"
	"os"
	"sync"
	"time"

	v2 "mosn.io/mosn/pkg/config/v2"
	_ "mosn.io/mosn/pkg/filter/network/streamproxy"
	"verif/e2e"
	"verif/vh"
)

// gen is the deterministic byte stream of one peer in one case (the reader regenerates it to check content and order).
type gen struct{ x uint64 }

func newGen(seed int64, idx int, side string) *gen {
	g := &gen{x: uint64(seed)*0x9E3779B97F4A7C15 ^ uint64(idx)<<20 ^ uint64(side[0])}
	if g.x == 0 {
		g.x = 1
	}
	return g
}
func (g *gen) next() byte {
	g.x ^= g.x << 13
	g.x ^= g.x >> 7
	g.x ^= g.x << 17
	return byte(g.x >> 32)
}
func (g *gen) fill(b []byte) {
	for i := range b {
		b[i] = g.next()
	}
}

// peerReader drains a connection, counting bytes and checking them against the expected stream.
type peerReader struct {
	mu     sync.Mutex
	cond   *sync.Cond
	got    int
	prefix bool
	done   bool
	how    string
}

func startReader(c net.Conn, exp *gen) *peerReader {
	r := &peerReader{prefix: true}
	r.cond = sync.NewCond(&r.mu)
	go func() {
		buf := make([]byte, 64*1024)
		for {
			n, err := c.Read(buf)
			r.mu.Lock()
			for i := 0; i < n; i++ {
				if buf[i] != exp.next() {
					r.prefix = false
				}
			}
			r.got += n
			if err != nil {
				r.done = true
				if err == io.EOF {
					r.how = "eof"
				} else {
					r.how = "reset"
				}
			}
			r.cond.Broadcast()
			r.mu.Unlock()
			if err != nil {
				return
			}
		}
	}()
	return r
}

// waitFor blocks until pred holds or the (generous) deadline passes; returns whether pred held.
func (r *peerReader) waitFor(pred func() bool, d time.Duration) bool {
	deadline := time.Now().Add(d)
	t := time.AfterFunc(d, func() { r.mu.Lock(); r.cond.Broadcast(); r.mu.Unlock() })
	defer t.Stop()
	r.mu.Lock()
	defer r.mu.Unlock()
	for !pred() {
		if time.Now().After(deadline) {
			return false
		}
		r.cond.Wait()
	}
	return true
}
func (r *peerReader) snap() (int, bool, bool, string) {
	r.mu.Lock()
	defer r.mu.Unlock()
	return r.got, r.prefix, r.done, r.how
}

type relayOp struct {
	Op   string
	Side string
	N    int
}
type relayCase struct{ Ops []relayOp }

const relayWait = 40 * time.Second

func runRelay(casesPath, tracePath string, shard, shards int) {
	tmp, _ := os.MkdirTemp("", "c01-relay-")
	defer os.RemoveAll(tmp)
	ul, err := net.Listen("tcp", "127.0.0.1:0")
	vh.Must(err, "upstream listen")
	defer ul.Close()
	accepted := make(chan net.Conn, 16)
	go func() {
		for {
			c, err := ul.Accept()
			if err != nil {
				return
			}
			accepted <- c
		}
	}()
	laddr := e2e.FreeAddr()
	lst := v2.Listener{ListenerConfig: v2.ListenerConfig{Name: "c01tcp", AddrConfig: laddr, BindToPort: true, Network: "tcp",
		FilterChains: []v2.FilterChain{{FilterChainConfig: v2.FilterChainConfig{Filters: []v2.Filter{
			{Type: "tcp_proxy", Config: map[string]interface{}{"cluster": "tcp_up"}}}}}}}}
	clusters := e2e.BuildClusters([]e2e.ClusterSpec{{Name: "tcp_up", Hosts: []string{ul.Addr().String()}}})
	m := e2e.StartMosn(e2e.BuildConfig([]v2.Listener{lst}, clusters, e2e.ScratchLog(tmp)))
	defer m.Close()
	vh.Must(e2e.WaitListen(laddr, 10*time.Second), "mosn tcp listener")
	// WaitListen's probe connection reaches the upstream too: drain it
	drain := time.After(300 * time.Millisecond)
loop:
	for {
		select {
		case c := <-accepted:
			c.Close()
		case <-drain:
			break loop
		}
	}
	tr := vh.NewTrace(tracePath)
	defer tr.Close()
	idx, n := 0, 0
	err = vh.ReadCases(casesPath, func(raw json.RawMessage) error {
		idx++
		if idx%shards != shard {
			return nil
		}
		var c relayCase
		if err := json.Unmarshal(raw, &c); err != nil {
			return err
		}
		cc, err := net.DialTimeout("tcp", laddr, 10*time.Second)
		if err != nil {
			return fmt.Errorf("dial mosn: %v", err)
		}
		var uc net.Conn
		select {
		case uc = <-accepted:
		case <-time.After(relayWait):
			return fmt.Errorf("upstream connection never arrived")
		}
		conns := map[string]net.Conn{"c": cc, "u": uc}
		wgen := map[string]*gen{"c": newGen(vh.Seed(), idx, "c"), "u": newGen(vh.Seed(), idx, "u")}
		// the reader on side X checks the stream written by the other side
		rd := map[string]*peerReader{"c": startReader(cc, newGen(vh.Seed(), idx, "u")), "u": startReader(uc, newGen(vh.Seed(), idx, "c"))}
		sent := map[string]int{"c": 0, "u": 0}
		other := map[string]string{"c": "u", "u": "c"}
		tr.Emit(vh.Ev{"ev": "conn", "case": idx})
		for _, o := range c.Ops {
			switch o.Op {
			case "send":
				b := make([]byte, o.N)
				wgen[o.Side].fill(b)
				if _, err := conns[o.Side].Write(b); err != nil {
					return fmt.Errorf("write on %s: %v", o.Side, err)
				}
				sent[o.Side] += o.N
				tr.Emit(vh.Ev{"ev": "send", "side": o.Side, "n": o.N})
			case "sync":
				ok := rd["u"].waitFor(func() bool { return rd["u"].got >= sent["c"] || rd["u"].done }, relayWait)
				ok = rd["c"].waitFor(func() bool { return rd["c"].got >= sent["u"] || rd["c"].done }, relayWait) && ok
				cg, cp, _, _ := rd["c"].snap()
				ug, up, _, _ := rd["u"].snap()
				tr.Emit(vh.Ev{"ev": "sync", "ok": ok && cg >= sent["u"] && ug >= sent["c"], "c": cg, "u": ug, "prefix": cp && up})
			case "close":
				g, p, _, _ := rd[o.Side].snap()
				conns[o.Side].Close()
				tr.Emit(vh.Ev{"ev": "close", "side": o.Side, "got": g, "prefix": p})
				ob := other[o.Side]
				fin := rd[ob].waitFor(func() bool { return rd[ob].done }, relayWait)
				og, op, _, how := rd[ob].snap()
				if !fin {
					how = "timeout"
				}
				tr.Emit(vh.Ev{"ev": "eof", "side": ob, "got": og, "prefix": op, "how": how})
				conns[ob].Close()
			}
		}
		cc.Close()
		uc.Close()
		n++
		return nil
	})
	vh.Must(err, "relay cases")
	fmt.Printf("relay cases=%d events=%d\n", n, tr.Len())
}
