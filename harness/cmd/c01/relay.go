package main

func runRelay(casesPath, tracePath string, shard, shards int) {}
