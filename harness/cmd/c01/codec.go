package main

import (
	"bytes"
	"context"
	"encoding/binary"
	"encoding/json"
	"fmt"
	"math/rand"
	"os"
	"reflect"

	"github.com/TarsCloud/TarsGo/tars/protocol/codec"
	"github.com/TarsCloud/TarsGo/tars/protocol/res/requestf"
	"mosn.io/api"
	"mosn.io/pkg/buffer"
	"mosn.io/pkg/variable"

	"mosn.io/mosn/pkg/protocol/xprotocol"
	"mosn.io/mosn/pkg/protocol/xprotocol/bolt"
	"mosn.io/mosn/pkg/protocol/xprotocol/boltv2"
	"mosn.io/mosn/pkg/protocol/xprotocol/dubbo"
	"mosn.io/mosn/pkg/protocol/xprotocol/dubbothrift"
	"mosn.io/mosn/pkg/protocol/xprotocol/tars"
	xstream "mosn.io/mosn/pkg/stream/xprotocol"
	"verif/vh"
)

// ---------------------------------------------------------------- case format (JSON printed by TLC from Codec.tla)

type pin struct{ Off, Val int }
type lenField struct {
	Part   string
	Off, W int
}
type layout struct {
	Kind              string
	Fixed, Idoff, Idw int
	Pins              []pin
	Lens              []lenField
	Parts             []string
}
type pair struct {
	K  int `json:"k"`
	Kl int `json:"kl"`
	Vl int `json:"vl"`
}
type shape struct {
	Class int    `json:"class"`
	Hdrs  []pair `json:"hdrs"`
	Body  int    `json:"body"`
	Svc   int    `json:"svc"`
}
type opRec struct {
	Op string
	K  int
	N  int
	Id string
}
type codecCase struct {
	Codec, Dir, Fill string
	Lay              layout
	Shape            shape
	Ops              []opRec
}

var codecs = map[string]api.XProtocolCodec{"bolt": &bolt.XCodec{}, "boltv2": &boltv2.XCodec{}, "dubbo": &dubbo.XCodec{},
	"dubbothrift": &dubbothrift.XCodec{}, "tars": &tars.XCodec{}}

// registerCodecs makes the codecs available to a running MOSN (and to bolt's boltv2 fall-through).
func registerCodecs() {
	xprotocol.RegisterXProtocolAction(xstream.NewConnPool, xstream.NewStreamFactory, func(codec api.XProtocolCodec) {})
	for _, n := range []string{"bolt", "boltv2", "dubbo", "dubbothrift", "tars"} {
		if err := xprotocol.RegisterXProtocolCodec(codecs[n]); err != nil && os.Getenv("VERIF_C01_DEBUG") != "" {
			fmt.Println("register", n, err)
		}
	}
}

// ---------------------------------------------------------------- shadow content and reference encoder

type kv struct{ key, val []byte }

// shadow is the driver's own record of what the frame must contain. It never reads mosn's structs.
type shadow struct {
	c     *codecCase
	fixed []byte // fixed header template: fill applied, pins set (kv, dubbo)
	class []byte
	hdrs  []kv
	body  []byte
	orig  []byte // the frame as sent to the decoder
	idOff int    // where the driver wrote the id (thrift), -1 for tars
	// thrift
	svc, method string
	thriftVer   byte
	thriftType  byte
	// tars: SetData semantics of this codec is "the data buffer is the complete frame"
	whole []byte
}

func putUint(b []byte, w int, v uint64) {
	for i := 0; i < w; i++ {
		b[w-1-i] = byte(v >> (8 * uint(i)))
	}
}
func getUint(b []byte, w int) uint64 {
	var v uint64
	for i := 0; i < w; i++ {
		v = v<<8 | uint64(b[i])
	}
	return v
}

func keyName(k, kl int) string {
	s := fmt.Sprintf("k%d", k)
	for len(s) < kl {
		s += "x"
	}
	return s[:kl]
}

func randBytes(r *rand.Rand, n int) []byte {
	b := make([]byte, n)
	r.Read(b)
	return b
}

func hdrBlock(h []kv) []byte {
	var b []byte
	var l [4]byte
	for _, p := range h {
		binary.BigEndian.PutUint32(l[:], uint32(len(p.key)))
		b = append(b, l[:]...)
		b = append(b, p.key...)
		binary.BigEndian.PutUint32(l[:], uint32(len(p.val)))
		b = append(b, l[:]...)
		b = append(b, p.val...)
	}
	return b
}

func hessianString(s string) []byte {
	n := len(s)
	switch {
	case n <= 31:
		return append([]byte{byte(n)}, s...)
	case n <= 1023:
		return append([]byte{byte(0x30 + n>>8), byte(n)}, s...)
	default:
		return append([]byte{'S', byte(n >> 8), byte(n)}, s...)
	}
}

func letters(r *rand.Rand, n int) string {
	b := make([]byte, n)
	for i := range b {
		b[i] = byte('a' + r.Intn(26))
	}
	return string(b)
}

func (s *shadow) partBytes(part string) []byte {
	switch part {
	case "class":
		return s.class
	case "hdr":
		return hdrBlock(s.hdrs)
	case "body":
		return s.body
	}
	return nil
}

// refEncode is the reference peer: the bytes a correct encoder must produce for the shadow content and id.
func (s *shadow) refEncode(id uint64) []byte {
	lay := &s.c.Lay
	switch lay.Kind {
	case "kv", "dubbo":
		b := append([]byte{}, s.fixed...)
		putUint(b[lay.Idoff:], lay.Idw, id)
		for _, f := range lay.Lens {
			n := uint64(len(s.partBytes(f.Part)))
			if f.W < 8 && n >= uint64(1)<<(8*uint(f.W)) {
				return nil // not representable: no correct frame exists
			}
			putUint(b[f.Off:], f.W, n)
		}
		for _, p := range lay.Parts {
			b = append(b, s.partBytes(p)...)
		}
		return b
	case "thrift":
		f, _ := buildThrift(s.svc, s.thriftVer, id, s.body)
		return f
	case "tars":
		src := s.orig
		if s.whole != nil {
			src = s.whole
		}
		tag := 4
		if s.c.Dir == "resp" {
			tag = 3
		}
		out, ok := tarsPatchID(src, tag, int32(id))
		if !ok {
			return nil
		}
		return out
	}
	return nil
}

// buildThrift: u32 len | magic dabc | u32 len | u16 hdrlen | version | string service | i64 id | payload
func buildThrift(svc string, ver byte, id uint64, payload []byte) (frame []byte, idOff int) {
	msg := []byte{0xda, 0xbc, 0, 0, 0, 0, 0, 0, ver}
	var l [8]byte
	binary.BigEndian.PutUint32(l[:4], uint32(len(svc)))
	msg = append(msg, l[:4]...)
	msg = append(msg, svc...)
	idOff = 4 + len(msg)
	binary.BigEndian.PutUint64(l[:], id)
	msg = append(msg, l[:]...)
	hdrLen := len(msg)
	msg = append(msg, payload...)
	binary.BigEndian.PutUint32(msg[2:6], uint32(len(msg)))
	binary.BigEndian.PutUint16(msg[6:8], uint16(hdrLen))
	frame = make([]byte, 4, 4+len(msg))
	binary.BigEndian.PutUint32(frame, uint32(len(msg)))
	frame = append(frame, msg...)
	return
}

func thriftMessage(method string, typ byte, seq int32, filler []byte) []byte {
	var b []byte
	var l [4]byte
	binary.BigEndian.PutUint32(l[:], 0x80010000|uint32(typ))
	b = append(b, l[:]...)
	binary.BigEndian.PutUint32(l[:], uint32(len(method)))
	b = append(b, l[:]...)
	b = append(b, method...)
	binary.BigEndian.PutUint32(l[:], uint32(seq))
	b = append(b, l[:]...)
	return append(b, filler...)
}

// tarsInt encodes an int32 at a tag the way the tars wire format prescribes (smallest integer type, ZERO_TAG for 0).
func tarsInt(tag int, v int32) []byte {
	head := func(t byte) []byte { return []byte{byte(tag<<4) | t} }
	switch {
	case v == 0:
		return head(12)
	case v >= -128 && v <= 127:
		return append(head(0), byte(v))
	case v >= -32768 && v <= 32767:
		return append(head(1), byte(v>>8), byte(v))
	default:
		return append(head(2), byte(v>>24), byte(v>>16), byte(v>>8), byte(v))
	}
}

// tarsPatchID walks the top-level integer fields of a tars packet up to `tag` and replaces that field.
func tarsPatchID(frame []byte, tag int, id int32) ([]byte, bool) {
	i := 4
	for i < len(frame) {
		b := frame[i]
		t, ty := int(b>>4), b&0xf
		if t == 15 {
			return nil, false
		}
		n := 0
		switch ty {
		case 0:
			n = 1
		case 1:
			n = 2
		case 2:
			n = 4
		case 3:
			n = 8
		case 12:
			n = 0
		default:
			return nil, false
		}
		if t == tag {
			out := append([]byte{}, frame[:i]...)
			out = append(out, tarsInt(tag, id)...)
			out = append(out, frame[i+1+n:]...)
			binary.BigEndian.PutUint32(out, uint32(len(out)))
			return out, true
		}
		if t > tag {
			return nil, false
		}
		i += 1 + n
	}
	return nil, false
}

// tarsSame: two tars frames carry the same packet (a tars peer reads the same fields; map entry order is not significant).
func tarsSame(a, b []byte, dir string) (same bool) {
	defer func() {
		if recover() != nil {
			same = false
		}
	}()
	if len(a) < 4 || len(b) < 4 || len(a) != len(b) {
		return false
	}
	if dir == "resp" {
		pa, pb := &requestf.ResponsePacket{}, &requestf.ResponsePacket{}
		if pa.ReadFrom(codec.NewReader(a[4:])) != nil || pb.ReadFrom(codec.NewReader(b[4:])) != nil {
			return false
		}
		return reflect.DeepEqual(pa, pb)
	}
	pa, pb := &requestf.RequestPacket{}, &requestf.RequestPacket{}
	if pa.ReadFrom(codec.NewReader(a[4:])) != nil || pb.ReadFrom(codec.NewReader(b[4:])) != nil {
		return false
	}
	return reflect.DeepEqual(pa, pb)
}

func fillVal(fill string, r *rand.Rand) byte {
	switch fill {
	case "zero":
		return 0
	case "ones":
		return 0xff
	}
	return byte(r.Intn(256))
}

func buildTars(c *codecCase, r *rand.Rand, id int32, bodyLen int, svc string) []byte {
	sb := make([]int8, bodyLen)
	for i := range sb {
		sb[i] = int8(r.Intn(256))
	}
	f32 := func() int32 {
		switch c.Fill {
		case "zero":
			return 0
		case "ones":
			return -1
		}
		return int32(r.Uint32())
	}
	os := codec.NewBuffer()
	if c.Dir == "resp" {
		p := &requestf.ResponsePacket{IVersion: 1, CPacketType: int8(fillVal(c.Fill, r)), IRequestId: id, IMessageType: f32(), IRet: f32() % 100,
			SBuffer: sb, Status: map[string]string{"s1": "v1", "s2": letters(r, 9)}, SResultDesc: letters(r, 5),
			Context: map[string]string{"c1": letters(r, 3), "c2": letters(r, 30), "c3": ""}}
		p.WriteTo(os)
	} else {
		p := &requestf.RequestPacket{IVersion: 1, CPacketType: int8(fillVal(c.Fill, r)), IMessageType: f32(), IRequestId: id, SServantName: svc,
			SFuncName: "fn" + letters(r, 4), SBuffer: sb, ITimeout: f32(), Context: map[string]string{"c1": letters(r, 3), "c2": letters(r, 30), "c3": ""},
			Status: map[string]string{"s1": "v1", "s2": letters(r, 9)}}
		p.WriteTo(os)
	}
	bs := os.ToBytes()
	frame := make([]byte, 4, 4+len(bs))
	frame = append(frame, bs...)
	binary.BigEndian.PutUint32(frame, uint32(len(frame)))
	return frame
}

// newShadow concretises the abstract shape into bytes (seeded) and builds the frame to be received.
func newShadow(c *codecCase, r *rand.Rand) (*shadow, uint64) {
	s := &shadow{c: c, idOff: c.Lay.Idoff}
	lay := &c.Lay
	idmask := ^uint64(0)
	if lay.Idw < 8 {
		idmask = (uint64(1) << (8 * uint(lay.Idw))) - 1
	}
	id := r.Uint64() & idmask
	switch lay.Kind {
	case "kv", "dubbo":
		s.fixed = make([]byte, lay.Fixed)
		for i := range s.fixed {
			s.fixed[i] = fillVal(c.Fill, r)
		}
		for _, p := range lay.Pins {
			s.fixed[p.Off] = byte(p.Val)
		}
		if lay.Kind == "kv" {
			s.class = randBytes(r, c.Shape.Class)
			for _, p := range c.Shape.Hdrs {
				s.hdrs = append(s.hdrs, kv{[]byte(keyName(p.K, p.Kl)), randBytes(r, p.Vl)})
			}
			s.body = randBytes(r, c.Shape.Body)
			if e2eMode {
				// routable and answerable: service header, rpc request/response command code, a timeout that cannot expire
				s.hdrs = append(s.hdrs, kv{[]byte("service"), []byte("svc-e2e")})
				cc, to := 2, 10
				if lay.Pins[0].Val == 2 {
					cc, to = 3, 12
				}
				code := uint64(1)
				if c.Dir == "resp" {
					code = 2
					putUint(s.fixed[to:], 2, 0) // response status: success
				} else {
					putUint(s.fixed[to:], 4, 30000)
				}
				putUint(s.fixed[cc:], 2, code)
			}
		} else if c.Dir == "resp" {
			s.body = randBytes(r, c.Shape.Body)
		} else {
			// dubbo request payload: hessian2 strings dubbo version, path, version, method, parameter types, then arguments
			p := hessianString("2.0.2")
			p = append(p, hessianString(letters(r, c.Shape.Svc))...)
			p = append(p, hessianString("1.0.0")...)
			p = append(p, hessianString("m"+letters(r, 3))...)
			p = append(p, hessianString("")...)
			if len(p) < c.Shape.Body {
				p = append(p, randBytes(r, c.Shape.Body-len(p))...)
			}
			s.body = p
		}
		s.orig = s.refEncode(id)
	case "thrift":
		s.svc = letters(r, c.Shape.Svc)
		s.thriftVer = fillVal(c.Fill, r)
		for _, p := range lay.Pins {
			if p.Off == 12 {
				s.thriftVer = byte(p.Val)
			}
		}
		s.thriftType = 1
		if c.Dir == "resp" {
			s.thriftType = 2
		}
		m := "mt" + letters(r, 2)
		fl := c.Shape.Body - 12 - len(m)
		if fl < 0 {
			fl = 0
		}
		s.body = thriftMessage(m, s.thriftType, int32(r.Uint32()), randBytes(r, fl))
		s.orig, s.idOff = buildThrift(s.svc, s.thriftVer, id, s.body)
	case "tars":
		id &= 0x7fffffff
		s.svc = letters(r, c.Shape.Svc)
		s.orig = buildTars(c, r, int32(id), c.Shape.Body, s.svc)
		s.body = make([]byte, c.Shape.Body) // length only; content lives in orig
		s.idOff = -1
	}
	return s, id
}

func (s *shadow) content() map[string]interface{} {
	h := []map[string]int{}
	if s.c.Lay.Kind == "kv" {
		for i, p := range s.hdrs {
			_ = i
			h = append(h, map[string]int{"k": keyID(p.key), "kl": len(p.key), "vl": len(p.val)})
		}
	}
	return map[string]interface{}{"class": len(s.class), "hdrs": h, "body": len(s.body), "svc": s.c.Shape.Svc}
}

func keyID(k []byte) int {
	if len(k) >= 2 && k[0] == 'k' {
		return int(k[1] - '0')
	}
	return 0
}

// ---------------------------------------------------------------- replay of one behaviour into the real codec

func clip(b []byte) []byte {
	if len(b) > 120 {
		return b[:120]
	}
	return b
}

func short(err interface{}) string {
	s := fmt.Sprintf("%v", err)
	if len(s) > 80 {
		s = s[:80]
	}
	if s == "" {
		s = "error"
	}
	return s
}

type live struct {
	buf  api.IoBuffer
	copy []byte
}

func replayCodec(idx int, c *codecCase, r *rand.Rand, tr *vh.Trace) {
	xc := codecs[c.Codec]
	if xc == nil {
		vh.Must(fmt.Errorf("codec %s unknown", c.Codec), "protocol")
	}
	proto := xc.NewXProtocol(context.Background())
	sh, id0 := newShadow(c, r)
	ctx := buffer.NewBufferPoolContext(variable.NewVariableContext(context.Background()))

	// the connection's read buffer: the frame followed by the beginning of the next one
	extra := 7
	if extra > len(sh.orig) {
		extra = len(sh.orig)
	}
	rb := make([]byte, 0, len(sh.orig)+extra)
	rb = append(rb, sh.orig...)
	rb = append(rb, sh.orig[:extra]...)
	iob := buffer.NewIoBufferBytes(rb)

	var frame api.XFrame
	recv := vh.Ev{"ev": "recv", "case": idx, "codec": c.Codec, "dir": c.Dir, "fill": c.Fill, "content": sh.content(),
		"framelen": len(sh.orig), "consumed": 0, "err": "", "deq": false, "idok": false, "panic": false}
	func() {
		defer func() {
			if p := recover(); p != nil {
				recv["err"] = "panic"
				recv["panic"] = true
			}
		}()
		before := iob.Len()
		cmd, err := proto.Decode(ctx, iob)
		recv["consumed"] = before - iob.Len()
		if err != nil {
			recv["err"] = "decode error"
			return
		}
		if cmd == nil {
			recv["err"] = "need more data"
			return
		}
		f, ok := cmd.(api.XFrame)
		if !ok {
			recv["err"] = "not an XFrame"
			return
		}
		frame = f
		recv["idok"] = f.GetRequestId() == id0
		deq := true
		wantType := map[string]api.StreamType{"req": api.Request, "oneway": api.RequestOneWay, "resp": api.Response}[c.Dir]
		if c.Codec == "dubbo" && c.Dir == "oneway" {
			wantType = api.Request // the dubbo codec has no one-way stream type
		}
		if f.GetStreamType() != wantType {
			deq = false
		}
		switch c.Lay.Kind {
		case "kv":
			i := 0
			f.GetHeader().Range(func(k, v string) bool {
				if i >= len(sh.hdrs) || k != string(sh.hdrs[i].key) || v != string(sh.hdrs[i].val) {
					deq = false
				}
				i++
				return true
			})
			if i != len(sh.hdrs) {
				deq = false
			}
			fallthrough
		case "dubbo", "thrift":
			d := f.GetData()
			if d == nil {
				if len(sh.body) != 0 {
					deq = false
				}
			} else if !bytes.Equal(d.Bytes(), sh.body) {
				deq = false
			}
		case "tars":
			if d := f.GetData(); d == nil || !bytes.Equal(d.Bytes(), sh.orig) {
				deq = false
			}
		}
		recv["deq"] = deq
	}()
	tr.Emit(recv)
	if frame == nil {
		return
	}

	curID := id0
	var pending []live // buffers handed out by Encode and not yet written
	idmask := ^uint64(0)
	if c.Lay.Idw < 8 {
		idmask = (uint64(1) << (8 * uint(c.Lay.Idw))) - 1
	}
	if c.Lay.Kind == "tars" {
		idmask = 0x7fffffff
	}
	for _, o := range c.Ops {
		switch o.Op {
		case "set", "del", "get", "body", "samebody":
			ev := vh.Ev{"ev": "mut", "op": o.Op, "k": o.K, "n": o.N, "panic": false}
			func() {
				defer func() {
					if p := recover(); p != nil {
						ev["panic"] = true
					}
				}()
				switch o.Op {
				case "set":
					key, val := keyName(o.K, o.K+1), randBytes(r, o.N)
					frame.GetHeader().Set(key, string(val))
					if c.Lay.Kind == "kv" {
						found := false
						for i := range sh.hdrs {
							if string(sh.hdrs[i].key) == key {
								sh.hdrs[i].val = val
								found = true
								break
							}
						}
						if !found {
							sh.hdrs = append(sh.hdrs, kv{[]byte(key), val})
						}
					}
				case "del":
					key := keyName(o.K, o.K+1)
					frame.GetHeader().Del(key)
					if c.Lay.Kind == "kv" {
						for i := range sh.hdrs {
							if string(sh.hdrs[i].key) == key {
								sh.hdrs = append(sh.hdrs[:i:i], sh.hdrs[i+1:]...)
								break
							}
						}
					}
				case "get":
					frame.GetHeader().Get(keyName(o.K, o.K+1))
				case "body":
					var nb []byte
					if c.Lay.Kind == "tars" {
						// the data buffer of a tars frame is the complete frame
						nb = buildTars(c, r, int32(curID), o.N, sh.svc)
						sh.whole = nb
						sh.body = make([]byte, o.N)
					} else {
						nb = randBytes(r, o.N)
						sh.body = nb
					}
					frame.SetData(buffer.NewIoBufferBytes(append([]byte{}, nb...)))
				case "samebody":
					frame.SetData(frame.GetData())
				}
			}()
			tr.Emit(ev)
		case "scribble":
			for i := range rb[:cap(rb)] {
				rb[:cap(rb)][i] = 0xA5
			}
			same := true
			for _, p := range pending {
				if !bytes.Equal(p.buf.Bytes(), p.copy) {
					same = false
				}
			}
			tr.Emit(vh.Ev{"ev": "scribble", "outsame": same})
		case "reuse":
			// what the connection does after the write: give the buffers back; then the pool serves other users
			for _, p := range pending {
				buffer.PutIoBuffer(p.buf)
			}
			pending = nil
			var hold []api.IoBuffer
			for _, sz := range []int{len(sh.orig), len(sh.orig), len(sh.orig) + 1, 64, 4096} {
				b := buffer.GetIoBuffer(sz)
				junk := bytes.Repeat([]byte{0x5A}, sz)
				b.Write(junk)
				hold = append(hold, b)
			}
			_ = hold // never returned: the memory stays "in use by someone else"
			tr.Emit(vh.Ev{"ev": "reuse"})
		case "fwd":
			var nid uint64
			switch o.Id {
			case "same":
				nid = curID
			case "zero":
				nid = 0
			case "max":
				nid = idmask
			default:
				nid = r.Uint64() & idmask
				if nid == curID {
					nid ^= 1
				}
			}
			ev := vh.Ev{"ev": "fwd", "id": o.Id, "err": "", "panic": false, "total": 0, "lens": map[string]int{"class": 0, "hdr": 0, "body": 0},
				"lfok": false, "ident": false, "semeq": false, "refeq": false, "idok": false}
			func() {
				defer func() {
					if p := recover(); p != nil {
						ev["err"] = "panic"
						ev["panic"] = true
					}
				}()
				frame.SetRequestId(nid) // stream.go endStream
				buf, err := proto.Encode(ctx, frame)
				if err != nil {
					ev["err"] = short(err)
					return
				}
				out := append([]byte{}, buf.Bytes()...)
				pending = append(pending, live{buf, out})
				curID = nid
				ev["total"] = len(out)
				// identity with the received bytes, request id patched where the layout / the builder put it
				exp := append([]byte{}, sh.orig...)
				switch {
				case sh.idOff >= 0:
					putUint(exp[sh.idOff:], c.Lay.Idw, nid)
				default:
					tag := 4
					if c.Dir == "resp" {
						tag = 3
					}
					exp, _ = tarsPatchID(sh.orig, tag, int32(nid))
				}
				ev["ident"] = bytes.Equal(out, exp)
				ev["semeq"] = bytes.Equal(out, exp) || (c.Lay.Kind == "tars" && tarsSame(exp, out, c.Dir))
				ref := sh.refEncode(nid)
				ev["refeq"] = ref != nil && bytes.Equal(out, ref)
				if os.Getenv("VERIF_C01_DEBUG") != "" && !bytes.Equal(out, ref) {
					fmt.Printf("case %d out=%x\n        ref=%x\n", idx, clip(out), clip(ref))
				}
				// parse the output with the layout: length fields and request id
				lens := map[string]int{"class": 0, "hdr": 0, "body": 0}
				lfok := true
				switch c.Lay.Kind {
				case "kv", "dubbo":
					if len(out) < c.Lay.Fixed {
						lfok = false
						break
					}
					sum := c.Lay.Fixed
					for _, f := range c.Lay.Lens {
						v := int(getUint(out[f.Off:], f.W))
						lens[f.Part] = v
						sum += v
					}
					lfok = sum == len(out)
					ev["idok"] = getUint(out[c.Lay.Idoff:], c.Lay.Idw) == nid
				case "thrift":
					if len(out) < c.Lay.Fixed {
						lfok = false
						break
					}
					for _, f := range c.Lay.Lens {
						v := int(getUint(out[f.Off:], f.W))
						switch f.Part {
						case "frame-4":
							if v != len(out)-4 {
								lfok = false
							}
						case "thdr":
							if 4+v > len(out) || v < 8 {
								lfok = false
							} else {
								lens["body"] = len(out) - 4 - v
								ev["idok"] = getUint(out[4+v-8:], 8) == nid
							}
						}
					}
				case "tars":
					lfok = len(out) >= 4 && int(getUint(out, 4)) == len(out)
					// request id and payload length as a tars peer reads them
					func() {
						defer func() { recover() }()
						rd := codec.NewReader(out[4:])
						if c.Dir == "resp" {
							p := &requestf.ResponsePacket{}
							if p.ReadFrom(rd) == nil {
								ev["idok"] = p.IRequestId == int32(nid)
								lens["body"] = len(p.SBuffer)
							}
						} else {
							p := &requestf.RequestPacket{}
							if p.ReadFrom(rd) == nil {
								ev["idok"] = p.IRequestId == int32(nid)
								lens["body"] = len(p.SBuffer)
							}
						}
					}()
				}
				ev["lens"] = lens
				ev["lfok"] = lfok
			}()
			tr.Emit(ev)
		}
	}
}

func runCodec(casesPath, tracePath string, shard, shards int) {
	registerCodecs()
	tr := vh.NewTrace(tracePath)
	defer tr.Close()
	idx := 0
	n := 0
	err := vh.ReadCases(casesPath, func(raw json.RawMessage) error {
		idx++
		if idx%shards != shard {
			return nil
		}
		var c codecCase
		if err := json.Unmarshal(raw, &c); err != nil {
			return err
		}
		// the bytes of a case depend on the seed and the case only (not on sharding)
		r := rand.New(rand.NewSource(vh.Seed()*1000003 + int64(idx)))
		replayCodec(idx, &c, r, tr)
		n++
		return nil
	})
	vh.Must(err, "codec cases")
	fmt.Printf("codec cases=%d events=%d\n", n, tr.Len())
}
