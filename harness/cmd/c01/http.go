package main

func runHTTP(casesPath, tracePath string, shard, shards int) {}
