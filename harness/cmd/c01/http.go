package main

import (
	"bufio"
	"bytes"
	"crypto/tls"
	"encoding/json"
	"fmt"
	"io"
	"net"
	"net/http"
	"net/url"
	"os"
	"sort"
	"strings"
	"sync"
	"time"

	"golang.org/x/net/http2"
	"golang.org/x/net/http2/h2c"
	v2 "mosn.io/mosn/pkg/config/v2"
	"verif/e2e"
	"verif/vh"
)

type httpCase struct {
	Pair   string `json:"pair"`
	Method string `json:"method"`
	Uri    string `json:"uri"`
	Body   int    `json:"body"`
	Hdr    string `json:"hdr"`
	Status int    `json:"status"`
	Rbody  int    `json:"rbody"`
	Retry  int    `json:"retry"`
}

type hdrLine struct{ k, v string }

// headerSet returns the header lines of a kind (prefix distinguishes request and response headers).
func headerSet(kind, prefix string) []hdrLine {
	switch kind {
	case "mixedcase":
		return []hdrLine{{prefix + "-MiXed-CaSe", "Value With  Two Spaces; q=0.5, x"}}
	case "empty":
		return []hdrLine{{prefix + "-Empty", ""}, {prefix + "-After", "z"}}
	case "multi":
		return []hdrLine{{prefix + "-Multi", "a"}, {prefix + "-Multi", "b"}, {prefix + "-Other", "a=1; b=2"}}
	case "long":
		return []hdrLine{{prefix + "-Long", strings.Repeat("v0123456789", 700)}}
	}
	return []hdrLine{{prefix + "-Test-A", "v1"}}
}

// sameHeaders: every sent field is present with the same values in the same order (names are case-insensitive;
// a repeated field may arrive as separate lines or as one comma-joined line, RFC 7230 3.2.2).
func sameHeaders(sent []hdrLine, got http.Header) bool {
	want := map[string][]string{}
	var names []string
	for _, l := range sent {
		k := strings.ToLower(l.k)
		if _, ok := want[k]; !ok {
			names = append(names, k)
		}
		want[k] = append(want[k], l.v)
	}
	sort.Strings(names)
	for _, k := range names {
		var g []string
		for gk, gv := range got {
			if strings.ToLower(gk) == k {
				g = append(g, gv...)
			}
		}
		if strings.Join(g, ", ") != strings.Join(want[k], ", ") {
			return false
		}
	}
	return true
}

type seenReq struct {
	method, uri string
	hdr         http.Header
	body        []byte
	host        string
	major       int
}

type recUpstream struct {
	mu     sync.Mutex
	seen   chan seenReq
	fail   int // number of attempts still to be answered 503 (the route retries on 5xx)
	last   int // status of the last answer sent
	status int
	rhdr   []hdrLine
	rbody  []byte
	srv    *http.Server
	Addr   string
}

func newRecUpstream() *recUpstream {
	u := &recUpstream{seen: make(chan seenReq, 16)}
	ln, err := net.Listen("tcp", "127.0.0.1:0")
	vh.Must(err, "upstream listen")
	u.Addr = ln.Addr().String()
	h := http.HandlerFunc(func(w http.ResponseWriter, r *http.Request) {
		if os.Getenv("VERIF_C01_DEBUG") != "" {
			fmt.Printf("upstream got %s %s proto=%d hdr=%v\n", r.Method, r.RequestURI, r.ProtoMajor, r.Header)
		}
		b, _ := io.ReadAll(r.Body)
		if os.Getenv("VERIF_C01_DEBUG") != "" {
			fmt.Printf("upstream body %d\n", len(b))
		}
		u.mu.Lock()
		st, rh, rb := u.status, u.rhdr, u.rbody
		if u.fail > 0 {
			u.fail--
			st, rh, rb = 503, nil, []byte("retry-me")
		}
		u.last = st
		u.mu.Unlock()
		u.seen <- seenReq{method: r.Method, uri: r.RequestURI, hdr: r.Header.Clone(), body: b, host: r.Host, major: r.ProtoMajor}
		for _, l := range rh {
			w.Header().Add(l.k, l.v)
		}
		w.Header().Set("Content-Type", "application/octet-stream")
		if st != 204 {
			w.Header().Set("Content-Length", fmt.Sprint(len(rb)))
		}
		w.WriteHeader(st)
		if st != 204 && r.Method != "HEAD" {
			w.Write(rb)
		}
	})
	u.srv = &http.Server{Handler: h2c.NewHandler(h, &http2.Server{})}
	go u.srv.Serve(ln)
	return u
}

type clientResp struct {
	ok     bool
	status int
	hdr    http.Header
	body   []byte
}

// h1 client: the request bytes are written by hand so that the target is exactly the case's string.
func doH1(addr string, c *httpCase, hdrs []hdrLine, body []byte) clientResp {
	conn, err := net.DialTimeout("tcp", addr, 10*time.Second)
	if err != nil {
		return clientResp{}
	}
	defer conn.Close()
	var b bytes.Buffer
	fmt.Fprintf(&b, "%s %s HTTP/1.1\r\nHost: fidelity.test\r\n", c.Method, c.Uri)
	for _, l := range hdrs {
		fmt.Fprintf(&b, "%s: %s\r\n", l.k, l.v)
	}
	if len(body) > 0 || c.Method == "POST" || c.Method == "PUT" {
		fmt.Fprintf(&b, "Content-Length: %d\r\n", len(body))
	}
	b.WriteString("\r\n")
	b.Write(body)
	conn.SetDeadline(time.Now().Add(60 * time.Second))
	if _, err := conn.Write(b.Bytes()); err != nil {
		return clientResp{}
	}
	resp, err := http.ReadResponse(bufio.NewReader(conn), &http.Request{Method: c.Method})
	if err != nil {
		return clientResp{}
	}
	rb, err := io.ReadAll(resp.Body)
	if err != nil {
		return clientResp{}
	}
	return clientResp{ok: true, status: resp.StatusCode, hdr: resp.Header, body: rb}
}

var h2client = &http.Client{Timeout: 60 * time.Second, Transport: &http2.Transport{AllowHTTP: true,
	DialTLS: func(network, addr string, _ *tls.Config) (net.Conn, error) { return net.Dial(network, addr) }}}

func doH2(addr string, c *httpCase, hdrs []hdrLine, body []byte) clientResp {
	u, err := url.Parse("http://" + addr + c.Uri)
	if err != nil {
		return clientResp{}
	}
	var rd io.Reader
	if len(body) > 0 || c.Method == "POST" || c.Method == "PUT" {
		rd = bytes.NewReader(body)
	}
	req, err := http.NewRequest(c.Method, u.String(), rd)
	if err != nil {
		return clientResp{}
	}
	req.URL = u
	req.Host = "fidelity.test"
	for _, l := range hdrs {
		req.Header.Add(l.k, l.v)
	}
	resp, err := h2client.Do(req)
	if err != nil {
		return clientResp{}
	}
	defer resp.Body.Close()
	rb, err := io.ReadAll(resp.Body)
	if err != nil {
		return clientResp{}
	}
	return clientResp{ok: true, status: resp.StatusCode, hdr: resp.Header, body: rb}
}

// the protocol spoken to the cluster is a property of the route in this code base
func upProto(name string) func(r *v2.Router) {
	return func(r *v2.Router) { r.Route.UpstreamProtocol = name }
}

func runHTTP(casesPath, tracePath string, shard, shards int) {
	tmp, _ := os.MkdirTemp("", "c01-http-")
	defer os.RemoveAll(tmp)
	if os.Getenv("VERIF_C01_DEBUG") != "" {
		go func() {
			time.Sleep(8 * time.Second)
			b, _ := os.ReadFile(e2e.ScratchLog(tmp))
			if len(b) > 5000 {
				b = b[:5000]
			}
			fmt.Printf("---- mosn log\n%s\n", b)
		}()
	}
	up := newRecUpstream()
	defer up.srv.Close()
	proto := map[byte]string{'1': "Http1", '2': "Http2"}
	// Same-protocol pairings only: crossing HTTP/1 and HTTP/2 is the job of the transcoder stream filter in this code base
	// (with only the route's upstream_protocol set, h1->h2 answers lose status and headers and h2->h1 panics in
	// stream/http AppendHeaders), i.e. it is a configured rewrite, not plain forwarding.
	pairs := []string{"h1h1", "h2h2"}
	addrs := map[string]string{}
	var lst []v2.Listener
	var cl []e2e.ClusterSpec
	for _, p := range pairs {
		addrs[p] = e2e.FreeAddr()
		lst = append(lst, e2e.BuildListener(e2e.ListenerSpec{Name: "c01" + p, Addr: addrs[p], Downstream: proto[p[1]], Upstream: proto[p[3]],
			Routes: []e2e.RouteSpec{{Prefix: "/r/", Cluster: "up" + p, TimeoutMs: 60000, RetryOn: true, NumRetries: 2, Extra: upProto(proto[p[3]])},
				{Prefix: "/", Cluster: "up" + p, TimeoutMs: 60000, Extra: upProto(proto[p[3]])}}}))
		cl = append(cl, e2e.ClusterSpec{Name: "up" + p, Hosts: []string{up.Addr}})
	}
	m := e2e.StartMosn(e2e.BuildConfig(lst, e2e.BuildClusters(cl), e2e.ScratchLog(tmp)))
	defer m.Close()
	for _, p := range pairs {
		vh.Must(e2e.WaitListen(addrs[p], 10*time.Second), "mosn listener "+p)
	}
	tr := vh.NewTrace(tracePath)
	defer tr.Close()
	idx, n := 0, 0
	err := vh.ReadCases(casesPath, func(raw json.RawMessage) error {
		idx++
		if idx%shards != shard {
			return nil
		}
		var c httpCase
		if err := json.Unmarshal(raw, &c); err != nil {
			return err
		}
		g := newGen(vh.Seed(), idx, "c")
		body := make([]byte, c.Body)
		g.fill(body)
		rbody := make([]byte, c.Rbody)
		newGen(vh.Seed(), idx, "u").fill(rbody)
		reqH, respH := headerSet(c.Hdr, "X-Req"), headerSet(c.Hdr, "X-Resp")
		if c.Retry > 0 {
			c.Uri = "/r" + c.Uri // the route with a retry policy
		}
		up.mu.Lock()
		up.status, up.rhdr, up.rbody, up.fail, up.last = c.Status, respH, rbody, c.Retry, 0
		up.mu.Unlock()
		for len(up.seen) > 0 {
			<-up.seen
		}
		if os.Getenv("VERIF_C01_DEBUG") != "" {
			fmt.Printf("case %d %+v\n", idx, c)
		}
		tr.Emit(vh.Ev{"ev": "req", "case": idx, "pair": c.Pair, "method": c.Method, "uri": c.Uri, "body": c.Body, "hdr": c.Hdr, "status": c.Status, "rbody": c.Rbody, "retry": c.Retry})
		var r clientResp
		if c.Pair[1] == '1' {
			r = doH1(addrs[c.Pair], &c, reqH, body)
		} else {
			r = doH2(addrs[c.Pair], &c, reqH, body)
		}
		// the response (or its absence) is known: whatever the upstream recorded is complete by now; one event per attempt
		nseen := 0
	drain:
		for {
			select {
			case s := <-up.seen:
				nseen++
				tr.Emit(vh.Ev{"ev": "seen", "arrived": true, "attempt": nseen, "method": s.method, "uri": s.uri, "bodylen": len(s.body),
					"bodyeq": bytes.Equal(s.body, body), "hdreq": sameHeaders(reqH, s.hdr), "host": s.host, "upver": s.major})
			default:
				break drain
			}
		}
		if nseen == 0 {
			tr.Emit(vh.Ev{"ev": "seen", "arrived": false, "attempt": 0, "method": "", "uri": "", "bodylen": 0, "bodyeq": false, "hdreq": false, "host": "", "upver": 0})
		}
		// the client must get the answer the upstream gave last (if the retry budget ran out that is the 503)
		up.mu.Lock()
		last := up.last
		up.mu.Unlock()
		wantBody, wantH := rbody, respH
		if last == 503 && c.Status != 503 {
			wantBody, wantH = []byte("retry-me"), nil
		}
		if c.Method == "HEAD" || last == 204 {
			wantBody = nil
		}
		tr.Emit(vh.Ev{"ev": "resp", "ok": r.ok, "status": r.status, "statuseq": r.status == last, "bodyeq": r.ok && bytes.Equal(r.body, wantBody),
			"hdreq": r.ok && sameHeaders(wantH, r.hdr), "attempts": nseen})
		n++
		return nil
	})
	vh.Must(err, "http cases")
	fmt.Printf("http cases=%d events=%d\n", n, tr.Len())
}
