package main

import (
	"bytes"
	"encoding/json"
	"fmt"
	"io"
	"math/rand"
	"net"
	"os"
	"sync"
	"time"

	v2 "mosn.io/mosn/pkg/config/v2"
	"verif/e2e"
	"verif/vh"
)

// xCase: one request shape and one response shape of a codec (both enumerated by TLC from Codec.tla), sent as a burst
// of `burst` pipelined requests on one client connection through an xprotocol listener of the in-process MOSN.
type xCase struct {
	Codec string    `json:"codec"`
	Burst int       `json:"burst"`
	Req   codecCase `json:"req"`
	Resp  codecCase `json:"resp"`
}

var e2eMode bool // frames must be routable and answerable: service header, rpc command code, sane timeout

func idTag(dir string) int {
	if dir == "resp" {
		return 3
	}
	return 4
}

// frameLen: total length of the frame at the head of b according to the layout (0 = need more bytes).
func frameLen(lay *layout, b []byte) int {
	switch lay.Kind {
	case "kv", "dubbo":
		if len(b) < lay.Fixed {
			return 0
		}
		n := lay.Fixed
		for _, f := range lay.Lens {
			n += int(getUint(b[f.Off:], f.W))
		}
		return n
	case "thrift":
		if len(b) < 4 {
			return 0
		}
		return 4 + int(getUint(b, 4))
	default:
		if len(b) < 4 {
			return 0
		}
		return int(getUint(b, 4))
	}
}

func idOffset(lay *layout, f []byte) int {
	if lay.Kind == "thrift" {
		return 4 + int(getUint(f[10:], 2)) - 8
	}
	return lay.Idoff
}

func getID(lay *layout, dir string, f []byte) (uint64, bool) {
	if lay.Kind == "tars" {
		return tarsGetID(f, idTag(dir))
	}
	o := idOffset(lay, f)
	if o < 0 || o+lay.Idw > len(f) {
		return 0, false
	}
	return getUint(f[o:], lay.Idw), true
}

func withID(lay *layout, dir string, f []byte, id uint64) []byte {
	if lay.Kind == "tars" {
		out, ok := tarsPatchID(f, idTag(dir), int32(id))
		if !ok {
			return nil
		}
		return out
	}
	o := idOffset(lay, f)
	if o < 0 || o+lay.Idw > len(f) {
		return nil
	}
	out := append([]byte{}, f...)
	putUint(out[o:], lay.Idw, id)
	return out
}

func tarsGetID(frame []byte, tag int) (uint64, bool) {
	i := 4
	for i < len(frame) {
		b := frame[i]
		t, ty := int(b>>4), b&0xf
		n := map[byte]int{0: 1, 1: 2, 2: 4, 3: 8, 12: 0}
		w, ok := n[ty]
		if !ok || t == 15 || i+1+w > len(frame) {
			return 0, false
		}
		if t == tag {
			var v int64
			switch w {
			case 0:
				v = 0
			case 1:
				v = int64(int8(frame[i+1]))
			case 2:
				v = int64(int16(getUint(frame[i+1:], 2)))
			case 4:
				v = int64(int32(getUint(frame[i+1:], 4)))
			}
			return uint64(uint32(v)), true
		}
		i += 1 + w
	}
	return 0, false
}

// readFrame reads one complete frame from c.
func readFrame(c net.Conn, lay *layout, acc *[]byte) ([]byte, error) {
	buf := make([]byte, 64*1024)
	for {
		if n := frameLen(lay, *acc); n > 0 && len(*acc) >= n {
			f := append([]byte{}, (*acc)[:n]...)
			*acc = (*acc)[n:]
			return f, nil
		}
		n, err := c.Read(buf)
		*acc = append(*acc, buf[:n]...)
		if err != nil {
			if n2 := frameLen(lay, *acc); n2 > 0 && len(*acc) >= n2 {
				continue
			}
			return nil, err
		}
	}
}

type xUpstream struct {
	mu      sync.Mutex
	lay     *layout // request layout
	onFrame func(f []byte) []byte
	Addr    string
	ln      net.Listener
}

func newXUpstream() *xUpstream {
	ln, err := net.Listen("tcp", "127.0.0.1:0")
	vh.Must(err, "x upstream listen")
	u := &xUpstream{Addr: ln.Addr().String(), ln: ln}
	go func() {
		for {
			c, err := ln.Accept()
			if err != nil {
				return
			}
			go func() {
				defer c.Close()
				var acc []byte
				for {
					u.mu.Lock()
					lay := u.lay
					u.mu.Unlock()
					if lay == nil {
						return
					}
					f, err := readFrame(c, lay, &acc)
					if err != nil {
						return
					}
					u.mu.Lock()
					h := u.onFrame
					u.mu.Unlock()
					if h != nil {
						if r := h(f); r != nil {
							c.Write(r)
						}
					}
				}
			}()
		}
	}()
	return u
}

func sameMasked(lay *layout, dir string, a, b []byte) (ident, sem bool) {
	ma, mb := withID(lay, dir, a, 0), withID(lay, dir, b, 0)
	if ma == nil || mb == nil {
		return false, false
	}
	ident = bytes.Equal(ma, mb)
	sem = ident || (lay.Kind == "tars" && tarsSame(ma, mb, dir))
	return
}

func runXE2E(casesPath, tracePath string, shard, shards int) {
	e2eMode = true
	registerCodecs()
	tmp, _ := os.MkdirTemp("", "c01-x-")
	defer os.RemoveAll(tmp)
	if os.Getenv("VERIF_C01_DEBUG") != "" {
		defer func() {
			b, _ := os.ReadFile(e2e.ScratchLog(tmp))
			if len(b) > 6000 {
				b = b[:6000]
			}
			fmt.Printf("---- mosn log\n%s\n", b)
		}()
	}
	names := []string{"bolt", "boltv2", "dubbo", "dubbothrift", "tars"}
	sub := map[string]string{"bolt": "bolt", "boltv2": "boltv2", "dubbo": "dubbo", "dubbothrift": "dubbo-thrift", "tars": "tars"}
	ups := map[string]*xUpstream{}
	addrs := map[string]string{}
	var lst []v2.Listener
	var cl []e2e.ClusterSpec
	for _, n := range names {
		ups[n] = newXUpstream()
		defer ups[n].ln.Close()
		addrs[n] = e2e.FreeAddr()
		cluster := "xup_" + n
		lst = append(lst, e2e.BuildListener(e2e.ListenerSpec{Name: "c01x" + n, Addr: addrs[n], Downstream: "X", Upstream: "X", SubProto: sub[n],
			Routes: []e2e.RouteSpec{{Prefix: "/", Cluster: cluster, TimeoutMs: 60000, Extra: func(r *v2.Router) {
				r.Match = v2.RouterMatch{Headers: []v2.HeaderMatcher{{Name: "service", Value: ".*", Regex: true}}}
			}}}}))
		cl = append(cl, e2e.ClusterSpec{Name: cluster, Hosts: []string{ups[n].Addr}})
	}
	m := e2e.StartMosn(e2e.BuildConfig(lst, e2e.BuildClusters(cl), e2e.ScratchLog(tmp)))
	defer m.Close()
	for _, n := range names {
		vh.Must(e2e.WaitListen(addrs[n], 10*time.Second), "mosn x listener "+n)
	}
	tr := vh.NewTrace(tracePath)
	defer tr.Close()
	idx, ncase, ntimeout := 0, 0, 0
	err := vh.ReadCases(casesPath, func(raw json.RawMessage) error {
		idx++
		if idx%shards != shard {
			return nil
		}
		var c xCase
		if err := json.Unmarshal(raw, &c); err != nil {
			return err
		}
		r := rand.New(rand.NewSource(vh.Seed()*7919 + int64(idx)))
		type one struct {
			req, resp []byte
			id        uint64
			upSeen    bool
		}
		reqs := make([]*one, c.Burst)
		var wire []byte
		for i := range reqs {
			rs, id := newShadow(&c.Req, r)
			ps, _ := newShadow(&c.Resp, r)
			id = (id &^ 0xff) | uint64(i+1) // distinct ids inside the burst
			if c.Req.Lay.Kind == "tars" {
				id &= 0x7fffffff
			}
			reqs[i] = &one{req: withID(&c.Req.Lay, "req", rs.orig, id), resp: ps.orig, id: id}
			if reqs[i].req == nil {
				return fmt.Errorf("cannot place id in request frame")
			}
			wire = append(wire, reqs[i].req...)
		}
		var mu sync.Mutex
		upEvents := []vh.Ev{}
		u := ups[c.Codec]
		u.mu.Lock()
		u.lay = &c.Req.Lay
		u.onFrame = func(f []byte) []byte {
			mu.Lock()
			defer mu.Unlock()
			var hit *one
			ident, sem := false, false
			for _, q := range reqs {
				if q.upSeen {
					continue
				}
				if id2, s2 := sameMasked(&c.Req.Lay, "req", f, q.req); s2 {
					hit, ident, sem = q, id2, s2
					break
				}
			}
			upEvents = append(upEvents, vh.Ev{"ev": "xup", "ident": ident, "semeq": sem, "len": len(f)})
			if hit == nil {
				for _, q := range reqs {
					if !q.upSeen {
						hit = q
						break
					}
				}
			}
			if hit == nil {
				return nil
			}
			hit.upSeen = true
			id, ok := getID(&c.Req.Lay, "req", f)
			if !ok {
				return nil
			}
			return withID(&c.Resp.Lay, "resp", hit.resp, id)
		}
		u.mu.Unlock()
		tr.Emit(vh.Ev{"ev": "xreq", "case": idx, "codec": c.Codec, "burst": c.Burst, "reqlen": len(reqs[0].req), "resplen": len(reqs[0].resp)})
		conn, err := net.DialTimeout("tcp", addrs[c.Codec], 10*time.Second)
		if err != nil {
			return fmt.Errorf("dial x listener: %v", err)
		}
		conn.SetDeadline(time.Now().Add(40 * time.Second))
		if _, err := conn.Write(wire); err != nil {
			return fmt.Errorf("client write: %v", err)
		}
		var acc []byte
		respEvents := []vh.Ev{}
		how := "done"
		for i := 0; i < c.Burst; i++ {
			f, err := readFrame(conn, &c.Resp.Lay, &acc)
			if err != nil {
				how = "closed"
				if ne, ok := err.(net.Error); ok && ne.Timeout() {
					how = "timeout"
				} else if err != io.EOF {
					how = "reset"
				}
				break
			}
			id, ok := getID(&c.Resp.Lay, "resp", f)
			var hit *one
			for _, q := range reqs {
				if ok && q.id == id {
					hit = q
				}
			}
			ev := vh.Ev{"ev": "xresp", "known": hit != nil, "ident": false, "semeq": false}
			if hit != nil {
				exp := withID(&c.Resp.Lay, "resp", hit.resp, hit.id)
				ev["ident"] = bytes.Equal(exp, f)
				ev["semeq"] = bytes.Equal(exp, f) || (c.Resp.Lay.Kind == "tars" && tarsSame(exp, f, "resp"))
			}
			respEvents = append(respEvents, ev)
		}
		conn.Close()
		mu.Lock()
		for _, e := range upEvents {
			tr.Emit(e)
		}
		nup := len(upEvents)
		mu.Unlock()
		for _, e := range respEvents {
			tr.Emit(e)
		}
		tr.Emit(vh.Ev{"ev": "xend", "ups": nup, "resps": len(respEvents), "how": how})
		ncase++
		if how == "timeout" {
			if ntimeout++; ntimeout >= 3 {
				return fmt.Errorf("%d bursts ended on the harness deadline: giving up (no verdict)", ntimeout)
			}
		}
		return nil
	})
	vh.Must(err, "xe2e cases")
	fmt.Printf("xe2e cases=%d events=%d\n", ncase, tr.Len())
}
