// Driver for C12: replays TLC-enumerated histories of runtime updates (routers, single routes,
// clusters, host lists, xDS endpoint assignments, listeners) into the real managers of MOSN and
// records, after every operation, what the live objects answer and what objects freshly built
// from the dumped configuration answer. TLC validates the trace against spec/config/ConfigStore.
// Mode "swap": route lookups and host selection concurrent with updates (linearizability windows).
package main

import (
	"bytes"
	"context"
	"encoding/json"
	"flag"
	"fmt"
	"net"
	"net/http"
	"net/http/httptest"
	"os"
	"path/filepath"
	"sort"
	"strings"
	"time"

	envoy_config_core_v3 "github.com/envoyproxy/go-control-plane/envoy/config/core/v3"
	envoy_config_endpoint_v3 "github.com/envoyproxy/go-control-plane/envoy/config/endpoint/v3"
	"google.golang.org/protobuf/types/known/structpb"
	"google.golang.org/protobuf/types/known/wrapperspb"
	"mosn.io/api"
	"mosn.io/mosn/istio/istio1106/xds/conv"
	v2 "mosn.io/mosn/pkg/config/v2"
	"mosn.io/mosn/pkg/configmanager"
	"mosn.io/mosn/pkg/log"
	"mosn.io/mosn/pkg/protocol"
	"mosn.io/mosn/pkg/router"
	"mosn.io/mosn/pkg/server"
	"mosn.io/mosn/pkg/types"
	"mosn.io/mosn/pkg/upstream/cluster"
	"mosn.io/pkg/variable"
	"verif/vh"
)

// ---- the universe shared with spec/config/ConfigStoreTrace.cfg ----
var hostAddr = map[string]string{"h1": "10.12.0.1:80", "h2": "10.12.0.2:80", "h3": "10.12.0.3:80"}
var addrHost = map[string]string{}
var lbOf = map[string]v2.LbType{"rr": v2.LB_ROUNDROBIN, "rand": v2.LB_RANDOM}
var lbName = map[types.LoadBalancerType]string{types.RoundRobin: "rr", types.Random: "rand"}
var listenerAddr = map[string]string{"l1": "127.0.0.1:34012"}
var probes = [][2]string{{"a.com", "/x"}, {"a.com", "/y"}, {"zz.com", "/x"}, {"zz.com", "/y"}}

type route struct {
	Pre string `json:"pre"`
	Cl  string `json:"cl"`
}
type vhost struct {
	Name   string  `json:"name"`
	Dom    string  `json:"dom"`
	Routes []route `json:"routes"`
}
// hostArg is a host argument of an operation: a map address id -> attribute class (TLC writes an object, or []
// for the empty map), or a plain list of address ids (rmhosts).
type hostArg struct {
	ids  []string          // sorted address ids
	attr map[string]string // attribute class per id ("" for plain lists)
}

func (a *hostArg) UnmarshalJSON(b []byte) error {
	a.attr = map[string]string{}
	a.ids = []string{}
	if len(b) > 0 && b[0] == '[' {
		if err := json.Unmarshal(b, &a.ids); err != nil {
			return err
		}
	} else if err := json.Unmarshal(b, &a.attr); err != nil {
		return err
	} else {
		for k := range a.attr {
			a.ids = append(a.ids, k)
		}
	}
	sort.Strings(a.ids)
	return nil
}

func uni(ids []string, attr string) hostArg {
	a := hostArg{ids: append([]string{}, ids...), attr: map[string]string{}}
	sort.Strings(a.ids)
	for _, h := range a.ids {
		a.attr[h] = attr
	}
	return a
}

type hostObs struct {
	H string `json:"h"`
	A string `json:"a"`
}

// pairs is the trace representation of a host map.
func (a hostArg) pairs() []hostObs {
	out := []hostObs{}
	for _, h := range a.ids {
		out = append(out, hostObs{h, a.attr[h]})
	}
	return out
}

// the attribute classes: everything an update can change about a host that is also persisted and observable
var attrWeight = map[string]uint32{"a1": 1, "a2": 2}
var attrVersion = map[string]string{"a1": "v1", "a2": "v2"}

type op struct {
	Op   string     `json:"op"`
	R    string     `json:"r,omitempty"`
	K    string     `json:"k,omitempty"`
	Vhs  []vhost    `json:"vhs,omitempty"`
	Dom  string     `json:"dom,omitempty"`
	Rt   *route     `json:"rt,omitempty"`
	C    string     `json:"c,omitempty"`
	Lb   string     `json:"lb,omitempty"`
	Hs   hostArg    `json:"hs"`
	Cs   []string   `json:"cs,omitempty"`
	Locs []hostArg  `json:"locs,omitempty"`
	N    string     `json:"n,omitempty"`
	V    string     `json:"v,omitempty"`
	Path *bool      `json:"path,omitempty"` // routers: the update carries the path of the router's directory (storage mode dir)
}

// withPath: updates of a directory-mode router carry the directory's path unless the case says they arrive without one
// (admin API, xDS): such a router is stored inline from then on
func (o op) withPath() bool { return o.Path == nil || *o.Path }

type histCase struct {
	Ops []op     `json:"ops"`
	Cm  string   `json:"cm"` // storage mode of the dumped clusters: inline | dir (clusters_configs directory)
	Rm  string   `json:"rm"` // storage mode of the dumped routers: inline | dir (router_configs directory per router)
	Cl  []string `json:"cl"` // the history's universe of cluster / router / listener names
	Rt  []string `json:"rt"`
	Ls  []string `json:"ls"`
}

// ---- configuration objects, built the way the admin API builds them: from JSON ----
func routeJSON(r route) map[string]interface{} {
	return map[string]interface{}{"match": map[string]interface{}{"prefix": r.Pre},
		"route": map[string]interface{}{"cluster_name": r.Cl}}
}

func routerCfgJSON(name string, vhs []vhost) []byte {
	vl := []interface{}{}
	for i, v := range vhs {
		rs := []interface{}{}
		for _, r := range v.Routes {
			rs = append(rs, routeJSON(r))
		}
		name := v.Name
		if name == "" {
			name = fmt.Sprintf("vh%d", i)
		}
		vl = append(vl, map[string]interface{}{"name": name, "domains": []string{v.Dom}, "routers": rs})
	}
	b, _ := json.Marshal(map[string]interface{}{"router_config_name": name, "virtual_hosts": vl})
	return b
}

func hostsJSON(hs hostArg) []interface{} {
	out := []interface{}{}
	for _, h := range hs.ids {
		a := hs.attr[h]
		out = append(out, map[string]interface{}{"address": hostAddr[h], "hostname": h, "weight": attrWeight[a],
			"metadata": map[string]interface{}{"filter_metadata": map[string]interface{}{"mosn.lb": map[string]interface{}{"version": attrVersion[a]}}}})
	}
	return out
}

func clusterCfgJSON(name, lb string, hs *hostArg) []byte {
	m := map[string]interface{}{"name": name, "type": "SIMPLE", "lb_type": string(lbOf[lb])}
	if hs != nil {
		m["hosts"] = hostsJSON(*hs)
	}
	b, _ := json.Marshal(m)
	return b
}

func hostCfgs(hs hostArg) []v2.Host {
	b, _ := json.Marshal(hostsJSON(hs))
	var out []v2.Host
	vh.Must(json.Unmarshal(b, &out), "host config")
	return out
}

func listenerCfgJSON(name, variant string) []byte {
	m := map[string]interface{}{"name": name, "address": listenerAddr[name], "bind_port": false,
		"filter_chains": []interface{}{map[string]interface{}{}}}
	// the two variants differ in every attribute an update of a live listener applies that is also persisted
	if variant == "v2" {
		m["use_original_dst"] = "redirect"
		m["connection_idle_timeout"] = "20s"
	} else {
		m["connection_idle_timeout"] = "10s"
	}
	b, _ := json.Marshal(m)
	return b
}

// ---- observation ----
type lbCtx struct{ ctx context.Context }

func (c *lbCtx) MetadataMatchCriteria() api.MetadataMatchCriteria { return nil }
func (c *lbCtx) DownstreamConnection() net.Conn                   { return nil }
func (c *lbCtx) DownstreamHeaders() api.HeaderMap                 { return nil }
func (c *lbCtx) DownstreamContext() context.Context               { return c.ctx }
func (c *lbCtx) DownstreamCluster() types.ClusterInfo             { return nil }
func (c *lbCtx) DownstreamRoute() api.Route                       { return nil }

func matchOne(rs types.Routers, host, path string) string {
	ctx := variable.NewVariableContext(context.Background())
	variable.SetString(ctx, types.VarHost, host)
	variable.SetString(ctx, types.VarPath, path)
	r := rs.MatchRoute(ctx, protocol.CommonHeader(map[string]string{}))
	if r == nil || r.RouteRule() == nil {
		return "none"
	}
	return r.RouteRule().ClusterName(ctx)
}

func viewRouters(rs types.Routers) []string {
	if rs == nil {
		return []string{"nil"}
	}
	out := make([]string, 0, len(probes))
	for _, p := range probes {
		out = append(out, matchOne(rs, p[0], p[1]))
	}
	return out
}

type clusterView struct {
	St    string    `json:"st"`
	Lb    string    `json:"lb"`
	Hosts []hostObs `json:"hosts"`
	Sup   []string  `json:"sup"`
}

// hostAttr names the attribute class a host object (live, or built from the dump) carries.
func hostAttr(h types.Host) string {
	w, v := h.Weight(), h.Metadata()["version"]
	for a := range attrWeight {
		if attrWeight[a] == w && attrVersion[a] == v {
			return a
		}
	}
	return fmt.Sprintf("?weight=%d,version=%s", w, v)
}

func hostID(h types.Host) string {
	if id, ok := addrHost[h.AddressString()]; ok {
		return id
	}
	return "?" + h.AddressString()
}

func viewSnapshot(snap types.ClusterSnapshot) clusterView {
	if snap == nil {
		return clusterView{St: "absent", Hosts: []hostObs{}, Sup: []string{}}
	}
	v := clusterView{St: "ok", Hosts: []hostObs{}, Sup: []string{}}
	lt := snap.ClusterInfo().LbType()
	if n, ok := lbName[lt]; ok {
		v.Lb = n
	} else {
		v.Lb = "?" + string(lt)
	}
	snap.HostSet().Range(func(h types.Host) bool { v.Hosts = append(v.Hosts, hostObs{hostID(h), hostAttr(h)}); return true })
	sort.Slice(v.Hosts, func(i, j int) bool { return v.Hosts[i].H < v.Hosts[j].H })
	seen := map[string]bool{}
	for i := 0; i < 2*len(v.Hosts)+2; i++ {
		h := snap.LoadBalancer().ChooseHost(&lbCtx{ctx: context.Background()})
		if h != nil {
			seen[hostID(h)] = true
		}
	}
	for k := range seen {
		v.Sup = append(v.Sup, k)
	}
	sort.Strings(v.Sup)
	return v
}

// listenerVariant names the configuration variant a listener (live or configured) corresponds to.
func listenerVariant(dst v2.OriginalDstType, idle time.Duration) string {
	if dst == v2.REDIRECT && idle == 20*time.Second {
		return "v2"
	}
	if dst == "" && idle == 10*time.Second {
		return "v1"
	}
	return fmt.Sprintf("?dst=%s,idle=%s", dst, idle)
}

func liveListener(n string) string {
	l := server.GetListenerAdapterInstance().FindListenerByName("", n)
	if l == nil {
		return "absent"
	}
	idle, _, _ := server.VerifListenerIdleTimeout(n)
	return listenerVariant(l.GetOriginalDstType(), idle)
}

func cfgListener(lc *v2.Listener) string {
	var idle time.Duration
	if lc.ConnectionIdleTimeout != nil {
		idle = lc.ConnectionIdleTimeout.Duration
	}
	return listenerVariant(lc.OriginalDst, idle)
}

// ---- one replay ----
type replay struct {
	n       int // history index: suffix of the router names (the router manager has no removal)
	rm      types.RouterManager
	cvt     conv.Converter
	viaAPI  bool
	dumpErr error
	c       histCase // storage modes and name universe of the current history
	base    string   // directory of the current history's dumped files
}

func (p *replay) clusterDir() string {
	if p.c.Cm == "dir" {
		return filepath.Join(p.base, "clusters")
	}
	return ""
}

func (p *replay) routerDir(r string) string {
	if p.c.Rm == "dir" {
		return filepath.Join(p.base, "routers", r)
	}
	return ""
}

func (p *replay) rname(r string) string { return fmt.Sprintf("%s#%d", r, p.n) }

type cmFilter struct{}

func (cmFilter) OnCreated(types.ClusterConfigFactoryCb, types.ClusterHostFactoryCb) {}

// freshManagers: empty managers and an empty effective configuration; clusterDir != "" selects the dynamic
// cluster mode (cluster_manager.clusters_configs) the way pkg/mosn does at start-up: through SetMosnConfig.
func freshManagers(clusterDir string) {
	cluster.GetClusterMngAdapterInstance().Destroy()
	configmanager.Reset()
	cluster.NewClusterManagerSingleton(nil, nil, nil)
	server.ResetAdapter()
	server.NewServer(server.NewConfig(&v2.ServerConfig{}), cmFilter{}, cluster.GetClusterMngAdapterInstance().ClusterManager)
	configmanager.Reset()
	configmanager.SetMosnConfig(&v2.MOSNConfig{ClusterManager: v2.ClusterManagerConfig{
		ClusterManagerConfigJson: v2.ClusterManagerConfigJson{ClusterConfigPath: clusterDir}}})
}

func post(h func(http.ResponseWriter, *http.Request), typ string, cfg []byte) bool {
	body, _ := json.Marshal(map[string]interface{}{"type": typ, "config": json.RawMessage(cfg)})
	w := httptest.NewRecorder()
	h(w, httptest.NewRequest("POST", "/", bytes.NewReader(body)))
	return w.Code != http.StatusOK
}

// apply executes one operation against the real code; the result says whether it reported an error.
func (p *replay) apply(o op) bool {
	ad := cluster.GetClusterMngAdapterInstance()
	switch o.Op {
	case "routers":
		b := routerCfgJSON(p.rname(o.R), o.Vhs)
		if p.viaAPI {
			return apiUpdateConfig("router", b)
		}
		cfg := &v2.RouterConfiguration{}
		vh.Must(json.Unmarshal(b, cfg), "router config")
		if dir := p.routerDir(o.R); dir != "" && o.withPath() {
			// dynamic router mode (router_configs: <dir>, one file per virtual host): such a configuration is
			// loaded from the directory, it never carries inline virtual_hosts as well
			cfg.RouterConfigPath = dir
			cfg.StaticVirtualHosts = nil
		}
		return p.rm.AddOrUpdateRouters(cfg) != nil
	case "nilrouters":
		return p.rm.AddOrUpdateRouters(nil) != nil
	case "addroute":
		rb, _ := json.Marshal(routeJSON(*o.Rt))
		if p.viaAPI {
			b, _ := json.Marshal(map[string]interface{}{"router_config_name": p.rname(o.R), "domain": o.Dom, "route": json.RawMessage(rb)})
			return apiUpdateRoute("add", b)
		}
		rt := &v2.Router{}
		vh.Must(json.Unmarshal(rb, rt), "route config")
		return p.rm.AddRoute(p.rname(o.R), o.Dom, rt) != nil
	case "rmroutes":
		if p.viaAPI {
			b, _ := json.Marshal(map[string]interface{}{"router_config_name": p.rname(o.R), "domain": o.Dom})
			return apiUpdateRoute("remove", b)
		}
		return p.rm.RemoveAllRoutes(p.rname(o.R), o.Dom) != nil
	case "primary":
		c := v2.Cluster{}
		vh.Must(json.Unmarshal(clusterCfgJSON(o.C, o.Lb, nil), &c), "cluster config")
		return ad.TriggerClusterAddOrUpdate(c) != nil
	case "clusterhosts":
		b := clusterCfgJSON(o.C, o.Lb, &o.Hs)
		if p.viaAPI {
			return apiUpdateConfig("cluster", b)
		}
		c := v2.Cluster{}
		vh.Must(json.Unmarshal(b, &c), "cluster config")
		return ad.TriggerClusterAndHostsAddOrUpdate(c, c.Hosts) != nil
	case "updhosts":
		return ad.TriggerClusterHostUpdate(o.C, hostCfgs(o.Hs)) != nil
	case "append":
		return ad.TriggerHostAppend(o.C, hostCfgs(o.Hs)) != nil
	case "rmhosts":
		addrs := []string{}
		for _, h := range o.Hs.ids {
			addrs = append(addrs, hostAddr[h])
		}
		return ad.TriggerHostDel(o.C, addrs) != nil
	case "rmcluster":
		return ad.TriggerClusterDel(o.Cs...) != nil
	case "endpoints":
		return p.cvt.ConvertUpdateEndpoints([]*envoy_config_endpoint_v3.ClusterLoadAssignment{loadAssignment(o.C, o.Locs)}) != nil
	case "listener":
		b := listenerCfgJSON(o.N, o.V)
		if p.viaAPI {
			return apiUpdateConfig("listener", b)
		}
		ln := &v2.Listener{}
		vh.Must(json.Unmarshal(b, ln), "listener config")
		return server.GetListenerAdapterInstance().AddOrUpdateListener("", ln) != nil
	case "rmlistener":
		return server.GetListenerAdapterInstance().DeleteListener("", o.N) != nil
	}
	vh.Must(fmt.Errorf("unknown op %q", o.Op), "case")
	return false
}

// applySafe: a panic inside an update operation is an observable failure of that operation, not of the harness.
func (p *replay) applySafe(o op) (failed bool, panicked string) {
	defer func() {
		if r := recover(); r != nil {
			failed, panicked = true, fmt.Sprint(r)
		}
	}()
	return p.apply(o), ""
}

func loadAssignment(c string, locs []hostArg) *envoy_config_endpoint_v3.ClusterLoadAssignment {
	la := &envoy_config_endpoint_v3.ClusterLoadAssignment{ClusterName: c}
	for i, loc := range locs {
		le := &envoy_config_endpoint_v3.LocalityLbEndpoints{
			Locality: &envoy_config_core_v3.Locality{Region: fmt.Sprintf("region-%d", i), Zone: fmt.Sprintf("zone-%d", i)},
		}
		for _, h := range loc.ids {
			hp := strings.Split(hostAddr[h], ":")
			a := loc.attr[h]
			le.LbEndpoints = append(le.LbEndpoints, &envoy_config_endpoint_v3.LbEndpoint{
				LoadBalancingWeight: wrapperspb.UInt32(attrWeight[a]),
				Metadata: &envoy_config_core_v3.Metadata{FilterMetadata: map[string]*structpb.Struct{
					"envoy.lb": {Fields: map[string]*structpb.Value{"version": structpb.NewStringValue(attrVersion[a])}}}},
				HostIdentifier: &envoy_config_endpoint_v3.LbEndpoint_Endpoint{Endpoint: &envoy_config_endpoint_v3.Endpoint{
					Address: &envoy_config_core_v3.Address{Address: &envoy_config_core_v3.Address_SocketAddress{
						SocketAddress: &envoy_config_core_v3.SocketAddress{Address: hp[0],
							PortSpecifier: &envoy_config_core_v3.SocketAddress_PortValue{PortValue: 80}}}}}}})
		}
		la.Endpoints = append(la.Endpoints, le)
	}
	return la
}

// dumped parses what transferConfig() would write to the configuration file.
func dumped() *v2.MOSNConfig {
	b, err := configmanager.InheritMosnconfig()
	vh.Must(err, "dump")
	cfg := &v2.MOSNConfig{}
	if err := json.Unmarshal(b, cfg); err != nil {
		// a dump the loader refuses describes nothing: every object rebuilt from it is absent (judged by the trace spec)
		fmt.Fprintf(os.Stderr, "dump is not loadable: %v\n", err)
		return &v2.MOSNConfig{}
	}
	return cfg
}

func (p *replay) observe() vh.Ev {
	ev := vh.Ev{"ev": "obs"}
	cfg := dumped()
	// routers
	lr, fr := map[string][]string{}, map[string][]string{}
	for _, r := range p.c.Rt {
		if w := p.rm.GetRouterWrapperByName(p.rname(r)); w == nil {
			lr[r] = []string{"absent"}
		} else {
			lr[r] = viewRouters(w.GetRouters())
		}
		fr[r] = []string{"absent"}
		if len(cfg.Servers) > 0 {
			for _, rc := range cfg.Servers[0].Routers {
				if rc != nil && rc.RouterConfigName == p.rname(r) {
					rs, _ := router.NewRouters(rc)
					fr[r] = viewRouters(rs)
				}
			}
		}
	}
	ev["lr"], ev["fr"] = lr, fr
	// clusters
	lc, fc := map[string]clusterView{}, map[string]clusterView{}
	ad := cluster.GetClusterMngAdapterInstance()
	pcs, hostMap := configmanager.ParseClusterConfig(cfg.ClusterManager.Clusters)
	for _, c := range p.c.Cl {
		lc[c] = viewSnapshot(ad.GetClusterSnapshot(context.Background(), c))
		fc[c] = viewSnapshot(nil)
		for _, cc := range pcs {
			if cc.Name == c {
				// what NewClusterManagerSingleton does with a configured cluster: create, then set its hosts
				ncl := cluster.NewCluster(cc)
				cluster.NewSimpleHostHandler(ncl, hostMap[c])
				fc[c] = viewSnapshot(ncl.Snapshot())
			}
		}
	}
	ev["lc"], ev["fc"] = lc, fc
	// listeners
	ll, fl := map[string]string{}, map[string]string{}
	for _, n := range p.c.Ls {
		ll[n], fl[n] = liveListener(n), "absent"
		if len(cfg.Servers) > 0 {
			for i := range cfg.Servers[0].Listeners {
				if cfg.Servers[0].Listeners[i].Name == n {
					fl[n] = cfgListener(&cfg.Servers[0].Listeners[i])
				}
			}
		}
	}
	ev["ll"], ev["fl"] = ll, fl
	return ev
}

// restart tears the managers down and rebuilds them from the dump the way pkg/mosn does at start-up.
func (p *replay) restart() vh.Ev {
	cfg := dumped()
	cluster.GetClusterMngAdapterInstance().Destroy()
	server.ResetAdapter()
	configmanager.Reset()
	pcs, hostMap := configmanager.ParseClusterConfig(cfg.ClusterManager.Clusters)
	cm := cluster.NewClusterManagerSingleton(pcs, hostMap, &cfg.ClusterManager)
	fr, fc, fl := map[string][]string{}, map[string]clusterView{}, map[string]string{}
	for _, c := range p.c.Cl {
		fc[c] = viewSnapshot(cm.GetClusterSnapshot(context.Background(), c))
	}
	var sc v2.ServerConfig
	if len(cfg.Servers) > 0 {
		sc = cfg.Servers[0]
	}
	srv := server.NewServer(server.NewConfig(&sc), cmFilter{}, cm)
	for i := range sc.Listeners {
		lc := configmanager.ParseListenerConfig(&sc.Listeners[i], nil, nil)
		_, err := srv.AddListener(lc)
		vh.Must(err, "restart: AddListener")
	}
	for _, n := range p.c.Ls {
		fl[n] = liveListener(n)
	}
	// the router manager cannot forget a name: the restarted instance registers the dumped routers under a new one
	for _, r := range p.c.Rt {
		fr[r] = []string{"absent"}
		for _, rc := range sc.Routers {
			if rc != nil && rc.RouterConfigName == p.rname(r) {
				rc.RouterConfigName = p.rname(r) + "~restarted"
				p.rm.AddOrUpdateRouters(rc)
				if w := p.rm.GetRouterWrapperByName(rc.RouterConfigName); w != nil {
					fr[r] = viewRouters(w.GetRouters())
				}
			}
		}
	}
	return vh.Ev{"ev": "restart", "fr": fr, "fc": fc, "fl": fl}
}

func opEvent(o op, failed bool) vh.Ev {
	ev := vh.Ev{"ev": "op", "kind": o.Op, "err": failed}
	switch o.Op {
	case "routers":
		vhs := o.Vhs
		if vhs == nil {
			vhs = []vhost{}
		}
		for i := range vhs {
			if vhs[i].Routes == nil {
				vhs[i].Routes = []route{}
			}
		}
		ev["r"], ev["vhs"], ev["path"] = o.R, vhs, o.withPath()
	case "addroute":
		ev["r"], ev["dom"], ev["rt"] = o.R, o.Dom, o.Rt
	case "rmroutes":
		ev["r"], ev["dom"] = o.R, o.Dom
	case "primary":
		ev["c"], ev["lb"] = o.C, o.Lb
	case "clusterhosts":
		ev["c"], ev["lb"], ev["hs"] = o.C, o.Lb, o.Hs.pairs()
	case "updhosts", "append":
		ev["c"], ev["hs"] = o.C, o.Hs.pairs()
	case "rmhosts":
		ev["c"], ev["hs"] = o.C, nonNil(o.Hs.ids)
	case "rmcluster":
		ev["cs"] = nonNil(o.Cs)
	case "endpoints":
		locs := [][]hostObs{}
		for _, l := range o.Locs {
			locs = append(locs, l.pairs())
		}
		ev["c"], ev["locs"] = o.C, locs
	case "listener":
		ev["n"], ev["v"] = o.N, o.V
	case "rmlistener":
		ev["n"] = o.N
	}
	return ev
}

func nonNil(s []string) []string {
	if s == nil {
		return []string{}
	}
	return s
}

func runHist(casesPath, tracePath string, viaAPI bool) {
	tr := vh.NewTrace(tracePath)
	defer tr.Close()
	p := &replay{rm: router.NewRouterManager(), cvt: conv.NewConverter(), viaAPI: viaAPI}
	work, err := os.MkdirTemp(".", "c12-dump-")
	vh.Must(err, "work dir")
	work, _ = filepath.Abs(work)
	defer os.RemoveAll(work)
	err = vh.ReadCases(casesPath, func(raw json.RawMessage) error {
		var c histCase
		if err := json.Unmarshal(raw, &c); err != nil {
			return err
		}
		p.n++
		if c.Cm == "" {
			c.Cm = "inline"
		}
		if c.Rm == "" {
			c.Rm = "inline"
		}
		p.c = c
		p.base = filepath.Join(work, fmt.Sprintf("h%d", p.n))
		freshManagers(p.clusterDir())
		tr.Emit(vh.Ev{"ev": "new", "n": p.n, "cm": c.Cm, "rm": c.Rm})
		for _, o := range c.Ops {
			failed, panicked := p.applySafe(o)
			ev := opEvent(o, failed)
			if panicked != "" {
				ev["panic"] = panicked
			}
			tr.Emit(ev)
			tr.Emit(p.observe())
		}
		tr.Emit(p.restart())
		os.RemoveAll(p.base)
		return nil
	})
	vh.Must(err, "hist cases")
	fmt.Printf("hist replays=%d events=%d\n", p.n, tr.Len())
}

func main() {
	mode := flag.String("mode", "hist", "hist|swap")
	cases := flag.String("cases", "", "cases file")
	out := flag.String("trace", "", "trace output")
	via := flag.String("via", "direct", "direct|api: managers called directly, or through the admin debug API handlers where one exists")
	rounds := flag.Int("rounds", 200, "swap: update rounds per scenario")
	lookers := flag.Int("lookers", 4, "swap: concurrent lookup goroutines")
	flag.Parse()
	if !vh.HooksCompiled() {
		vh.Must(fmt.Errorf("built without -tags verif"), "hooks")
	}
	for k, v := range hostAddr {
		addrHost[v] = k
	}
	log.DefaultLogger.SetLogLevel(log.FATAL)
	log.StartLogger.SetLogLevel(log.FATAL)
	switch *mode {
	case "hist":
		runHist(*cases, *out, *via == "api")
	case "swap":
		runSwap(*out, *rounds, *lookers)
	default:
		fmt.Fprintln(os.Stderr, "unknown mode")
		os.Exit(3)
	}
}
