package main

import (
	"context"
	"encoding/json"
	"fmt"
	"math/rand"
	"runtime"
	"sort"
	"sync"
	"sync/atomic"

	envoy_config_endpoint_v3 "github.com/envoyproxy/go-control-plane/envoy/config/endpoint/v3"
	"mosn.io/mosn/istio/istio1106/xds/conv"
	v2 "mosn.io/mosn/pkg/config/v2"
	"mosn.io/mosn/pkg/router"
	"mosn.io/mosn/pkg/types"
	"mosn.io/mosn/pkg/upstream/cluster"
	"verif/vh"
)

// One update of a swap scenario: do applies it to the real code; exactly one of vhs / hs describes the
// configuration the new version must serve (the trace specification derives the expected answers from it).
type swapStep struct {
	do  func()
	vhs []vhost
	hs  []string
}

type swapScenario struct {
	name   string
	kind   string // "route" | "hosts"
	setup  func()
	init   swapStep // version 0 (do unused)
	steps  []swapStep
	lookup func(rng *rand.Rand) vh.Ev
}

func vhsCopy(v []vhost) []vhost {
	b, _ := json.Marshal(v)
	var out []vhost
	json.Unmarshal(b, &out)
	for i := range out {
		if out[i].Routes == nil {
			out[i].Routes = []route{}
		}
	}
	return out
}

var cfgA = []vhost{{Dom: "*", Routes: []route{{"/", "c1"}}}}
var cfgB = []vhost{{Dom: "a.com", Routes: []route{{"/x", "c2"}, {"/", "c1"}}}, {Dom: "*", Routes: []route{{"/", "c2"}}}}
var cfgF = []vhost{{Dom: "zz.com", Routes: []route{{"/x", "c1"}, {"/", "c2"}}}, {Dom: "*", Routes: []route{{"/x", "c2"}, {"/", "c1"}}}}

func routeScenarios(rm interface {
	AddOrUpdateRouters(*v2.RouterConfiguration) error
	AddRoute(string, string, *v2.Router) error
	RemoveAllRoutes(string, string) error
}) []swapScenario {
	mkLookup := func(name string) func(rng *rand.Rand) vh.Ev {
		return func(rng *rand.Rand) vh.Ev {
			i := rng.Intn(len(probes))
			ans := "absent"
			if w := router.GetRoutersMangerInstance().GetRouterWrapperByName(name); w != nil {
				if rs := w.GetRouters(); rs != nil {
					ans = matchOne(rs, probes[i][0], probes[i][1])
				} else {
					ans = "nil"
				}
			}
			return vh.Ev{"i": i + 1, "r": ans}
		}
	}
	set := func(name string, v []vhost) func() {
		return func() {
			cfg := &v2.RouterConfiguration{}
			vh.Must(json.Unmarshal(routerCfgJSON(name, v), cfg), "router config")
			vh.Must(rm.AddOrUpdateRouters(cfg), "swap: AddOrUpdateRouters")
		}
	}
	addRoute := func(name, dom string, r route) func() {
		return func() {
			rb, _ := json.Marshal(routeJSON(r))
			rt := &v2.Router{}
			vh.Must(json.Unmarshal(rb, rt), "route")
			vh.Must(rm.AddRoute(name, dom, rt), "swap: AddRoute")
		}
	}
	// whole-table replacement
	s1 := swapScenario{name: "router-replace", kind: "route", setup: set("sw-replace", cfgA), init: swapStep{vhs: cfgA}, lookup: mkLookup("sw-replace")}
	for _, c := range [][]vhost{cfgB, cfgF, cfgA} {
		s1.steps = append(s1.steps, swapStep{do: set("sw-replace", c), vhs: c})
	}
	// single-route updates of the live table, interleaved with a replacement
	b1 := vhsCopy(cfgB)
	b1[0].Routes = []route{}
	b2 := vhsCopy(b1)
	b2[0].Routes = append(b2[0].Routes, route{"/x", "c1"})
	b3 := vhsCopy(b2)
	b3[0].Routes = append(b3[0].Routes, route{"/", "c2"})
	s2 := swapScenario{name: "route-inplace", kind: "route", setup: set("sw-inplace", cfgB), init: swapStep{vhs: cfgB}, lookup: mkLookup("sw-inplace")}
	s2.steps = []swapStep{
		{do: func() { vh.Must(rm.RemoveAllRoutes("sw-inplace", "a.com"), "swap: RemoveAllRoutes") }, vhs: b1},
		{do: addRoute("sw-inplace", "a.com", route{"/x", "c1"}), vhs: b2},
		{do: addRoute("sw-inplace", "a.com", route{"/", "c2"}), vhs: b3},
		{do: set("sw-inplace", cfgB), vhs: cfgB},
	}
	return []swapScenario{s1, s2}
}

func hostLookup(name string) func(rng *rand.Rand) vh.Ev {
	return func(rng *rand.Rand) vh.Ev {
		snap := cluster.GetClusterMngAdapterInstance().GetClusterSnapshot(context.Background(), name)
		if snap == nil {
			return vh.Ev{"hs": []string{"?no-snapshot"}, "pick": "none"}
		}
		h := snap.LoadBalancer().ChooseHost(&lbCtx{ctx: context.Background()})
		hs := []string{}
		snap.HostSet().Range(func(x types.Host) bool { hs = append(hs, hostID(x)); return true })
		sort.Strings(hs)
		pick := "none"
		if h != nil {
			pick = hostID(h)
		}
		return vh.Ev{"hs": hs, "pick": pick}
	}
}

func clusterScenarios(cvt conv.Converter) []swapScenario {
	ad := cluster.GetClusterMngAdapterInstance()
	mk := func(name, lb string, hs []string) func() {
		return func() {
			c := v2.Cluster{}
			hm := uni(hs, "a1")
			vh.Must(json.Unmarshal(clusterCfgJSON(name, lb, &hm), &c), "cluster config")
			vh.Must(ad.TriggerClusterAndHostsAddOrUpdate(c, c.Hosts), "swap: cluster and hosts")
		}
	}
	sorted := func(hs ...string) []string { s := append([]string{}, hs...); sort.Strings(s); return s }
	out := []swapScenario{}
	// UpdateClusterHosts
	s := swapScenario{name: "hosts-update", kind: "hosts", setup: mk("sw-upd", "rr", []string{"h1", "h2"}), init: swapStep{hs: sorted("h1", "h2")}, lookup: hostLookup("sw-upd")}
	for _, set := range [][]string{{"h3"}, {"h1", "h3"}, {"h2"}, {"h1", "h2"}} {
		set := set
		s.steps = append(s.steps, swapStep{do: func() { vh.Must(ad.TriggerClusterHostUpdate("sw-upd", hostCfgs(uni(set, "a1"))), "swap: host update") }, hs: sorted(set...)})
	}
	out = append(out, s)
	// AddOrUpdatePrimaryCluster: the cluster object is replaced, its hosts must stay
	s = swapScenario{name: "cluster-replace-keeps-hosts", kind: "hosts", setup: mk("sw-prim", "rr", []string{"h1", "h2"}), init: swapStep{hs: sorted("h1", "h2")}, lookup: hostLookup("sw-prim")}
	for _, lb := range []string{"rand", "rr"} {
		lb := lb
		s.steps = append(s.steps, swapStep{do: func() {
			c := v2.Cluster{}
			vh.Must(json.Unmarshal(clusterCfgJSON("sw-prim", lb, nil), &c), "cluster config")
			vh.Must(ad.TriggerClusterAddOrUpdate(c), "swap: primary")
		}, hs: sorted("h1", "h2")})
	}
	out = append(out, s)
	// AddOrUpdateClusterAndHost
	s = swapScenario{name: "cluster-and-hosts", kind: "hosts", setup: mk("sw-cah", "rr", []string{"h1"}), init: swapStep{hs: sorted("h1")}, lookup: hostLookup("sw-cah")}
	for i, set := range [][]string{{"h2", "h3"}, {"h1", "h2", "h3"}, {"h1"}} {
		lb := []string{"rr", "rand"}[i%2]
		s.steps = append(s.steps, swapStep{do: mk("sw-cah", lb, set), hs: sorted(set...)})
	}
	out = append(out, s)
	// append / remove
	s = swapScenario{name: "append-remove", kind: "hosts", setup: mk("sw-app", "rr", []string{"h1", "h2"}), init: swapStep{hs: sorted("h1", "h2")}, lookup: hostLookup("sw-app")}
	s.steps = []swapStep{
		{do: func() { vh.Must(ad.TriggerHostAppend("sw-app", hostCfgs(uni([]string{"h3"}, "a1"))), "swap: append") }, hs: sorted("h1", "h2", "h3")},
		{do: func() { vh.Must(ad.TriggerHostDel("sw-app", []string{hostAddr["h3"]}), "swap: del") }, hs: sorted("h1", "h2")},
	}
	out = append(out, s)
	// xDS endpoint assignment with several localities
	s = swapScenario{name: "xds-endpoints", kind: "hosts", setup: mk("sw-eds", "rr", []string{"h1"}), init: swapStep{hs: sorted("h1")}, lookup: hostLookup("sw-eds")}
	for _, locs := range [][][]string{{{"h1", "h2"}, {"h3"}}, {{"h2"}, {"h3"}}, {{"h1"}}} {
		locs := locs
		all := []string{}
		las := []hostArg{}
		for _, l := range locs {
			all = append(all, l...)
			las = append(las, uni(l, "a1"))
		}
		s.steps = append(s.steps, swapStep{do: func() {
			vh.Must(cvt.ConvertUpdateEndpoints([]*envoy_config_endpoint_v3.ClusterLoadAssignment{loadAssignment("sw-eds", las)}), "swap: endpoints")
		}, hs: sorted(all...)})
	}
	out = append(out, s)
	return out
}

func stepEvent(kind string, st swapStep, ev string) vh.Ev {
	e := vh.Ev{"ev": ev, "kind": kind}
	if kind == "route" {
		e["vhs"] = vhsCopy(st.vhs)
	} else {
		e["hs"] = nonNil(st.hs)
	}
	return e
}

// runSwap: lookups concurrent with updates. The trace records call and return of every update and lookup in
// real order (Emit serialises), so the versions that were live during a lookup are known without any hook.
func runSwap(tracePath string, rounds, lookers int) {
	tr := vh.NewTrace(tracePath)
	defer tr.Close()
	freshManagers("")
	scns := append(routeScenarios(router.NewRouterManager()), clusterScenarios(conv.NewConverter())...)
	var lid int64
	perRound := int64(10)
	for _, sc := range scns {
		sc.setup()
		tr.Emit(func() vh.Ev { e := stepEvent(sc.kind, sc.init, "new"); e["scn"] = sc.name; return e }())
		var budget int64
		stop := make(chan struct{})
		var wg sync.WaitGroup
		for g := 0; g < lookers; g++ {
			wg.Add(1)
			go func(g int) {
				defer wg.Done()
				rng := rand.New(rand.NewSource(vh.Seed()*1000 + int64(g)))
				for {
					select {
					case <-stop:
						return
					default:
					}
					if atomic.AddInt64(&budget, -1) < 0 {
						runtime.Gosched()
						continue
					}
					id := atomic.AddInt64(&lid, 1)
					tr.Emit(vh.Ev{"ev": "lstart", "id": id})
					e := sc.lookup(rng)
					e["ev"], e["id"], e["kind"] = "lend", id, sc.kind
					tr.Emit(e)
				}
			}(g)
		}
		for r := 0; r < rounds; r++ {
			st := sc.steps[r%len(sc.steps)]
			atomic.StoreInt64(&budget, perRound)
			tr.Emit(stepEvent(sc.kind, st, "ubegin"))
			st.do()
			tr.Emit(vh.Ev{"ev": "uend"})
			for i := 0; i < 50 && atomic.LoadInt64(&budget) > perRound/2; i++ {
				runtime.Gosched() // let some lookups land between updates too
			}
		}
		close(stop)
		wg.Wait()
	}
	fmt.Printf("swap scenarios=%d events=%d lookups=%d\n", len(scns), tr.Len(), lid)
}
