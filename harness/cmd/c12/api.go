package main

import (
	"mosn.io/mosn/pkg/admin/debug"
)

// The admin debug API handlers (build tag mosn_debug): /debug/update_config and /debug/update_route.
func apiUpdateConfig(typ string, cfg []byte) bool { return post(debug.DebugUpdateMosnConfig, typ, cfg) }
func apiUpdateRoute(typ string, cfg []byte) bool  { return post(debug.DebugUdpateRoute, typ, cfg) }
