// Driver for C05: replays TLC-enumerated operation histories into real clusters for every
// load-balancing policy and records what ChooseHost answered; records concurrent lookups
// against host-set replacement with the publish hooks. TLC validates the traces.
package main

import (
	"context"
	"encoding/json"
	"flag"
	"fmt"
	"math/rand"
	"net"
	"runtime"
	"sort"
	"sync"
	"sync/atomic"

	"mosn.io/api"
	v2 "mosn.io/mosn/pkg/config/v2"
	"mosn.io/mosn/pkg/types"
	"mosn.io/mosn/pkg/upstream/cluster"
	"mosn.io/pkg/variable"
	"verif/vh"
)

var policies = []types.LoadBalancerType{types.Random, types.RoundRobin, types.WeightedRoundRobin,
	types.LeastActiveRequest, types.LeastActiveConnection, types.PeakEwma, types.Maglev, types.RequestRoundRobin}

// weights make some member sets equal-weighted (no EDF scheduler) and others not
var weights = map[string]uint32{"h1": 1, "h2": 1, "h3": 2, "h4": 100}
var addrs = map[string]string{"h1": "10.5.0.1:80", "h2": "10.5.0.2:80", "h3": "10.5.0.3:80", "h4": "10.5.0.4:80"}

type hashPolicy struct{ h uint64 }

func (p *hashPolicy) GenerateHash(ctx context.Context) uint64 { return p.h }

type fakePolicy struct {
	api.Policy
	hp *hashPolicy
}

func (p *fakePolicy) HashPolicy() api.HashPolicy { return p.hp }

type fakeRule struct {
	api.RouteRule
	p *fakePolicy
}

func (r *fakeRule) Policy() api.Policy { return r.p }

type fakeRoute struct {
	api.Route
	r *fakeRule
}

func (r *fakeRoute) RouteRule() api.RouteRule { return r.r }

type lbCtx struct {
	ctx   context.Context
	route *fakeRoute
	mmc   api.MetadataMatchCriteria
}

func (c *lbCtx) MetadataMatchCriteria() api.MetadataMatchCriteria { return c.mmc }
func (c *lbCtx) DownstreamConnection() net.Conn                   { return nil }
func (c *lbCtx) DownstreamHeaders() api.HeaderMap                 { return nil }
func (c *lbCtx) DownstreamContext() context.Context               { return c.ctx }
func (c *lbCtx) DownstreamCluster() types.ClusterInfo             { return nil }
func (c *lbCtx) DownstreamRoute() api.Route                       { return c.route }

func newCtx(hash uint64) *lbCtx {
	hp := &hashPolicy{h: hash}
	return &lbCtx{ctx: variable.NewVariableContext(context.Background()),
		route: &fakeRoute{r: &fakeRule{p: &fakePolicy{hp: hp}}}}
}

type op struct {
	Op string   `json:"op"`
	M  []string `json:"m"`
	Hl []string `json:"hl"`
	H  string   `json:"h"`
}
type histCase struct {
	Ops []op `json:"ops"`
}

func setHealth(h types.Host, healthy bool) {
	if healthy {
		h.ClearHealthFlag(api.FAILED_ACTIVE_HC)
	} else {
		h.SetHealthFlag(api.FAILED_ACTIVE_HC)
	}
}

func name(h types.Host) string {
	if h == nil {
		return "none"
	}
	return h.Hostname()
}

func runHist(casesPath, tracePath string, reps int) {
	tr := vh.NewTrace(tracePath)
	defer tr.Close()
	rng := rand.New(rand.NewSource(vh.Seed()))
	n := 0
	err := vh.ReadCases(casesPath, func(raw json.RawMessage) error {
		var c histCase
		if err := json.Unmarshal(raw, &c); err != nil {
			return err
		}
		for _, pl := range polLoads {
			pol, load := pl.pol, pl.load
			cl := cluster.NewCluster(v2.Cluster{Name: fmt.Sprintf("c05-%s", pol), LbType: v2.LbType(pol)})
			info := cl.Snapshot().ClusterInfo()
			// health flags live per address process-wide: reset
			probe := map[string]types.Host{}
			for k := range addrs {
				probe[k] = cluster.NewSimpleHost(v2.Host{HostConfig: v2.HostConfig{Address: addrs[k], Hostname: k, Weight: weights[k]}}, info)
				setHealth(probe[k], true)
			}
			label := string(pol)
			if load != "" {
				label += "/" + load
			}
			tr.Emit(vh.Ev{"ev": "new", "policy": label})
			// contexts that live across operations (a request retried after the host set or health changed):
			// persistent[i] is used i+1 times per choose operation
			persistent := []*lbCtx{newCtx(rng.Uint64()), newCtx(rng.Uint64()), newCtx(rng.Uint64())}
			for _, o := range c.Ops {
				switch o.Op {
				case "sethosts":
					hl := map[string]bool{}
					for _, x := range o.Hl {
						hl[x] = true
					}
					hosts := []types.Host{}
					ms := append([]string{}, o.M...)
					sort.Strings(ms)
					for _, k := range ms {
						h := cluster.NewSimpleHost(v2.Host{HostConfig: v2.HostConfig{Address: addrs[k], Hostname: k, Weight: weights[k]}}, info)
						setHealth(h, hl[k])
						hosts = append(hosts, h)
					}
					cl.UpdateHosts(cluster.NewHostSet(hosts))
					tr.Emit(vh.Ev{"ev": "sethosts", "m": ms, "hl": append([]string{}, o.Hl...)})
				case "flip":
					h := probe[o.H]
					setHealth(h, !h.Health())
					tr.Emit(vh.Ev{"ev": "flip", "h": o.H, "now": h.Health()})
				case "choose":
					setLoad(cl.Snapshot().HostSet(), load)
					seen := map[string]bool{}
					for i := 0; i < reps; i++ {
						snap := cl.Snapshot()
						// a fresh context per request; every 4th call re-enters with the same context (retry path)
						ctx := newCtx(rng.Uint64())
						h := snap.LoadBalancer().ChooseHost(ctx)
						seen[name(h)] = true
						if i%4 == 3 {
							seen[name(snap.LoadBalancer().ChooseHost(ctx))] = true
						}
					}
					for i, pc := range persistent {
						for j := 0; j <= i; j++ {
							seen[name(cl.Snapshot().LoadBalancer().ChooseHost(pc))] = true
						}
					}
					rs := []string{}
					for k := range seen {
						rs = append(rs, k)
					}
					sort.Strings(rs)
					tr.Emit(vh.Ev{"ev": "choose", "rs": rs, "n": reps})
				}
			}
			n++
		}
		return nil
	})
	vh.Must(err, "hist cases")
	fmt.Printf("hist replays=%d events=%d\n", n, tr.Len())
}

// The load-sensitive policies are replayed a second time with the hosts' activity counters skewed against the property:
// every unhealthy member idle, every healthy member busy (a host whose connections were closed when it failed its check).
type polLoad struct {
	pol  types.LoadBalancerType
	load string
}

var polLoads = func() []polLoad {
	out := []polLoad{}
	for _, p := range policies {
		out = append(out, polLoad{p, ""})
		switch p {
		case types.LeastActiveRequest, types.LeastActiveConnection, types.PeakEwma:
			out = append(out, polLoad{p, "busy-healthy"})
		}
	}
	return out
}()

func setLoad(hs types.HostSet, load string) {
	i := int64(0)
	hs.Range(func(h types.Host) bool {
		st := h.HostStats()
		st.UpstreamConnectionActive.Clear()
		st.UpstreamRequestActive.Clear()
		if load == "busy-healthy" && h.Health() {
			i++
			st.UpstreamConnectionActive.Inc(2 + i)
			st.UpstreamRequestActive.Inc(2 + i)
		}
		return true
	})
}

func hsNames(hs types.HostSet) []string {
	out := []string{}
	hs.Range(func(h types.Host) bool { out = append(out, h.Hostname()); return true })
	sort.Strings(out)
	return out
}

// runSwap: lookups concurrent with UpdateHosts. All hosts healthy; consecutive versions are disjoint or overlapping sets.
func runSwap(tracePath string, rounds, lookers int) {
	tr := vh.NewTrace(tracePath)
	defer tr.Close()
	var cur atomic.Value // types.Cluster under observation
	vh.Sink(func(ev string, kv []interface{}) {
		c, _ := cur.Load().(types.Cluster)
		if c == nil || kv[0] != interface{}(c) {
			return
		}
		switch ev {
		case "cluster.publish.begin":
			tr.Emit(vh.Ev{"ev": "pbegin", "hosts": hsNames(kv[1].(types.HostSet))})
		case "cluster.publish.end":
			tr.Emit(vh.Ev{"ev": "pend"})
		}
	})
	defer vh.Sink(nil)
	sets := [][]string{{"h1", "h2"}, {"h3"}, {"h1", "h3", "h4"}, {"h2"}, {}, {"h4", "h1"}}
	var lid, budget int64
	perRound := 12
	for _, pol := range policies {
		cl := cluster.NewCluster(v2.Cluster{Name: fmt.Sprintf("c05s-%s", pol), LbType: v2.LbType(pol)})
		info := cl.Snapshot().ClusterInfo()
		for k := range addrs {
			setHealth(cluster.NewSimpleHost(v2.Host{HostConfig: v2.HostConfig{Address: addrs[k], Hostname: k}}, info), true)
		}
		tr.Emit(vh.Ev{"ev": "new", "policy": string(pol)})
		cur.Store(cl)
		stop := make(chan struct{})
		var wg sync.WaitGroup
		for g := 0; g < lookers; g++ {
			wg.Add(1)
			go func(g int) {
				defer wg.Done()
				rng := rand.New(rand.NewSource(vh.Seed()*100 + int64(g)))
				for {
					select {
					case <-stop:
						return
					default:
					}
					if atomic.AddInt64(&budget, -1) < 0 {
						runtime.Gosched()
						continue
					}
					id := atomic.AddInt64(&lid, 1)
					tr.Emit(vh.Ev{"ev": "lstart", "id": id})
					snap := cl.Snapshot()
					h := snap.LoadBalancer().ChooseHost(newCtx(rng.Uint64()))
					hs := hsNames(snap.HostSet())
					tr.Emit(vh.Ev{"ev": "lend", "id": id, "r": name(h), "hs": hs})
				}
			}(g)
		}
		for r := 0; r < rounds; r++ {
			atomic.StoreInt64(&budget, int64(perRound))
			ms := sets[r%len(sets)]
			hosts := []types.Host{}
			for _, k := range ms {
				hosts = append(hosts, cluster.NewSimpleHost(v2.Host{HostConfig: v2.HostConfig{Address: addrs[k], Hostname: k, Weight: weights[k]}}, info))
			}
			cl.UpdateHosts(cluster.NewHostSet(hosts))
			for i := 0; i < 50 && atomic.LoadInt64(&budget) > int64(perRound)/2; i++ {
				runtime.Gosched() // let some lookups land between publishes too
			}
		}
		close(stop)
		wg.Wait()
	}
	fmt.Printf("swap events=%d lookups=%d\n", tr.Len(), lid)
}

// runMSwap: the same question one level up: lookups through the cluster manager (GetClusterSnapshot by name, what the
// proxy does per request) concurrent with the manager's update API - host replacement, append, removal, and a
// cluster update that replaces the cluster object and inherits its hosts. Every publication is visible at once
// (the operations used publish into the cluster that is already in the manager's table, or publish the same set).
func runMSwap(tracePath string, rounds, lookers int) {
	tr := vh.NewTrace(tracePath)
	defer tr.Close()
	var curName atomic.Value
	vh.Sink(func(ev string, kv []interface{}) {
		n, _ := curName.Load().(string)
		c, ok := kv[0].(types.Cluster)
		if n == "" || !ok || c.Snapshot() == nil || c.Snapshot().ClusterInfo().Name() != n {
			return
		}
		switch ev {
		case "cluster.publish.begin":
			tr.Emit(vh.Ev{"ev": "pbegin", "hosts": hsNames(kv[1].(types.HostSet))})
		case "cluster.publish.end":
			tr.Emit(vh.Ev{"ev": "pend"})
		}
	})
	defer vh.Sink(nil)
	cluster.GetClusterMngAdapterInstance().Destroy()
	cluster.NewClusterManagerSingleton(nil, nil, nil)
	ad := cluster.GetClusterMngAdapterInstance()
	hostCfg := func(k string) v2.Host {
		return v2.Host{HostConfig: v2.HostConfig{Address: addrs[k], Hostname: k, Weight: weights[k]}}
	}
	var lid, budget int64
	perRound := 12
	for _, pol := range policies {
		cname := fmt.Sprintf("c05m-%s", pol)
		ccfg := v2.Cluster{Name: cname, ClusterType: v2.SIMPLE_CLUSTER, LbType: v2.LbType(pol)}
		tr.Emit(vh.Ev{"ev": "new", "policy": string(pol)})
		curName.Store(cname)
		vh.Must(ad.TriggerClusterAddOrUpdate(ccfg), "add cluster")
		stop := make(chan struct{})
		var wg sync.WaitGroup
		for g := 0; g < lookers; g++ {
			wg.Add(1)
			go func(g int) {
				defer wg.Done()
				rng := rand.New(rand.NewSource(vh.Seed()*100 + int64(g)))
				for {
					select {
					case <-stop:
						return
					default:
					}
					if atomic.AddInt64(&budget, -1) < 0 {
						runtime.Gosched()
						continue
					}
					id := atomic.AddInt64(&lid, 1)
					tr.Emit(vh.Ev{"ev": "lstart", "id": id})
					snap := ad.GetClusterSnapshot(context.Background(), cname)
					if snap == nil {
						tr.Emit(vh.Ev{"ev": "lend", "id": id, "r": "no-cluster", "hs": []string{}})
						continue
					}
					h := snap.LoadBalancer().ChooseHost(newCtx(rng.Uint64()))
					tr.Emit(vh.Ev{"ev": "lend", "id": id, "r": name(h), "hs": hsNames(snap.HostSet())})
				}
			}(g)
		}
		// operation script over the manager API; the health flags of an address are per address, all stay healthy
		info0 := ad.GetClusterSnapshot(context.Background(), cname).ClusterInfo()
		for k := range addrs {
			setHealth(cluster.NewSimpleHost(hostCfg(k), info0), true)
		}
		ops := []func(){
			func() { ad.TriggerClusterHostUpdate(cname, []v2.Host{hostCfg("h1"), hostCfg("h2")}) },
			func() { ad.TriggerHostAppend(cname, []v2.Host{hostCfg("h3")}) },
			func() { ad.TriggerClusterAddOrUpdate(ccfg) }, // new cluster object, hosts inherited
			func() { ad.TriggerHostDel(cname, []string{addrs["h1"]}) },
			func() { ad.TriggerClusterHostUpdate(cname, []v2.Host{hostCfg("h4")}) },
			func() { ad.TriggerClusterAddOrUpdate(ccfg) },
			func() { ad.TriggerHostAppend(cname, []v2.Host{hostCfg("h1"), hostCfg("h2")}) },
			func() { ad.TriggerHostDel(cname, []string{addrs["h4"], addrs["h2"]}) },
		}
		for r := 0; r < rounds; r++ {
			atomic.StoreInt64(&budget, int64(perRound))
			ops[r%len(ops)]()
			for i := 0; i < 50 && atomic.LoadInt64(&budget) > int64(perRound)/2; i++ {
				runtime.Gosched()
			}
		}
		close(stop)
		wg.Wait()
		curName.Store("")
		ad.TriggerClusterDel(cname)
	}
	fmt.Printf("mswap events=%d lookups=%d\n", tr.Len(), lid)
}

func main() {
	mode := flag.String("mode", "hist", "hist|swap")
	cases := flag.String("cases", "", "cases file")
	out := flag.String("trace", "", "trace output")
	reps := flag.Int("reps", 50, "ChooseHost calls per choose op / publish rounds")
	lookers := flag.Int("lookers", 4, "concurrent lookup goroutines")
	flag.Parse()
	if !vh.HooksCompiled() {
		vh.Must(fmt.Errorf("built without -tags verif"), "hooks")
	}
	switch *mode {
	case "hist":
		runHist(*cases, *out, *reps)
	case "mswap":
		runMSwap(*out, *reps, *lookers)
	case "swap":
		runSwap(*out, *reps, *lookers)
	}
}
