// C15, second part: where the criteria of a REQUEST come from (proxy/downstream.go MetadataMatchCriteria: the
// route's metadata_match overridden / extended by the request's own metadata).  TLC enumerates histories of
// requests on one route (spec/cluster/SubsetRoute.tla); they are replayed
//   direct: a fresh real route rule per history, the real header_to_metadata filter on a fresh request context,
//           the proxy's real load balancer context (downStream, accessor VerifLoadBalancerContext) handed to real
//           subset balancers of both builders: criteria, HostNum, IsExistsHosts and ChooseHost answers recorded;
//   e2e:    one in-process MOSN (HTTP/1 listener with the header_to_metadata stream filter, one cluster per menu
//           configuration and builder, one route per (cluster, metadata_match)), scripted upstreams that say who
//           answered: the host of every request recorded.
// TLC validates the trace (SubsetTrace.tla, event rq).
package main

import (
	"context"
	"encoding/json"
	"fmt"
	"math/rand"
	"net"
	"os"
	"reflect"
	"sort"
	"strings"
	"time"

	"mosn.io/api"
	v2 "mosn.io/mosn/pkg/config/v2"
	"mosn.io/mosn/pkg/filter/stream/headertometadata"
	"mosn.io/mosn/pkg/protocol"
	"mosn.io/mosn/pkg/proxy"
	"mosn.io/mosn/pkg/router"
	"mosn.io/mosn/pkg/types"
	"mosn.io/mosn/pkg/upstream/cluster"
	"mosn.io/pkg/variable"
	"verif/e2e"
	"verif/vh"
)

type menuCfg struct {
	Hosts []pmap     `json:"hosts"`
	Sel   [][]string `json:"sel"`
	Pol   string     `json:"pol"`
	Dflt  pmap       `json:"dflt"`
}

// optional map: [] = absent, [m] = present
type routeRec struct {
	T    string    `json:"t"`
	Menu []menuCfg `json:"menu"`
	M    int       `json:"m"` // 1-based menu index
	Rm   []pmap    `json:"rm"`
	Reqs [][]pmap  `json:"reqs"`
	E2E  bool      `json:"e2e"`
}

func optJSON(o []pmap) []map[string]string {
	out := []map[string]string{}
	for _, m := range o {
		out = append(out, map[string]string(m))
	}
	return out
}

// header_to_metadata rules: request header x-<key> becomes request metadata <key> = header value
var metaKeys = []string{"a", "b", "x"}

func h2mRules() []headertometadata.Rule {
	rs := []headertometadata.Rule{}
	for _, k := range metaKeys {
		rs = append(rs, headertometadata.Rule{Header: "x-" + k, OnPresent: &headertometadata.KVPair{Key: k}})
	}
	return rs
}

func reqHeaders(q []pmap) map[string]string {
	h := map[string]string{}
	if len(q) == 1 {
		for k, v := range q[0] {
			h["x-"+k] = v
		}
	}
	return h
}

// reqCtx wraps the proxy's load balancer context: the criteria come from the real downStream, the route with a hash
// policy (maglev's precondition) from the harness.
type reqCtx struct {
	inner types.LoadBalancerContext
	ctx   context.Context
	route *fakeRoute
}

func (c *reqCtx) MetadataMatchCriteria() api.MetadataMatchCriteria { return c.inner.MetadataMatchCriteria() }
func (c *reqCtx) DownstreamConnection() net.Conn                   { return nil }
func (c *reqCtx) DownstreamHeaders() api.HeaderMap                 { return nil }
func (c *reqCtx) DownstreamContext() context.Context               { return c.ctx }
func (c *reqCtx) DownstreamCluster() types.ClusterInfo             { return nil }
func (c *reqCtx) DownstreamRoute() api.Route                       { return c.route }

func critOf(mmc api.MetadataMatchCriteria) []map[string]string {
	if mmc == nil || reflect.ValueOf(mmc).IsNil() {
		return []map[string]string{}
	}
	m := map[string]string{}
	for _, kv := range mmc.MetadataMatchCriteria() {
		m[kv.MetadataKeyName()] = kv.MetadataValue()
	}
	return []map[string]string{m}
}

func subsetCfg(mc menuCfg) v2.LBSubsetConfig {
	return v2.LBSubsetConfig{FallBackPolicy: polCode[mc.Pol], DefaultSubset: map[string]string(mc.Dflt), SubsetSelectors: mc.Sel}
}

func lbEvent(b string, mi int, mc menuCfg, lbt string) vh.Ev {
	hm := make([]map[string]string, len(mc.Hosts))
	for i := range mc.Hosts {
		hm[i] = map[string]string(mc.Hosts[i])
	}
	return vh.Ev{"ev": "lb", "b": b, "hosts": hm, "sel": mc.Sel, "pol": mc.Pol, "dflt": map[string]string(mc.Dflt), "lbt": lbt, "id": mi}
}

func runRouteDirect(tr *vh.Trace, menu []menuCfg, hists []routeRec, reps int, rng *rand.Rand) (nreq int) {
	vhost, err := router.NewVirtualHostImpl(&v2.VirtualHost{Name: "vh", Domains: []string{"*"}})
	vh.Must(err, "virtual host")
	filterRules := &headertometadata.FilterFactory{Rules: h2mRules()}
	for mi, mc := range menu {
		for bi, b := range []string{"filter", "preindex"} {
			pol := policies[(mi+bi+int(vh.Seed()))%len(policies)]
			cname := fmt.Sprintf("c15r%d", mi+1)
			info := cluster.NewClusterInfo(v2.Cluster{Name: cname, LbType: v2.LbType(pol), LBSubSetConfig: subsetCfg(mc)})
			hosts := make([]types.Host, len(mc.Hosts))
			for i := range mc.Hosts {
				hosts[i] = cluster.NewSimpleHost(v2.Host{HostConfig: v2.HostConfig{Address: fmt.Sprintf("10.15.1.%d:80", i+1),
					Hostname: fmt.Sprintf("h%d", i+1), Weight: 1}, MetaData: api.Metadata(mc.Hosts[i])}, info)
				setHealth(hosts[i], true)
			}
			var lb types.LoadBalancer
			if b == "filter" {
				lb = cluster.NewSubsetLoadBalancer(info, cluster.NewHostSet(hosts))
			} else {
				lb = cluster.NewSubsetLoadBalancerPreIndex(info, cluster.NewHostSet(hosts))
			}
			tr.Emit(lbEvent("route-"+b, mi+1, mc, string(pol)))
			idx := func(h types.Host) int {
				if h == nil {
					return 0
				}
				for i, x := range hosts {
					if x == h {
						return i + 1
					}
				}
				return -1
			}
			for _, hc := range hists {
				if hc.M != mi+1 {
					continue
				}
				// a fresh route rule per history: the object every request of the route shares
				r := &v2.Router{}
				r.Match.Prefix = "/"
				r.Route.ClusterName = cname
				if len(hc.Rm) == 1 {
					r.Route.MetadataMatch = api.Metadata(hc.Rm[0])
				}
				rb, err := router.NewRouteBase(vhost, r)
				vh.Must(err, "route rule")
				rule := rb.RouteRule()
				for i, q := range hc.Reqs {
					ctx := variable.NewVariableContext(context.Background())
					ev := vh.Ev{"ev": "rq", "rm": optJSON(hc.Rm), "q": optJSON(q), "i": i + 1}
					panicked := func() (p interface{}) {
						defer func() { p = recover() }()
						if len(q) == 1 && len(q[0]) == 0 {
							// a filter that publishes an empty metadata map (header_to_metadata never does)
							variable.Set(ctx, types.VarRouterMeta, map[string]string{})
						} else if len(q) == 1 {
							f := headertometadata.NewFilter(filterRules)
							f.OnReceive(ctx, protocol.CommonHeader(reqHeaders(q)), nil, nil)
						}
						lbc := &reqCtx{inner: proxy.VerifLoadBalancerContext(ctx, rule, info), ctx: ctx,
							route: &fakeRoute{r: &fakeRule{p: &fakePolicy{hp: &hashPolicy{h: rng.Uint64()}}}}}
						ev["crit"] = critOf(lbc.MetadataMatchCriteria())
						// as the cluster manager does: HostNum(criteria), then ChooseHost(context)
						ev["n"] = lb.HostNum(lbc.MetadataMatchCriteria())
						ev["ex"] = lb.IsExistsHosts(lbc.MetadataMatchCriteria())
						seen := map[int]bool{}
						for k := 0; k < reps; k++ {
							seen[idx(lb.ChooseHost(lbc))] = true
						}
						rs := make([]int, 0, len(seen))
						for k := range seen {
							rs = append(rs, k)
						}
						sort.Ints(rs)
						ev["rs"] = rs
						return nil
					}()
					if panicked != nil {
						ev = vh.Ev{"ev": "rq", "rm": optJSON(hc.Rm), "q": optJSON(q), "i": i + 1, "panic": fmt.Sprint(panicked)}
					}
					tr.Emit(ev)
					nreq++
				}
			}
		}
	}
	return nreq
}

func runRouteE2E(tr *vh.Trace, menu []menuCfg, hists []routeRec) (nreq int) {
	tmp, err := os.MkdirTemp("", "c15-e2e-")
	vh.Must(err, "tmp")
	defer os.RemoveAll(tmp)
	reg := e2e.NewRegistry()
	maxHosts := 0
	for _, mc := range menu {
		if len(mc.Hosts) > maxHosts {
			maxHosts = len(mc.Hosts)
		}
	}
	ups := []*e2e.HTTPUpstream{}
	for i := 0; i < maxHosts; i++ {
		ups = append(ups, e2e.NewHTTPUpstream(fmt.Sprintf("h%d", i+1), reg))
	}
	builders := []string{"preindex", "filter"}
	cname := func(mi int, b string) string { return fmt.Sprintf("m%d%s", mi, b[:1]) }
	hostCfgs := func(mc menuCfg) []v2.Host {
		hs := []v2.Host{}
		for i := range mc.Hosts {
			hs = append(hs, v2.Host{HostConfig: v2.HostConfig{Address: ups[i].Addr, Hostname: ups[i].Name, Weight: 1}, MetaData: api.Metadata(mc.Hosts[i])})
		}
		return hs
	}
	specs := []e2e.ClusterSpec{}
	for mi, mc := range menu {
		for _, b := range builders {
			mc := mc
			specs = append(specs, e2e.ClusterSpec{Name: cname(mi+1, b), LbType: v2.LB_ROUNDROBIN, Extra: func(c *v2.Cluster) {
				c.Hosts = hostCfgs(mc)
				c.LBSubSetConfig = subsetCfg(mc)
			}})
		}
	}
	// one route per (cluster, metadata_match) that occurs in the histories
	type rkey struct {
		c  string
		rm string
	}
	prefix := map[rkey]string{}
	routes := []e2e.RouteSpec{}
	rmKey := func(rm []pmap) string { b, _ := json.Marshal(optJSON(rm)); return string(b) }
	for hi := range hists {
		hc := hists[hi]
		b := builders[hi%2]
		k := rkey{cname(hc.M, b), rmKey(hc.Rm)}
		if _, ok := prefix[k]; ok {
			continue
		}
		p := fmt.Sprintf("/%s/r%d/", k.c, len(prefix))
		prefix[k] = p
		rm := hc.Rm
		routes = append(routes, e2e.RouteSpec{Prefix: p, Cluster: k.c, Extra: func(r *v2.Router) {
			if len(rm) == 1 {
				r.Route.MetadataMatch = api.Metadata(rm[0])
			}
		}})
	}
	rules := []interface{}{}
	for _, k := range metaKeys {
		rules = append(rules, map[string]interface{}{"header": "x-" + k, "on_header_present": map[string]interface{}{"key": k}})
	}
	laddr := e2e.ListenerAddr()
	listeners := []v2.Listener{e2e.BuildListener(e2e.ListenerSpec{Name: "c15", Addr: laddr, Downstream: "Http1", Upstream: "Http1", Routes: routes,
		StreamFilters: []v2.Filter{{Type: headertometadata.HeaderToMetadata, Config: map[string]interface{}{"request_rules": rules}}}})}
	cluster.SetSubsetBuildMode(cluster.SubsetPreIndexBuildMode)
	m := e2e.StartMosn(e2e.BuildConfig(listeners, e2e.BuildClusters(specs), e2e.ScratchLog(tmp)))
	defer m.Close()
	vh.Must(e2e.WaitListen(laddr, 10*time.Second), "mosn listener")
	// the clusters of the filtering builder are rebuilt by a host update while that build mode is selected
	cluster.SetSubsetBuildMode(cluster.SubsetFilterBuildMode)
	for mi, mc := range menu {
		vh.Must(cluster.GetClusterMngAdapterInstance().TriggerClusterHostUpdate(cname(mi+1, "filter"), hostCfgs(mc)), "host update")
	}
	cluster.SetSubsetBuildMode(cluster.SubsetPreIndexBuildMode)

	order := make([]int, len(hists))
	for i := range order {
		order[i] = i
	}
	sort.SliceStable(order, func(x, y int) bool {
		cx, cy := cname(hists[order[x]].M, builders[order[x]%2]), cname(hists[order[y]].M, builders[order[y]%2])
		return cx < cy
	})
	cur := ""
	tok := 0
	for _, hi := range order {
		hc := hists[hi]
		b := builders[hi%2]
		c := cname(hc.M, b)
		if c != cur {
			cur = c
			tr.Emit(lbEvent("e2e-"+b, hc.M, menu[hc.M-1], string(v2.LB_ROUNDROBIN)))
		}
		p := prefix[rkey{c, rmKey(hc.Rm)}]
		cl, err := e2e.DialHTTP(laddr)
		vh.Must(err, "dial mosn")
		for i, q := range hc.Reqs {
			tok++
			hdr := reqHeaders(q)
			hdr["X-Token"] = fmt.Sprintf("t%d", tok)
			if err := cl.Send("GET", p+"x", hdr, ""); err != nil {
				cl.Close()
				cl, err = e2e.DialHTTP(laddr)
				vh.Must(err, "redial mosn")
				vh.Must(cl.Send("GET", p+"x", hdr, ""), "send")
			}
			o := cl.Recv(5*time.Second, 0)
			if o.Kind != "response" {
				vh.Must(fmt.Errorf("request %s on %s: %s %s", hdr["X-Token"], p, o.Kind, o.Err), "e2e request")
			}
			host := 0
			if u := o.Header.Get("X-Upstream"); strings.HasPrefix(u, "h") {
				fmt.Sscanf(u[1:], "%d", &host)
			}
			tr.Emit(vh.Ev{"ev": "rq", "rm": optJSON(hc.Rm), "q": optJSON(q), "i": i + 1, "rs": []int{host}, "status": o.Status, "e2e": true, "route": p})
			nreq++
			if o.Header.Get("Connection") == "close" {
				cl.Close()
				cl, err = e2e.DialHTTP(laddr)
				vh.Must(err, "redial mosn")
			}
		}
		cl.Close()
	}
	for _, u := range ups {
		u.Close()
	}
	return nreq
}

func runRoute(casesPath, tracePath string, reps int) {
	tr := vh.NewTrace(tracePath)
	defer tr.Close()
	rng := rand.New(rand.NewSource(vh.Seed()))
	var menu []menuCfg
	var direct, through []routeRec
	err := vh.ReadCases(casesPath, func(raw json.RawMessage) error {
		var c routeRec
		if err := json.Unmarshal(raw, &c); err != nil {
			return fmt.Errorf("%v in %s", err, raw)
		}
		switch c.T {
		case "menu":
			menu = c.Menu
		case "hist":
			if c.E2E {
				through = append(through, c)
			} else {
				direct = append(direct, c)
			}
		}
		return nil
	})
	vh.Must(err, "cases")
	if len(menu) == 0 {
		vh.Must(fmt.Errorf("no menu in the cases"), "cases")
	}
	nd := runRouteDirect(tr, menu, direct, reps, rng)
	ne := 0
	if len(through) > 0 {
		ne = runRouteE2E(tr, menu, through)
	}
	fmt.Printf("route: direct histories=%d requests=%d; e2e histories=%d requests=%d; events=%d\n", len(direct), nd, len(through), ne, tr.Len())
}
