// Driver for C15: replays every subset-load-balancing configuration TLC enumerates from
// spec/cluster/Subset.tla into real clusters, once per subset builder (and per host order), asks the
// real balancer HostNum / IsExistsHosts / ChooseHost for every criteria map of the enumerated
// universe (and for "no criteria"), under health patterns, and records the answers. TLC decides
// (SubsetTrace.tla).
package main

import (
	"context"
	"encoding/json"
	"flag"
	"fmt"
	"math/rand"
	"net"
	"sort"

	"mosn.io/api"
	v2 "mosn.io/mosn/pkg/config/v2"
	mlog "mosn.io/mosn/pkg/log"
	"mosn.io/mosn/pkg/router"
	"mosn.io/mosn/pkg/types"
	"mosn.io/mosn/pkg/upstream/cluster"
	"mosn.io/pkg/log"
	"mosn.io/pkg/variable"
	"verif/vh"
)

// pmap is a partial map; TLC prints the empty function as [].
type pmap map[string]string

func (p *pmap) UnmarshalJSON(b []byte) error {
	*p = pmap{}
	if len(b) > 0 && b[0] == '[' {
		var a []interface{}
		if err := json.Unmarshal(b, &a); err != nil {
			return err
		}
		if len(a) != 0 {
			return fmt.Errorf("non-empty array where a map was expected: %s", b)
		}
		return nil
	}
	m := map[string]string{}
	if err := json.Unmarshal(b, &m); err != nil {
		return err
	}
	*p = m
	return nil
}

type caseRec struct {
	T     string     `json:"t"`
	Hosts []pmap     `json:"hosts"`
	Sel   [][]string `json:"sel"`
	Pol   string     `json:"pol"`
	Dflt  pmap       `json:"dflt"`
	Crits []pmap     `json:"crits"`
	// Perm, when present, is a third host order (old positions in the new order) chosen by the check so that two
	// different subsets get position sets with equal min, max and size (the key of the pre-index builder's cache)
	Perm []int `json:"perm"`
}

var policies = []types.LoadBalancerType{types.Random, types.RoundRobin, types.LeastActiveRequest, types.WeightedRoundRobin,
	types.LeastActiveConnection, types.PeakEwma, types.Maglev, types.RequestRoundRobin}

// ---- load balancer context (maglev needs a route with a hash policy: its documented precondition)
type hashPolicy struct{ h uint64 }

func (p *hashPolicy) GenerateHash(ctx context.Context) uint64 { return p.h }

type fakePolicy struct {
	api.Policy
	hp *hashPolicy
}

func (p *fakePolicy) HashPolicy() api.HashPolicy { return p.hp }

type fakeRule struct {
	api.RouteRule
	p *fakePolicy
}

func (r *fakeRule) Policy() api.Policy { return r.p }

type fakeRoute struct {
	api.Route
	r *fakeRule
}

func (r *fakeRoute) RouteRule() api.RouteRule { return r.r }

type lbCtx struct {
	ctx   context.Context
	route *fakeRoute
	mmc   api.MetadataMatchCriteria
}

func (c *lbCtx) MetadataMatchCriteria() api.MetadataMatchCriteria { return c.mmc }
func (c *lbCtx) DownstreamConnection() net.Conn                   { return nil }
func (c *lbCtx) DownstreamHeaders() api.HeaderMap                 { return nil }
func (c *lbCtx) DownstreamContext() context.Context               { return c.ctx }
func (c *lbCtx) DownstreamCluster() types.ClusterInfo             { return nil }
func (c *lbCtx) DownstreamRoute() api.Route                       { return c.route }

func newCtx(hash uint64, mmc api.MetadataMatchCriteria) *lbCtx {
	return &lbCtx{ctx: variable.NewVariableContext(context.Background()),
		route: &fakeRoute{r: &fakeRule{p: &fakePolicy{hp: &hashPolicy{h: hash}}}}, mmc: mmc}
}

func setHealth(h types.Host, healthy bool) {
	if healthy {
		h.ClearHealthFlag(api.FAILED_ACTIVE_HC)
	} else {
		h.SetHealthFlag(api.FAILED_ACTIVE_HC)
	}
}

var polCode = map[string]uint8{"none": uint8(types.NoFallBack), "any": uint8(types.AnyEndPoint), "default": uint8(types.DefaultSubset)}

type runner struct {
	tr    *vh.Trace
	rng   *rand.Rand
	crits []pmap
	reps  int
	calls int
}

// query asks the three observable questions for one criteria value and records the answers.
func (r *runner) query(lb types.LoadBalancer, hosts []types.Host, kind string, c pmap) {
	var mmc api.MetadataMatchCriteria
	switch kind {
	case "map":
		m := make(map[string]string, len(c))
		for k, v := range c {
			m[k] = v
		}
		mmc = router.NewMetadataMatchCriteriaImpl(m) // the real constructor: sorts the criteria by key
	case "tnil":
		mmc = (*router.MetadataMatchCriteriaImpl)(nil)
	case "nil":
		mmc = nil
	}
	seen := map[int]bool{}
	idx := func(h types.Host) int {
		if h == nil {
			return 0
		}
		for i, x := range hosts {
			if x == h {
				return i + 1
			}
		}
		return -1 // a host that is not a member of the cluster
	}
	var n int
	var ex bool
	panicked := func() (p interface{}) {
		defer func() { p = recover() }()
		n = lb.HostNum(mmc)
		ex = lb.IsExistsHosts(mmc)
		// four request contexts per query, each re-entered (retry path); hashes differ for maglev
		var ctxs [4]*lbCtx
		for i := range ctxs {
			ctxs[i] = newCtx(r.rng.Uint64(), mmc)
		}
		for i := 0; i < r.reps; i++ {
			seen[idx(lb.ChooseHost(ctxs[i%4]))] = true
			r.calls++
		}
		return nil
	}()
	if panicked != nil {
		ev := vh.Ev{"ev": "q", "k": kind, "panic": fmt.Sprint(panicked)}
		if kind == "map" {
			ev["c"] = map[string]string(c)
		}
		r.tr.Emit(ev)
		return
	}
	rs := make([]int, 0, len(seen))
	for k := range seen {
		rs = append(rs, k)
	}
	sort.Ints(rs)
	ev := vh.Ev{"ev": "q", "k": kind, "n": n, "ex": ex, "rs": rs}
	if kind == "map" {
		ev["c"] = map[string]string(c)
	}
	r.tr.Emit(ev)
}

func (r *runner) queries(lb types.LoadBalancer, hosts []types.Host, withNil bool) {
	for _, c := range r.crits {
		r.query(lb, hosts, "map", c)
	}
	if withNil {
		r.query(lb, hosts, "nil", nil)
		r.query(lb, hosts, "tnil", nil)
	}
}

func main() {
	mode := flag.String("mode", "lb", "lb: configurations x criteria on the balancers; route: request histories on a route (direct and through MOSN)")
	cases := flag.String("cases", "", "cases file (cfg and crits records)")
	out := flag.String("trace", "", "trace output")
	reps := flag.Int("reps", 12, "ChooseHost calls per query")
	health := flag.Int("health", 1, "health patterns per balancer (besides all-healthy): every pattern if there are at most this many, else that many chosen by the seed")
	full := flag.Bool("full", false, "false: reversed host/selector order for the pre-index builder only, health patterns on one builder per configuration (alternating); true: everything for both builders")
	flag.Parse()
	if !vh.HooksCompiled() {
		vh.Must(fmt.Errorf("built without -tags verif"), "hooks")
	}
	mlog.InitDefaultLogger("", log.ERROR)
	log.DefaultLogger.SetLogLevel(log.ERROR)
	if *mode == "route" {
		runRoute(*cases, *out, *reps)
		return
	}
	r := &runner{tr: vh.NewTrace(*out), rng: rand.New(rand.NewSource(vh.Seed())), reps: *reps}
	defer r.tr.Close()

	var cfgs []caseRec
	err := vh.ReadCases(*cases, func(raw json.RawMessage) error {
		var c caseRec
		if err := json.Unmarshal(raw, &c); err != nil {
			return fmt.Errorf("%v in %s", err, raw)
		}
		switch c.T {
		case "crits":
			r.crits = append(r.crits, c.Crits...)
		case "cfg":
			cfgs = append(cfgs, c)
		}
		return nil
	})
	vh.Must(err, "cases")
	if len(r.crits) == 0 {
		vh.Must(fmt.Errorf("no criteria universe in the cases"), "cases")
	}
	builds := 0
	for ci, c := range cfgs {
		pol := policies[(ci+int(vh.Seed()))%len(policies)]
		for ord := 0; ord < 3; ord++ {
			var cl types.Cluster
			n := len(c.Hosts)
			if (ord == 1 && n < 2) || (ord == 2 && len(c.Perm) != n) || (ord == 2 && n == 0) {
				continue
			}
			mds := make([]pmap, n)
			for i := range c.Hosts {
				switch ord {
				case 0:
					mds[i] = c.Hosts[i]
				case 1:
					mds[i] = c.Hosts[n-1-i]
				case 2:
					mds[i] = c.Hosts[c.Perm[i]]
				}
			}
			sel := make([][]string, len(c.Sel))
			for i := range c.Sel {
				s := append([]string{}, c.Sel[i]...)
				if ord == 1 { // selectors and their keys reversed too: the configuration is a set of sets
					for a, b := 0, len(s)-1; a < b; a, b = a+1, b-1 {
						s[a], s[b] = s[b], s[a]
					}
					if len(s) > 0 { // and a key repeated: selectors are key *sets*
						s = append(s, s[len(s)-1])
					}
					sel[len(c.Sel)-1-i] = s
				} else {
					sel[i] = s
				}
			}
			ccfg := v2.Cluster{Name: "c15", LbType: v2.LbType(pol), LBSubSetConfig: v2.LBSubsetConfig{
				FallBackPolicy: polCode[c.Pol], DefaultSubset: map[string]string(c.Dflt), SubsetSelectors: sel}}
			for bi, b := range []string{"filter", "preindex"} {
				if ord >= 1 && !*full && b == "filter" {
					continue // the filter builder never uses host positions
				}
				if b == "filter" {
					cluster.SetSubsetBuildMode(cluster.SubsetFilterBuildMode)
				} else {
					cluster.SetSubsetBuildMode(cluster.SubsetPreIndexBuildMode)
				}
				// one cluster per configuration and order: the second build replaces the balancer of the first
				if cl == nil {
					cl = cluster.NewCluster(ccfg)
				}
				info := cl.Snapshot().ClusterInfo()
				hosts := make([]types.Host, n)
				for i := range mds {
					hosts[i] = cluster.NewSimpleHost(v2.Host{HostConfig: v2.HostConfig{Address: fmt.Sprintf("10.15.0.%d:80", i+1),
						Hostname: fmt.Sprintf("h%d", i+1), Weight: uint32(1 + (i+ci)%2)}, MetaData: api.Metadata(mds[i])}, info)
					setHealth(hosts[i], true)
				}
				var lb types.LoadBalancer
				panicked := func() (p interface{}) {
					defer func() { p = recover() }()
					cl.UpdateHosts(cluster.NewHostSet(hosts))
					lb = cl.Snapshot().LoadBalancer()
					return nil
				}()
				builds++
				hm := make([]map[string]string, n)
				for i := range mds {
					hm[i] = map[string]string(mds[i])
				}
				ev := vh.Ev{"ev": "lb", "b": b, "hosts": hm, "sel": sel, "pol": c.Pol, "dflt": map[string]string(c.Dflt),
					"lbt": string(pol), "id": ci, "ord": ord}
				if panicked != nil {
					ev["panic"] = fmt.Sprint(panicked)
					r.tr.Emit(ev)
					continue
				}
				r.tr.Emit(ev)
				r.queries(lb, hosts, true)
				if n == 0 || *health == 0 || ord >= 1 || (!*full && bi != ci%2) {
					continue
				}
				// health patterns: bit i of m = host i+1 healthy; all-healthy (full mask) already done
				fullMask := (1 << uint(n)) - 1
				var masks []int
				if fullMask <= *health {
					for m := 0; m < fullMask; m++ {
						masks = append(masks, m)
					}
				} else {
					for _, m := range r.rng.Perm(fullMask)[:*health] {
						masks = append(masks, m)
					}
				}
				for _, m := range masks {
					hl := []int{}
					for i := range hosts {
						ok := m&(1<<uint(i)) != 0
						setHealth(hosts[i], ok)
						if ok {
							hl = append(hl, i+1)
						}
					}
					r.tr.Emit(vh.Ev{"ev": "health", "hl": hl})
					r.queries(lb, hosts, false)
				}
				for i := range hosts {
					setHealth(hosts[i], true)
				}
			}
		}
	}
	fmt.Printf("configs=%d builds=%d choosehost_calls=%d events=%d\n", len(cfgs), builds, r.calls, r.tr.Len())
}
