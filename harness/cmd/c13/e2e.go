package main

// e2e mode: the same cases, but through a real in-process MOSN. Every context list becomes a TLS listener with
// a tcp proxy in front of a plain echo upstream (server/handler.go OnAccept -> tlsMng.Conn, handshake in the
// connection's read loop); every upstream case becomes a plaintext listener whose tcp proxy connects to a
// cluster with a tls_context towards a stock crypto/tls echo server (network/connection.go tryConnect).

import (
	gotls "crypto/tls"
	"encoding/json"
	"fmt"
	"io"
	"net"
	"os"
	"sort"
	"sync"
	"time"

	v2 "mosn.io/mosn/pkg/config/v2"
	_ "mosn.io/mosn/pkg/filter/network/streamproxy"
	"mosn.io/mosn/pkg/server"
	"mosn.io/mosn/pkg/upstream/cluster"
	testutil "mosn.io/mosn/test/util"
	tmosn "mosn.io/mosn/test/util/mosn"
	"verif/vh"
)

// freeAddrs picks n loopback addresses for the listeners of the in-process MOSN. The ports are taken from below the
// range the kernel uses for outgoing connections and port-0 binds (ip_local_port_range starts at 32768): between this
// probe and MOSN's bind nobody is handed one of them by chance, however busy the machine is.
func freeAddrs(n int) []string {
	const lo, hi = 12000, 32000
	var out []string
	port := lo + (os.Getpid()*7919+int(time.Now().UnixNano()%1000)*13)%(hi-lo)
	for tries := 0; len(out) < n && tries < 4*(hi-lo); tries++ {
		port++
		if port >= hi {
			port = lo
		}
		addr := fmt.Sprintf("127.0.0.1:%d", port)
		ln, err := net.Listen("tcp", addr)
		if err != nil {
			continue
		}
		ln.Close()
		out = append(out, addr)
	}
	if len(out) < n {
		vh.Must(fmt.Errorf("only %d of %d ports free", len(out), n), "reserve ports")
	}
	return out
}

func echoLoop(ln net.Listener, wrap func(net.Conn) (net.Conn, error)) {
	for {
		c, err := ln.Accept()
		if err != nil {
			return
		}
		go func() {
			defer c.Close()
			c.SetDeadline(time.Now().Add(4 * ioTimeout))
			cc, err := wrap(c)
			if err != nil {
				return
			}
			io.Copy(cc, cc)
		}()
	}
}

var (
	plainMu     sync.Mutex
	plainSeen   = map[string]int{}
	resumedSeen = map[string]int{} // abbreviated handshakes seen by a stock TLS upstream
)

// leafHolder is the certificate of a stock upstream that is issued after the upstream was started.
type leafHolder struct {
	mu       sync.Mutex
	leaf     *gotls.Certificate
	notAfter time.Time
}

func (h *leafHolder) get() (*gotls.Certificate, error) {
	h.mu.Lock()
	defer h.mu.Unlock()
	if h.leaf == nil {
		return nil, fmt.Errorf("no certificate issued yet")
	}
	return h.leaf, nil
}

type peekConn struct {
	net.Conn
	first  [1]byte
	peeked bool
}

func (p *peekConn) peek() (byte, error) {
	_, err := io.ReadFull(p.Conn, p.first[:])
	p.peeked = err == nil
	return p.first[0], err
}

func (p *peekConn) Read(b []byte) (int, error) {
	if p.peeked && len(b) > 0 {
		p.peeked = false
		b[0] = p.first[0]
		return 1, nil
	}
	return p.Conn.Read(b)
}

func tcpProxyChain(cluster string) v2.FilterChain {
	sp := v2.StreamProxy{Cluster: cluster, Routes: []*v2.StreamRoute{{Cluster: cluster,
		SourceAddrs:      []v2.CidrRange{{Address: "127.0.0.1", Length: 24}},
		DestinationAddrs: []v2.CidrRange{{Address: "127.0.0.1", Length: 24}},
		SourcePort:       "1-65535", DestinationPort: "1-65535"}}}
	m := map[string]interface{}{}
	b, _ := json.Marshal(sp)
	json.Unmarshal(b, &m)
	return v2.FilterChain{FilterChainConfig: v2.FilterChainConfig{Filters: []v2.Filter{{Type: "tcp_proxy", Config: m}}}}
}

func waitUp(addr string) {
	for i := 0; i < 200; i++ {
		c, err := net.DialTimeout("tcp", addr, time.Second)
		if err == nil {
			c.Close()
			return
		}
		time.Sleep(50 * time.Millisecond)
	}
	vh.Must(fmt.Errorf("listener %s did not come up", addr), "mosn start")
}

func runE2E(p *pki, mock *sdsMock, groups []*group, upCases []tcase, out string, par int) {
	ups := upJobs(upCases)
	plainLn, err := net.Listen("tcp", "127.0.0.1:0")
	vh.Must(err, "echo listen")
	defer plainLn.Close()
	go echoLoop(plainLn, func(c net.Conn) (net.Conn, error) { return c, nil })

	clusters := []v2.Cluster{testutil.NewBasicCluster("echo", []string{plainLn.Addr().String()})}
	addrs := freeAddrs(len(groups) + len(ups))
	var listeners []v2.Listener
	lives := make([]*liveGroup, len(groups))
	var later []pendingSecret
	mkListener := func(i int) v2.Listener {
		tlsCfgs, _, _ := lives[i].tlsContexts()
		fc := tcpProxyChain("echo")
		fc.TLSContexts = tlsCfgs
		ln := testutil.NewListener(lives[i].lname, addrs[i], []v2.FilterChain{fc})
		ln.Inspector = lives[i].insp
		return ln
	}
	for i, g := range groups {
		lives[i] = newLive(g, p, mock)
		_, jctx, l := lives[i].tlsContexts()
		later = append(later, l...)
		g.events = append(g.events, vh.Ev{"ev": "mgr", "ctxs": jctx, "insp": g.insp, "g": g.idx, "via": "e2e", "variant": g.variant})
		listeners = append(listeners, mkListener(i))
	}
	// stock TLS echo servers, one per upstream certificate
	tlsSrv := map[string]string{}
	upAddr := make([]string, len(ups))
	upLives := make([]*upLive, len(ups))
	upCfg0 := make([]vh.Ev, len(ups))
	upLeaves := make([]*leafHolder, len(ups))
	mkCluster := func(j int, cfg *v2.TLSConfig) v2.Cluster {
		cl := testutil.NewBasicCluster(fmt.Sprintf("up-%d", j), []string{upAddr[j]})
		cl.TLS = *cfg
		return cl
	}
	for j, job := range ups {
		tc := job.tc
		names := make([]string, len(tc.Cert.Names))
		for i, n := range tc.Cert.Names {
			names[i] = dotted(n)
		}
		sort.Strings(names)
		key := fmt.Sprintf("%s|%v|%v", tc.Cert.Ca, names, tc.Cert.Expired)
		if tc.Cert.Short { // an upstream of its own: its certificate is issued when the case pays its first visit
			key = fmt.Sprintf("short|%d", j)
		}
		if tlsSrv[key] == "" {
			ln, err := net.Listen("tcp", "127.0.0.1:0")
			vh.Must(err, "tls echo listen")
			defer ln.Close()
			conf := &gotls.Config{}
			if tc.Cert.Short {
				holder := &leafHolder{}
				upLeaves[j] = holder
				conf.GetCertificate = func(*gotls.ClientHelloInfo) (*gotls.Certificate, error) { return holder.get() }
			} else {
				conf.Certificates = []gotls.Certificate{*p.upstreamLeaf(tc.Cert.Ca, names, tc.Cert.Expired)}
			}
			// the upstream accepts TLS and (like a listener in inspector mode) plaintext, and counts the plaintext
			// connections that carried data: MOSN must never talk plaintext to it (no case configures fall_back)
			addr := ln.Addr().String()
			go echoLoop(ln, func(c net.Conn) (net.Conn, error) {
				pc := &peekConn{Conn: c}
				b, err := pc.peek()
				if err != nil {
					return nil, err
				}
				if b == 0x16 {
					s := gotls.Server(pc, conf)
					err := s.Handshake()
					if err == nil && s.ConnectionState().DidResume {
						plainMu.Lock()
						resumedSeen[addr]++
						plainMu.Unlock()
					}
					return s, err
				}
				plainMu.Lock()
				plainSeen[addr]++
				plainMu.Unlock()
				return pc, nil
			})
			tlsSrv[key] = addr
		}
		upAddr[j] = tlsSrv[key]
		cname := fmt.Sprintf("up-%d", j)
		upLives[j] = newUpLive(p, mock, job, cname)
		upCfg0[j] = upLives[j].cfgEvent(upLives[j].cur)
		clusters = append(clusters, mkCluster(j, upLives[j].tlsConfig()))
		listeners = append(listeners, testutil.NewListener(fmt.Sprintf("u%d", j), addrs[len(groups)+j], []v2.FilterChain{tcpProxyChain(cname)}))
	}
	cfg := testutil.NewMOSNConfig(listeners, v2.ClusterManagerConfig{Clusters: clusters})
	cfg.DisableUpgrade = true // no reconfigure socket: another MOSN on this machine must not look like a hot upgrade
	cfg.Servers[0].DefaultLogLevel = "ERROR"
	wd, _ := os.Getwd() // the check runs the driver inside its scratch directory, removed afterwards
	cfg.Servers[0].DefaultLogPath = fmt.Sprintf("%s/c13-mosn-%d.log", wd, os.Getpid())
	m := tmosn.NewMosn(cfg)
	go m.Start()
	for _, a := range addrs {
		waitUp(a)
	}
	// the secrets of the ready SDS contexts arrive after the listeners are up
	deliver(mock, later)

	type job struct {
		i int
		g *group
	}
	// forAll: the workers take groups off the queue. pass 0: a group without returning peers (update history, then the
	// hellos); pass 1: first visits of returning peers, then the update history; pass 2: their second visits
	forAll := func(pass int) error {
		work := make(chan job)
		var wg sync.WaitGroup
		var failMu sync.Mutex
		var fail error
		for i := 0; i < par; i++ {
			w := &worker{pki: p}
			wg.Add(1)
			go func() {
				defer wg.Done()
				for j := range work {
					// update histories go through the listener update of the running MOSN (handler.go AddOrUpdateListener)
					var err error
					reconfigure := func() error {
						ln := mkListener(j.i)
						a, e := net.ResolveTCPAddr("tcp", addrs[j.i])
						if e != nil {
							return e
						}
						ln.Addr = a
						return server.GetListenerAdapterInstance().AddOrUpdateListener("", &ln)
					}
					switch {
					case pass == 2:
						err = w.hellos(j.g, nil, addrs[j.i])
					case j.g.race: // SDS rotation and listener update in two goroutines, in the order of the schedule
						var evs []vh.Ev
						evs, err = lives[j.i].raceUpdates(reconfigure)
						j.g.events = append(j.g.events, evs...)
					default:
						if pass == 1 {
							err = w.firstVisits(j.g, nil, addrs[j.i])
						}
						for _, u := range j.g.upds {
							if err != nil {
								break
							}
							var ev vh.Ev
							ev, err = lives[j.i].apply(u, reconfigure)
							if err == nil {
								j.g.events = append(j.g.events, ev)
							}
						}
					}
					if err == nil && pass == 0 {
						err = w.hellos(j.g, nil, addrs[j.i])
					}
					if err != nil {
						failMu.Lock()
						if fail == nil {
							fail = err
						}
						failMu.Unlock()
					}
				}
			}()
		}
		for i, g := range groups {
			if g.res == (pass != 0) {
				work <- job{i, g}
			}
		}
		close(work)
		wg.Wait()
		return fail
	}

	// one connection through the plaintext listener of upstream case j: its tcp proxy connects to the TLS cluster
	upEvs := make([][]vh.Ev, len(ups))
	upUpds := make([][]vh.Ev, len(ups))
	one := make([]byte, 1)
	upConnect := func(j int, upds []vh.Ev, visit int) {
		tc := ups[j].tc
		srvAddr := upAddr[j]
		plainMu.Lock()
		before, resumedBefore := plainSeen[srvAddr], resumedSeen[srvAddr]
		plainMu.Unlock()
		var notAfter time.Time
		if upLeaves[j] != nil {
			notAfter = upLeaves[j].notAfter
		}
		var ev vh.Ev
		var lastErr error
		for attempt := 0; attempt < 3; attempt++ {
			t0 := time.Now()
			c, err := net.DialTimeout("tcp", addrs[len(groups)+j], ioTimeout)
			if err != nil {
				lastErr = err
				continue
			}
			c.SetDeadline(time.Now().Add(ioTimeout))
			// long enough for a TLS server that is (wrongly) fed plaintext to reject it at once instead of waiting for a record header
			c.Write([]byte("T PLAINTEXT REQUEST\n"))
			n, err := c.Read(one)
			c.Close()
			lastErr = nil
			if ne, ok := err.(net.Error); ok && ne.Timeout() {
				lastErr = err
				continue
			}
			ev = upEvent(tc, ups[j].variant, upCfg0[j], upds, lateness(notAfter, t0, time.Now()))
			ev["via"], ev["visit"] = "e2e", visit
			if n == 1 && one[0] == 'T' {
				ev["ok"] = true
			} else if err != nil {
				ev["cerr"] = short(err)
			}
			break
		}
		vh.Must(lastErr, "e2e upstream case")
		time.Sleep(2 * time.Millisecond)
		plainMu.Lock()
		if plainSeen[srvAddr] != before {
			ev["upplain"] = true
		}
		if resumedSeen[srvAddr] != resumedBefore {
			ev["resumed"] = true
		}
		plainMu.Unlock()
		upEvs[j] = append(upEvs[j], ev)
	}
	// the first secrets of an SDS backed cluster, then the update history: cluster updates of the running MOSN
	upHistory := func(j int) {
		upds, err := upLives[j].history(ups[j].tc, func(cfg *v2.TLSConfig) error {
			return cluster.GetClusterMngAdapterInstance().TriggerClusterAddOrUpdate(mkCluster(j, cfg))
		})
		vh.Must(err, "e2e cluster update")
		upUpds[j] = upds
	}

	// returning peers (server side and upstream side) pay their first visit before everything else, so that their
	// short-lived certificates run out while the other cases are replayed; they come back at the very end
	for j, job := range ups {
		if job.tc.Res == nil {
			continue
		}
		upLives[j].deliver()
		if h := upLeaves[j]; h != nil {
			h.mu.Lock()
			h.leaf, h.notAfter = p.shortUpstream(job.tc.Cert.Ca, certNames(job.tc))
			h.mu.Unlock()
		}
		upConnect(j, nil, 1)
		upHistory(j)
		if !job.tc.Res.Expire { // nothing to wait for: MOSN connects again at once
			upConnect(j, upUpds[j], 2)
		}
	}
	vh.Must(forAll(1), "e2e server cases (returning peers, first visit)")
	vh.Must(forAll(0), "e2e server cases")
	for j, job := range ups {
		if job.tc.Res == nil {
			upLives[j].deliver()
			upHistory(j)
			upConnect(j, upUpds[j], 0)
		}
	}
	slept := p.waitExpired()
	for _, g := range groups {
		if g.res {
			g.events = append(g.events, vh.Ev{"ev": "wait", "ms": slept.Milliseconds()})
		}
	}
	vh.Must(forAll(2), "e2e server cases (returning peers, second visit)")
	for j, job := range ups {
		if job.tc.Res != nil && job.tc.Res.Expire {
			upConnect(j, upUpds[j], 2)
		}
	}

	tr := vh.NewTrace(out)
	nh, nu := 0, 0
	for _, g := range groups {
		for _, e := range g.events {
			tr.Emit(e)
		}
		nh += len(g.hellos)
		if g.res {
			nh += len(g.hellos)
		}
	}
	for j := range ups {
		for _, e := range upEvs[j] {
			tr.Emit(e)
			nu++
		}
	}
	tr.Close()
	fmt.Fprintf(os.Stdout, "e2e groups=%d handshakes=%d upstream=%d events=%d waited_ms=%d\n", len(groups), nh, nu, tr.Len(), slept.Milliseconds())
	m.Close()
}
