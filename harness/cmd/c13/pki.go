package main

import (
	"crypto/ecdsa"
	"crypto/elliptic"
	crand "crypto/rand"
	gotls "crypto/tls"
	"crypto/x509"
	"crypto/x509/pkix"
	"encoding/pem"
	"fmt"
	"hash/fnv"
	"math/big"
	"strings"
	"sync"
	"time"
)

// pki generates, offline, everything the cases need: two client CAs (ca1, ca2), a CA for server
// certificates, server leaves per (context position, name set), client certificates per peer kind.
type pki struct {
	mu     sync.Mutex
	seed   int64
	cas    map[string]*authority
	srv    map[string]*leafPEM
	peers  map[string]*gotls.Certificate
	ups    map[string]*gotls.Certificate
	serial int64
	// the latest NotAfter of the short-lived certificates issued so far
	lastShort time.Time
}

// shortLife is the validity left to a short-lived certificate when it is issued. NotAfter has a resolution of one
// second (it is truncated), so the certificate is valid for another 1-2 s: long enough for the handshake that follows.
const shortLife = 2 * time.Second

type authority struct {
	cert *x509.Certificate
	key  *ecdsa.PrivateKey
	pem  string
}

type leafPEM struct{ cert, key, layout string }

func must(err error) {
	if err != nil {
		panic(err)
	}
}

func newPKI(seed int64) *pki {
	p := &pki{seed: seed, cas: map[string]*authority{}, srv: map[string]*leafPEM{}, peers: map[string]*gotls.Certificate{},
		ups: map[string]*gotls.Certificate{}, serial: 1000}
	for _, n := range []string{"ca1", "ca2", "srvca"} {
		p.cas[n] = p.newCA(n)
	}
	p.peers["none"] = &gotls.Certificate{}
	p.peers["ca1"] = p.clientCert("ca1", false)
	p.peers["ca2"] = p.clientCert("ca2", false)
	p.peers["exp1"] = p.clientCert("ca1", true)
	p.peers["self"] = p.clientCert("", false)
	// a valid ca1 leaf presented with a private key that is not its own
	stolen := p.clientCert("ca1", false)
	other, err := ecdsa.GenerateKey(elliptic.P256(), crand.Reader)
	must(err)
	p.peers["nokey1"] = &gotls.Certificate{Certificate: stolen.Certificate, PrivateKey: other}
	return p
}

func (p *pki) nextSerial() *big.Int {
	p.serial++
	return big.NewInt(p.serial)
}

func (p *pki) newCA(cn string) *authority {
	key, err := ecdsa.GenerateKey(elliptic.P256(), crand.Reader)
	must(err)
	t := &x509.Certificate{SerialNumber: p.nextSerial(), Subject: pkix.Name{CommonName: "verif " + cn, Organization: []string{"verif"}},
		NotBefore: time.Now().Add(-48 * time.Hour), NotAfter: time.Now().Add(240 * time.Hour),
		IsCA: true, BasicConstraintsValid: true, KeyUsage: x509.KeyUsageCertSign | x509.KeyUsageDigitalSignature}
	der, err := x509.CreateCertificate(crand.Reader, t, t, &key.PublicKey, key)
	must(err)
	c, err := x509.ParseCertificate(der)
	must(err)
	return &authority{cert: c, key: key, pem: string(pem.EncodeToMemory(&pem.Block{Type: "CERTIFICATE", Bytes: der}))}
}

func (p *pki) caPEM(name string) string {
	a := p.cas[name]
	if a == nil {
		panic("unknown ca " + name)
	}
	return a.pem
}

// issue signs a leaf; issuer "" = self-signed.
func (p *pki) issue(issuer string, t *x509.Certificate) (der []byte, key *ecdsa.PrivateKey) {
	key, err := ecdsa.GenerateKey(elliptic.P256(), crand.Reader)
	must(err)
	parent, pkey := t, key
	if issuer != "" {
		parent, pkey = p.cas[issuer].cert, p.cas[issuer].key
	}
	der, err = x509.CreateCertificate(crand.Reader, t, parent, &key.PublicKey, pkey)
	must(err)
	return der, key
}

func keyPEM(k *ecdsa.PrivateKey) string {
	b, err := x509.MarshalECPrivateKey(k)
	must(err)
	return string(pem.EncodeToMemory(&pem.Block{Type: "EC PRIVATE KEY", Bytes: b}))
}

func (p *pki) clientCert(issuer string, expired bool) *gotls.Certificate {
	t := &x509.Certificate{SerialNumber: p.nextSerial(), Subject: pkix.Name{CommonName: "client", Organization: []string{"peer"}},
		NotBefore: time.Now().Add(-24 * time.Hour), NotAfter: time.Now().Add(24 * time.Hour),
		KeyUsage: x509.KeyUsageDigitalSignature, ExtKeyUsage: []x509.ExtKeyUsage{x509.ExtKeyUsageClientAuth}}
	if expired {
		t.NotBefore, t.NotAfter = time.Now().Add(-48*time.Hour), time.Now().Add(-24*time.Hour)
	}
	der, key := p.issue(issuer, t)
	return &gotls.Certificate{Certificate: [][]byte{der}, PrivateKey: key}
}

// shortNotAfter is the end of validity of a short-lived certificate issued now, and remembers it for waitExpired.
func (p *pki) shortNotAfter() time.Time {
	na := time.Now().Add(shortLife).Truncate(time.Second)
	if na.After(p.lastShort) {
		p.lastShort = na
	}
	return na
}

// shortClient issues a client certificate of the CA that is valid now and runs out at the returned time.
func (p *pki) shortClient(issuer string) (*gotls.Certificate, time.Time) {
	p.mu.Lock()
	defer p.mu.Unlock()
	na := p.shortNotAfter()
	t := &x509.Certificate{SerialNumber: p.nextSerial(), Subject: pkix.Name{CommonName: "short-lived client", Organization: []string{"peer"}},
		NotBefore: time.Now().Add(-time.Hour), NotAfter: na,
		KeyUsage: x509.KeyUsageDigitalSignature, ExtKeyUsage: []x509.ExtKeyUsage{x509.ExtKeyUsageClientAuth}}
	der, key := p.issue(issuer, t)
	return &gotls.Certificate{Certificate: [][]byte{der}, PrivateKey: key}, na
}

// shortUpstream issues a server certificate for a stock upstream that is valid now and runs out at the returned time.
func (p *pki) shortUpstream(issuer string, names []string) (*gotls.Certificate, time.Time) {
	p.mu.Lock()
	defer p.mu.Unlock()
	na := p.shortNotAfter()
	t := &x509.Certificate{SerialNumber: p.nextSerial(), Subject: pkix.Name{CommonName: "short-lived upstream", Organization: []string{"upstream"}},
		DNSNames: names, NotBefore: time.Now().Add(-time.Hour), NotAfter: na,
		KeyUsage: x509.KeyUsageDigitalSignature, ExtKeyUsage: []x509.ExtKeyUsage{x509.ExtKeyUsageServerAuth}}
	if issuer == "self" {
		issuer = ""
	}
	der, key := p.issue(issuer, t)
	return &gotls.Certificate{Certificate: [][]byte{der}, PrivateKey: key}, na
}

// waitExpired sleeps until every short-lived certificate issued so far has run out; it returns how long it slept.
func (p *pki) waitExpired() time.Duration {
	p.mu.Lock()
	last := p.lastShort
	p.mu.Unlock()
	if last.IsZero() {
		return 0
	}
	d := time.Until(last.Add(30 * time.Millisecond))
	if d > 0 {
		time.Sleep(d)
		return d
	}
	return 0
}

// lateness says what the clock said about a certificate running out at notAfter during [t0, t1]: "no" it was valid
// throughout (x509 takes a certificate as expired when now is AFTER NotAfter), "yes" it had run out before, "edge"
// otherwise. A zero notAfter: the certificate does not run out during the run.
func lateness(notAfter, t0, t1 time.Time) string {
	switch {
	case notAfter.IsZero() || !t1.After(notAfter):
		return "no"
	case t0.After(notAfter):
		return "yes"
	}
	return "edge"
}

func (p *pki) peer(kind string) *gotls.Certificate {
	c := p.peers[kind]
	if c == nil {
		panic("unknown peer kind " + kind)
	}
	return c
}

// serverLeaf returns the certificate of the context at position pos answering to names.
// Subject.Organization carries the position, so that the client can tell which context answered.
// Where the names go (CommonName and/or SANs) is a seeded choice: buildMatch reads both.
func (p *pki) serverLeaf(pos int, names []string) (certPEM, key, layout string) {
	k := fmt.Sprintf("%d|%s", pos, strings.Join(names, ","))
	p.mu.Lock()
	defer p.mu.Unlock()
	if l := p.srv[k]; l != nil {
		return l.cert, l.key, l.layout
	}
	t := &x509.Certificate{SerialNumber: p.nextSerial(), Subject: pkix.Name{Organization: []string{fmt.Sprintf("ctx-%d", pos)}},
		NotBefore: time.Now().Add(-24 * time.Hour), NotAfter: time.Now().Add(24 * time.Hour),
		KeyUsage: x509.KeyUsageDigitalSignature, ExtKeyUsage: []x509.ExtKeyUsage{x509.ExtKeyUsageServerAuth}}
	layout = "san"
	if len(names) > 0 {
		hh := fnv.New32a()
		hh.Write([]byte(k))
		switch (int64(hh.Sum32()) + p.seed) % 3 {
		case 0: // first name only in the CommonName
			t.Subject.CommonName = names[0]
			t.DNSNames = names[1:]
			layout = "cn+san"
		case 1: // every name in the SANs, CommonName repeats the first
			t.Subject.CommonName = names[0]
			t.DNSNames = names
			layout = "cn=san"
		default:
			t.DNSNames = names
		}
	}
	der, pk := p.issue("srvca", t)
	l := &leafPEM{cert: string(pem.EncodeToMemory(&pem.Block{Type: "CERTIFICATE", Bytes: der})), key: keyPEM(pk), layout: layout}
	p.srv[k] = l
	return l.cert, l.key, l.layout
}

// upstreamLeaf is the certificate a stock TLS server (the upstream) presents to MOSN.
func (p *pki) upstreamLeaf(issuer string, names []string, expired bool) *gotls.Certificate {
	k := fmt.Sprintf("%s|%s|%v", issuer, strings.Join(names, ","), expired)
	p.mu.Lock()
	defer p.mu.Unlock()
	if c := p.ups[k]; c != nil {
		return c
	}
	t := &x509.Certificate{SerialNumber: p.nextSerial(), Subject: pkix.Name{CommonName: "upstream", Organization: []string{"upstream"}},
		DNSNames: names, NotBefore: time.Now().Add(-24 * time.Hour), NotAfter: time.Now().Add(24 * time.Hour),
		KeyUsage: x509.KeyUsageDigitalSignature, ExtKeyUsage: []x509.ExtKeyUsage{x509.ExtKeyUsageServerAuth}}
	if expired {
		t.NotBefore, t.NotAfter = time.Now().Add(-48*time.Hour), time.Now().Add(-24*time.Hour)
	}
	if issuer == "self" {
		issuer = ""
	}
	der, key := p.issue(issuer, t)
	c := &gotls.Certificate{Certificate: [][]byte{der}, PrivateKey: key}
	p.ups[k] = c
	return c
}
