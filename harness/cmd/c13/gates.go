package main

// Forcing the order of two writers of the effective TLS policy (an SDS secret rotation and a tls config update of the
// owning listener / cluster) on the real objects. The only hook needed is one the code offers: callbacks registered with
// mtls.RegisterTlsContextCallback run at the end of newTLSContext, i.e. between "context built" and "context stored".
// A writer goroutine registers itself; the callback parks it at its first build until the schedule releases it.

import (
	"bytes"
	"fmt"
	"runtime"
	"strconv"
	"sync"
	"sync/atomic"
	"time"

	"mosn.io/mosn/pkg/mtls"
)

type gate struct {
	arrived chan struct{}
	release chan struct{}
	once    sync.Once
	relOnce sync.Once
}

func (g *gate) open() { g.relOnce.Do(func() { close(g.release) }) }

var (
	gatesArmed int32
	gatesMu    sync.Mutex
	gatesByG   = map[uint64]*gate{}
)

func goid() uint64 {
	var buf [64]byte
	b := buf[:runtime.Stack(buf[:], false)]
	b = bytes.TrimPrefix(b, []byte("goroutine "))
	if i := bytes.IndexByte(b, ' '); i > 0 {
		id, _ := strconv.ParseUint(string(b[:i]), 10, 64)
		return id
	}
	return 0
}

func init() {
	mtls.RegisterTlsContextCallback(func(mtls.TlsContext) {
		if atomic.LoadInt32(&gatesArmed) == 0 {
			return
		}
		gatesMu.Lock()
		g := gatesByG[goid()]
		gatesMu.Unlock()
		if g != nil {
			g.once.Do(func() { // only the writer's first build is a gate
				close(g.arrived)
				<-g.release
			})
		}
	})
}

// raceMu keeps races apart that would disturb each other: a validation (CA) rotation holds the process-wide
// secretManager mutex while it is parked at its gate, which blocks the writers of every other race.
var raceMu sync.RWMutex

func raceLock(rotField string) func() {
	if rotField == "ca" {
		raceMu.Lock()
		return raceMu.Unlock
	}
	raceMu.RLock()
	return raceMu.RUnlock
}

type writer struct {
	g    *gate
	done chan error
}

func startWriter(fn func() error) *writer {
	w := &writer{g: &gate{arrived: make(chan struct{}), release: make(chan struct{})}, done: make(chan error, 1)}
	ready := make(chan struct{})
	go func() {
		id := goid()
		gatesMu.Lock()
		gatesByG[id] = w.g
		gatesMu.Unlock()
		atomic.AddInt32(&gatesArmed, 1)
		close(ready)
		err := fn()
		gatesMu.Lock()
		delete(gatesByG, id)
		gatesMu.Unlock()
		atomic.AddInt32(&gatesArmed, -1)
		w.done <- err
	}()
	<-ready
	return w
}

// gateWait is how long the schedule waits for a step before it gives the step up: a writer that is blocked by the
// other one (a lock the schedule did not know about) cannot be forced, the schedule degrades and the run goes on.
const gateWait = 80 * time.Millisecond

// runSchedule executes the two writers R (rotation) and U (update) following sched, a sequence over
// "Ra" (start R, up to its built context), "Rb" (let R store and return), "Ua", "Ub".
// followed reports whether every step happened in the order asked for. Whatever happened, both writers have
// returned when runSchedule returns: the resulting objects are judged, not the schedule.
func runSchedule(sched []string, fns map[string]func() error) (followed bool, err error) {
	followed = true
	ws := map[string]*writer{}
	finished := map[string]bool{}
	note := func(name string, e error) {
		finished[name] = true
		if e != nil && err == nil {
			err = fmt.Errorf("writer %s: %v", name, e)
		}
	}
	for _, tok := range sched {
		name, phase := tok[:1], tok[1:]
		switch phase {
		case "a":
			w := startWriter(fns[name])
			ws[name] = w
			select {
			case <-w.g.arrived:
			case e := <-w.done:
				note(name, e)
			case <-time.After(gateWait):
				followed = false
			}
		case "b":
			w := ws[name]
			if w == nil || finished[name] {
				continue
			}
			select {
			case <-w.g.arrived:
			case e := <-w.done:
				note(name, e)
				continue
			case <-time.After(gateWait):
				followed = false
			}
			w.g.open()
			select {
			case e := <-w.done:
				note(name, e)
			case <-time.After(gateWait):
				followed = false
			}
		}
	}
	for name, w := range ws {
		w.g.open()
		if finished[name] {
			continue
		}
		select {
		case e := <-w.done:
			note(name, e)
		case <-time.After(ioTimeout):
			return followed, fmt.Errorf("writer %s did not return", name)
		}
	}
	return followed, err
}
