// Driver for C13: replays the cases TLC enumerates from spec/tls/TLSSelect into the real
// pkg/mtls context managers and records what a stock crypto/tls peer observed.
//
//	side "srv": real NewTLSServerContextManager (static and SDS backed contexts) behind a loopback TCP
//	            listener; a stock crypto/tls client (or a plaintext client) connects.
//	side "up" : real NewTLSClientContextManager.Conn towards a stock crypto/tls server.
//
// The driver takes no decision: TLC validates the recorded trace against the specification.
package main

import (
	"context"
	gotls "crypto/tls"
	"encoding/json"
	"flag"
	"fmt"
	"math/rand"
	"net"
	"os"
	"sort"
	"strings"
	"sync"
	"time"

	v2 "mosn.io/mosn/pkg/config/v2"
	"mosn.io/mosn/pkg/log"
	"mosn.io/mosn/pkg/mtls"
	"mosn.io/mosn/pkg/types"
	"verif/vh"
)

type ctxCase struct {
	Names   [][]string `json:"names"`
	Sn      []string   `json:"sn"`
	Alpn    []string   `json:"alpn"`
	Ready   bool       `json:"ready"`
	Verify  bool       `json:"verify"`
	Require bool       `json:"require"`
	Ca      string     `json:"ca"`
	// source of the material, enumerated by TLC for the material histories ("" = left to the driver):
	// inline PEM, a file in the scratch directory, or SDS
	CaSrc    string `json:"casrc"`
	CertSrc  string `json:"certsrc"`
	CaPath   int    `json:"capath"`
	CertPath int    `json:"certpath"`
}

type helloCase struct {
	Sni  []string `json:"sni"`
	Up   bool     `json:"up"`
	Alpn []string `json:"alpn"`
	Peer string   `json:"peer"`
	Vers int      `json:"vers"`
}

type upCfg struct {
	Sn   []string `json:"sn"`
	Skip bool     `json:"skip"`
	Ca   string   `json:"ca"`
	// source of ca_cert ("" = left to the driver)
	CaSrc  string `json:"casrc"`
	CaPath int    `json:"capath"`
}

type upCert struct {
	Names   [][]string `json:"names"`
	Ca      string     `json:"ca"`
	Expired bool       `json:"expired"`
	// issued short-lived: valid when MOSN connects first, run out when it connects again (returning cases)
	Short bool `json:"short"`
}

// resCase marks a returning peer: a first connection under the initial configuration, then the update history and / or
// (Expire) the end of validity of its short-lived certificate, then a second connection offering the session ticket.
type resCase struct {
	Expire bool `json:"expire"`
}

// updCase is a runtime update of one field of the context at Pos (0: the cluster tls config of an upstream case).
type updCase struct {
	Pos   int             `json:"pos"`
	Field string          `json:"field"`
	Val   json.RawMessage `json:"val"`
	// how the new material is configured: "inline", "newpath" (another file), "samepath" (the same file rewritten),
	// "push" (SDS), "cfg"; "" = left to the driver (depends on how it backs the context)
	How string `json:"how"`
}

// filesDir holds the certificate files of the cases whose material comes from files (inside the scratch directory).
var filesDir string

func writeFile(name, content string) string {
	path := filesDir + "/" + name
	vh.Must(os.WriteFile(path, []byte(content), 0600), "write "+path)
	return path
}

func howOf(u updCase) string {
	if u.How == "" {
		return "auto"
	}
	return u.How
}

// updatePath names the way an update took, for the failure signature.
func updatePath(sdsPush bool, how string) string {
	switch {
	case sdsPush:
		return "sds-push"
	case how == "samepath":
		return "config-update:same-file-rewritten"
	case how == "newpath":
		return "config-update:other-file"
	case how == "inline":
		return "config-update:inline-material"
	}
	return "config-update"
}

type tcase struct {
	// a race case: upds = [SDS rotation, config update] run by two goroutines following Sched
	Race  bool       `json:"race"`
	Sched []string   `json:"sched"`
	Side  string     `json:"side"`
	Ctxs  []ctxCase  `json:"ctxs"`
	Upds  []updCase  `json:"upds"`
	Insp  bool       `json:"insp"`
	First string     `json:"first"`
	Hello *helloCase `json:"hello"`
	Cfg   *upCfg     `json:"cfg"`
	Cert  *upCert    `json:"cert"`
	Res   *resCase   `json:"res"`
}

func dotted(labels []string) string { return strings.Join(labels, ".") }

func nonNil(s []string) []string {
	if s == nil {
		return []string{}
	}
	return s
}

// ---------------------------------------------------------------- mock SDS client

type sdsMock struct {
	mu  sync.Mutex
	cbs map[string]types.SdsUpdateCallbackFunc
}

func (m *sdsMock) AddUpdateCallback(name string, cb types.SdsUpdateCallbackFunc) error {
	m.mu.Lock()
	m.cbs[name] = cb
	m.mu.Unlock()
	return nil
}
func (m *sdsMock) DeleteUpdateCallback(name string) error {
	m.mu.Lock()
	delete(m.cbs, name)
	m.mu.Unlock()
	return nil
}
func (m *sdsMock) RequireSecret(name string) {}
func (m *sdsMock) FetchSecret(ctx context.Context, name string) (*types.SdsSecret, error) {
	return nil, fmt.Errorf("not supported")
}
func (m *sdsMock) SetSecret(name string, secret *types.SdsSecret) {
	m.mu.Lock()
	cb := m.cbs[name]
	m.mu.Unlock()
	if cb != nil {
		cb(name, secret)
	}
}
func (m *sdsMock) AckResponse(resp interface{}) {}

// ---------------------------------------------------------------- server side

type group struct {
	idx    int
	ctxs   []ctxCase
	upds   []updCase
	race  bool
	sched []string
	// variant decides how ready contexts are backed: "seed" (seeded mix), "static", "sds".
	// A group with an update history is run as "static" and as "sds", so that every update path is taken under every seed.
	variant string
	insp    bool
	hellos []tcase
	events []vh.Ev
	// returning peers (every hello of the group is one): the peers' state between their two connections, and the
	// manager serving the group after the update history (direct mode)
	res  bool
	rets []*returning
	mng  types.TLSContextManager
}

type srvRes struct {
	kind string // "tls" | "plain" | "closed"
	err  error
}

const ioTimeout = 8 * time.Second

func serve(mng types.TLSContextManager, raw net.Conn) srvRes {
	defer raw.Close()
	raw.SetDeadline(time.Now().Add(ioTimeout))
	c, err := mng.Conn(raw)
	if err != nil {
		return srvRes{"closed", err}
	}
	raw.SetDeadline(time.Now().Add(ioTimeout)) // Peek() clears the read deadline
	one := make([]byte, 1)
	if tc, ok := c.(*mtls.TLSConn); ok {
		if err := tc.Handshake(); err != nil {
			return srvRes{"tls", err}
		}
		if _, err := tc.Write([]byte("T")); err != nil {
			return srvRes{"tls", err}
		}
		tc.Read(one) // wait until the client is done
		return srvRes{"tls", nil}
	}
	// the manager handed the connection over as plaintext: serve it as the plaintext application would
	buf := make([]byte, 64)
	if n, _ := c.Read(buf); n > 0 {
		c.Write([]byte("P"))
	}
	c.Read(one)
	return srvRes{"plain", nil}
}

type worker struct {
	ln  net.Listener
	pki *pki
}

// handshake runs one case. mng != nil: the manager is served in-process behind w.ln (direct mode);
// mng == nil: addr is a listener of an in-process MOSN whose tcp proxy echoes what it receives (e2e mode).
// ret != nil: the client is a returning peer (own session cache, own certificate).
func (w *worker) handshake(mng types.TLSContextManager, addr string, tc tcase, ret *returning) (vh.Ev, error) {
	h := tc.Hello
	ev := vh.Ev{"ev": "hs", "first": tc.First, "sni": nonNil(h.Sni), "up": h.Up, "alpn": nonNil(h.Alpn),
		"peer": h.Peer, "vers": h.Vers, "plain": false, "cert": 0, "ok": false, "ticket": false, "resumed": false, "late": "no"}
	t0 := time.Now()
	e2e := mng == nil
	if !e2e {
		addr = w.ln.Addr().String()
	}
	cc, err := net.DialTimeout("tcp", addr, ioTimeout)
	if err != nil {
		return nil, err
	}
	defer cc.Close()
	done := make(chan srvRes, 1)
	if e2e {
		done <- srvRes{"e2e", nil}
	} else {
		sc, err := w.ln.Accept()
		if err != nil {
			return nil, err
		}
		go func() { done <- serve(mng, sc) }()
	}
	cc.SetDeadline(time.Now().Add(ioTimeout))
	one := make([]byte, 1)
	var cerr error
	if tc.First == "plain" {
		cc.Write([]byte("PLAINTEXT REQUEST\n"))
		n, e := cc.Read(one)
		cerr = e
		if n == 1 && one[0] == 'P' {
			ev["plain"] = true
		}
	} else {
		sni := dotted(h.Sni)
		if h.Up {
			sni = strings.ToUpper(sni)
		}
		cfg := &gotls.Config{ServerName: sni, InsecureSkipVerify: true, NextProtos: h.Alpn}
		if h.Vers == 12 {
			cfg.MinVersion, cfg.MaxVersion = gotls.VersionTLS12, gotls.VersionTLS12
		} else {
			cfg.MinVersion, cfg.MaxVersion = gotls.VersionTLS13, gotls.VersionTLS13
		}
		var peer *gotls.Certificate
		if ret != nil {
			peer = ret.cert
			ret.cache.begin()
			cfg.ClientSessionCache = ret.cache
		} else {
			peer = w.pki.peer(h.Peer)
		}
		cfg.GetClientCertificate = func(*gotls.CertificateRequestInfo) (*gotls.Certificate, error) { return peer, nil }
		tconn := gotls.Client(cc, cfg)
		cerr = tconn.Handshake()
		st := tconn.ConnectionState()
		ev["resumed"] = st.DidResume
		if len(st.PeerCertificates) > 0 && len(st.PeerCertificates[0].Subject.Organization) > 0 {
			var pos int
			fmt.Sscanf(st.PeerCertificates[0].Subject.Organization[0], "ctx-%d", &pos)
			ev["cert"] = pos
		}
		if cerr == nil {
			if e2e { // the echo upstream sends back what the client sent
				tconn.Write([]byte("T"))
			}
			n, e := tconn.Read(one)
			cerr = e
			if n == 1 && one[0] == 'T' {
				ev["ok"] = true
			}
		}
		ev["proto"] = st.NegotiatedProtocol
		if ret != nil {
			ev["ticket"] = ret.cache.held()
			ev["late"] = lateness(ret.notAfter, t0, time.Now())
		}
	}
	cc.Close()
	sr := <-done
	ev["served"] = sr.kind
	if sr.err != nil {
		ev["serr"] = short(sr.err)
		if ev["ok"] == true { // cannot happen: the client read the byte written after the server handshake
			ev["ok"] = false
		}
	}
	if cerr != nil {
		ev["cerr"] = short(cerr)
	}
	for _, e := range []error{cerr, sr.err} {
		if ne, ok := e.(net.Error); ok && ne.Timeout() {
			return ev, fmt.Errorf("timeout: %v", e)
		}
	}
	return ev, nil
}

func short(e error) string {
	s := e.Error()
	if len(s) > 90 {
		s = s[:90]
	}
	return s
}

type pendingSecret struct{ val, cert, caPEM, certPEM, keyPEM string }

// liveGroup is a group while it runs: the current abstract contexts (after the updates applied so far).
type liveGroup struct {
	g     *group
	p     *pki
	mock  *sdsMock
	lname string
	cur   []ctxCase
	insp  bool // the listener's inspector flag after the updates applied so far
	kinds []string
}

func newLive(g *group, p *pki, mock *sdsMock) *liveGroup {
	lg := &liveGroup{g: g, p: p, mock: mock, lname: fmt.Sprintf("g%d", g.idx), insp: g.insp, kinds: make([]string, len(g.ctxs))}
	lg.cur = append(lg.cur, g.ctxs...)
	rng := rand.New(rand.NewSource(vh.Seed()*1000003 + int64(g.idx)))
	for i, c := range g.ctxs {
		switch {
		case !c.Ready:
			lg.kinds[i] = "sds-pending"
		case c.CaSrc != "": // the source of the material is part of the case
			lg.kinds[i] = "static"
			if c.CaSrc == "sds" {
				lg.kinds[i] = "sds-ready"
			}
		case g.variant == "sds" || (g.variant == "seed" && rng.Intn(3) == 0):
			lg.kinds[i] = "sds-ready"
		default:
			lg.kinds[i] = "static"
		}
	}
	return lg
}

func sortedNames(nn [][]string) []string {
	names := make([]string, len(nn))
	for k, n := range nn {
		names[k] = dotted(n)
	}
	sort.Strings(names)
	return names
}

func (lg *liveGroup) sdsNames(pos int) (val, cert string) {
	return fmt.Sprintf("val-%s-%d", lg.lname, pos), fmt.Sprintf("cert-%s-%d", lg.lname, pos)
}

// tlsContexts turns the current abstract contexts into listener TLS configs. A ready context is static or SDS backed
// (its secrets arrive after the listener exists: `secrets`); a not-ready one is SDS without secret.
func (lg *liveGroup) tlsContexts() (tlsCfgs []v2.TLSConfig, jctx []vh.Ev, secrets []pendingSecret) {
	jctx = make([]vh.Ev, len(lg.cur))
	for i, c := range lg.cur {
		pos := i + 1
		certPEM, keyPEM, layout := lg.p.serverLeaf(pos, sortedNames(c.Names))
		cfg := v2.TLSConfig{Status: true, ServerName: dotted(c.Sn), VerifyClient: c.Verify, RequireClientCert: c.Require,
			ALPN: strings.Join(c.Alpn, ","), CACert: lg.p.caPEM(c.Ca)}
		casrc, certsrc := "inline", "inline"
		if lg.kinds[i] == "static" {
			cfg.CertChain, cfg.PrivateKey = certPEM, keyPEM
			// material from files: the file named by the current path id holds the material configured NOW (an update
			// "samepath" therefore rewrites the file in place, "newpath" creates another one)
			if c.CaSrc == "file" {
				casrc = "file"
				cfg.CACert = writeFile(fmt.Sprintf("%s-ca-%d-%d.pem", lg.lname, pos, c.CaPath), lg.p.caPEM(c.Ca))
			}
			if c.CertSrc == "file" {
				certsrc = "file"
				cfg.CertChain = writeFile(fmt.Sprintf("%s-cert-%d-%d.pem", lg.lname, pos, c.CertPath), certPEM)
				cfg.PrivateKey = writeFile(fmt.Sprintf("%s-key-%d-%d.pem", lg.lname, pos, c.CertPath), keyPEM)
			}
		} else {
			casrc, certsrc = "sds", "sds"
			val, cert := lg.sdsNames(pos)
			cfg.CACert = ""
			cfg.SdsConfig = &v2.SdsConfig{CertificateConfig: &v2.SecretConfigWrapper{Name: cert},
				ValidationConfig: &v2.SecretConfigWrapper{Name: val}}
			if lg.kinds[i] == "sds-ready" {
				secrets = append(secrets, pendingSecret{val, cert, lg.p.caPEM(c.Ca), certPEM, keyPEM})
			}
		}
		tlsCfgs = append(tlsCfgs, cfg)
		nn := c.Names
		if nn == nil {
			nn = [][]string{}
		}
		jctx[i] = vh.Ev{"names": nn, "sn": nonNil(c.Sn), "alpn": nonNil(c.Alpn), "ready": c.Ready, "verify": c.Verify,
			"require": c.Require, "ca": c.Ca, "kind": lg.kinds[i], "layout": layout,
			"casrc": casrc, "certsrc": certsrc, "capath": c.CaPath, "certpath": c.CertPath}
	}
	return
}

func (lg *liveGroup) listener() *v2.Listener {
	tlsCfgs, _, _ := lg.tlsContexts()
	lc := &v2.Listener{}
	lc.Name = lg.lname
	lc.Inspector = lg.insp
	lc.FilterChains = []v2.FilterChain{{TLSContexts: tlsCfgs}}
	return lc
}

// apply pushes one update into the running objects. An SDS backed context receives a new validation CA / leaf
// certificate as a secret push on the running provider; everything else is a TLS config update of the listener
// (reconfigure: called with the new context list), which re-configures SDS providers in place.
func (lg *liveGroup) apply(u updCase, reconfigure func() error) (vh.Ev, error) {
	if u.Pos == 0 { // the listener's own inspector flag: always a listener update
		if u.Field != "inspector" {
			return nil, fmt.Errorf("unknown listener update field %q", u.Field)
		}
		if err := json.Unmarshal(u.Val, &lg.insp); err != nil {
			return nil, err
		}
		err := reconfigure()
		return vh.Ev{"ev": "upd", "pos": 0, "field": u.Field, "val": lg.insp, "how": howOf(u), "path": "config-update", "kind": "listener"}, err
	}
	if _, err := lg.mutate(u); err != nil {
		return nil, err
	}
	var err error
	push := lg.isPush(u)
	if push {
		lg.pushSecret(u)
	} else {
		err = reconfigure()
	}
	return lg.updEvent(u, updatePath(push, u.How)), err
}

// mutate applies the update to the abstract context list (what is configured from now on).
func (lg *liveGroup) mutate(u updCase) (int, error) {
	i := u.Pos - 1
	if i < 0 || i >= len(lg.cur) {
		return 0, fmt.Errorf("update position %d out of range", u.Pos)
	}
	c := lg.cur[i]
	var err error
	switch u.Field {
	case "ca":
		err = json.Unmarshal(u.Val, &c.Ca)
	case "names":
		c.Names = nil
		err = json.Unmarshal(u.Val, &c.Names)
	case "sn":
		c.Sn = nil
		err = json.Unmarshal(u.Val, &c.Sn)
	case "alpn":
		c.Alpn = nil
		err = json.Unmarshal(u.Val, &c.Alpn)
	case "verify":
		err = json.Unmarshal(u.Val, &c.Verify)
	case "require":
		err = json.Unmarshal(u.Val, &c.Require)
	default:
		err = fmt.Errorf("unknown update field %q", u.Field)
	}
	if err != nil {
		return 0, err
	}
	if u.How == "newpath" && u.Field == "ca" {
		c.CaPath++
	}
	if u.How == "newpath" && u.Field == "names" {
		c.CertPath++
	}
	lg.cur[i] = c
	return i, nil
}

// isPush: the update reaches an SDS backed context as a secret push on the running provider.
func (lg *liveGroup) isPush(u updCase) bool {
	return u.Pos >= 1 && lg.kinds[u.Pos-1] == "sds-ready" && (u.Field == "ca" || u.Field == "names")
}

func (lg *liveGroup) pushSecret(u updCase) {
	c := lg.cur[u.Pos-1]
	val, cert := lg.sdsNames(u.Pos)
	if u.Field == "ca" {
		lg.mock.SetSecret(val, &types.SdsSecret{Name: val, ValidationPEM: lg.p.caPEM(c.Ca)})
		return
	}
	certPEM, keyPEM, _ := lg.p.serverLeaf(u.Pos, sortedNames(c.Names))
	lg.mock.SetSecret(cert, &types.SdsSecret{Name: cert, CertificatePEM: certPEM, PrivateKeyPEM: keyPEM})
}

func (lg *liveGroup) updEvent(u updCase, path string) vh.Ev {
	var v interface{}
	json.Unmarshal(u.Val, &v)
	return vh.Ev{"ev": "upd", "pos": u.Pos, "field": u.Field, "val": v, "how": howOf(u), "path": path, "kind": lg.kinds[u.Pos-1]}
}

// raceUpdates runs upds[0] (an SDS secret rotation) and upds[1] (a tls config update of the listener) in two
// goroutines in the order asked for by the schedule. Both are configured when it returns.
func (lg *liveGroup) raceUpdates(reconfigure func() error) ([]vh.Ev, error) {
	rot, cu := lg.g.upds[0], lg.g.upds[1]
	if !lg.isPush(rot) {
		return nil, fmt.Errorf("race: %+v is not an SDS push", rot)
	}
	for _, u := range lg.g.upds {
		if _, err := lg.mutate(u); err != nil {
			return nil, err
		}
	}
	defer raceLock(rot.Field)()
	followed, err := runSchedule(lg.g.sched, map[string]func() error{
		"R": func() error { lg.pushSecret(rot); return nil },
		"U": reconfigure,
	})
	e1 := lg.updEvent(rot, "sds-push:racing-config-update")
	e2 := lg.updEvent(cu, "config-update:racing-sds-rotation")
	for _, e := range []vh.Ev{e1, e2} {
		e["sched"], e["followed"] = lg.g.sched, followed
	}
	return []vh.Ev{e1, e2}, err
}

func deliver(mock *sdsMock, later []pendingSecret) {
	for _, p := range later {
		mock.SetSecret(p.val, &types.SdsSecret{Name: p.val, ValidationPEM: p.caPEM})
		mock.SetSecret(p.cert, &types.SdsSecret{Name: p.cert, CertificatePEM: p.certPEM, PrivateKeyPEM: p.keyPEM})
	}
}

func (w *worker) runGroup(g *group, mock *sdsMock) error {
	lg := newLive(g, w.pki, mock)
	_, jctx, secrets := lg.tlsContexts()
	mng, err := mtls.NewTLSServerContextManager(lg.listener())
	if err != nil {
		return fmt.Errorf("NewTLSServerContextManager: %v", err)
	}
	// the secrets of the ready SDS contexts arrive after the listener was built
	deliver(mock, secrets)
	g.events = append(g.events, vh.Ev{"ev": "mgr", "ctxs": jctx, "insp": g.insp, "g": g.idx, "via": "direct", "variant": g.variant})
	// what server/handler.go does on a listener update: a new manager from the updated config, same listener name
	reconfigure := func() error {
		m, err := mtls.NewTLSServerContextManager(lg.listener())
		if err == nil {
			mng = m
		}
		return err
	}
	if g.race {
		evs, err := lg.raceUpdates(reconfigure)
		if err != nil {
			return fmt.Errorf("group %d race %v: %v", g.idx, g.sched, err)
		}
		g.events = append(g.events, evs...)
		return w.hellos(g, mng, "")
	}
	if g.res { // returning peers connect first under the initial configuration
		if err := w.firstVisits(g, mng, ""); err != nil {
			return err
		}
	}
	for _, u := range g.upds {
		ev, err := lg.apply(u, reconfigure)
		if err != nil {
			return fmt.Errorf("group %d update %+v: %v", g.idx, u, err)
		}
		g.events = append(g.events, ev)
	}
	if g.res { // ... and again (worker.hellos) once every short-lived certificate of the run has run out
		g.mng = mng
		return nil
	}
	return w.hellos(g, mng, "")
}

func (w *worker) hellos(g *group, mng types.TLSContextManager, addr string) error {
	for k, tc := range g.hellos {
		var ev vh.Ev
		var err error
		var ret *returning
		if g.res {
			ret = g.rets[k]
		}
		for attempt := 0; attempt < 3; attempt++ {
			ev, err = w.handshake(mng, addr, tc, ret)
			if err == nil {
				break
			}
		}
		if err != nil {
			return fmt.Errorf("group %d hello %+v: %v (event %v)", g.idx, *tc.Hello, err, ev)
		}
		g.events = append(g.events, ev)
	}
	return nil
}

// ---------------------------------------------------------------- upstream side

// upLive is the cluster tls config of an upstream case while its update history is pushed.
// variant "static": material in the config (inline PEM or a file), every update is a config update: a new manager
// (direct) / a cluster update (e2e) from the new config. variant "sds": SDS backed client context; a CA rotation is a
// secret push on the running provider, the other fields a config update of the same provider (same cluster name).
type upLive struct {
	p         *pki
	mock      *sdsMock
	cur       upCfg
	variant   string
	name      string
	val, cert string
	certGen   int
}

type upJob struct {
	tc      tcase
	variant string
}

// upJobs decides how each upstream case is backed: as the case says, else both ways for an update history,
// else a seeded choice.
func upJobs(ups []tcase) (jobs []upJob) {
	for i, tc := range ups {
		switch {
		case tc.Cfg.CaSrc == "sds":
			jobs = append(jobs, upJob{tc, "sds"})
		case tc.Cfg.CaSrc != "":
			jobs = append(jobs, upJob{tc, "static"})
		case len(tc.Upds) > 0:
			jobs = append(jobs, upJob{tc, "static"}, upJob{tc, "sds"})
		case (vh.Seed()+int64(i))%3 == 0:
			jobs = append(jobs, upJob{tc, "sds"})
		default:
			jobs = append(jobs, upJob{tc, "static"})
		}
	}
	return
}

func newUpLive(p *pki, mock *sdsMock, j upJob, name string) *upLive {
	return &upLive{p: p, mock: mock, cur: *j.tc.Cfg, variant: j.variant, name: name, val: "val-" + name, cert: "cert-" + name}
}

func (u *upLive) casrc() string {
	switch {
	case u.variant == "sds":
		return "sds"
	case u.cur.CaSrc == "file":
		return "file"
	}
	return "inline"
}

func (u *upLive) tlsConfig() *v2.TLSConfig {
	cfg := &v2.TLSConfig{Status: true, ServerName: dotted(u.cur.Sn), InsecureSkip: u.cur.Skip}
	switch u.casrc() {
	case "sds":
		cfg.SdsConfig = &v2.SdsConfig{CertificateConfig: &v2.SecretConfigWrapper{Name: u.cert},
			ValidationConfig: &v2.SecretConfigWrapper{Name: u.val}}
	case "file":
		cfg.CACert = writeFile(fmt.Sprintf("%s-ca-%d.pem", u.name, u.cur.CaPath), u.p.caPEM(u.cur.Ca))
	default:
		cfg.CACert = u.p.caPEM(u.cur.Ca)
	}
	return cfg
}

// deliver sends the first secrets of an SDS backed cluster context.
func (u *upLive) deliver() {
	if u.variant == "sds" {
		certPEM, keyPEM, _ := u.p.serverLeaf(0, []string{"mosn-client"})
		deliver(u.mock, []pendingSecret{{u.val, u.cert, u.p.caPEM(u.cur.Ca), certPEM, keyPEM}})
	}
}

func (u *upLive) cfgEvent(c upCfg) vh.Ev {
	return vh.Ev{"sn": nonNil(c.Sn), "skip": c.Skip, "ca": c.Ca, "casrc": u.casrc(), "capath": c.CaPath}
}

// mutate applies the update to the abstract cluster tls config.
func (u *upLive) mutate(upd updCase) error {
	switch upd.Field {
	case "ca":
		if upd.How == "newpath" {
			u.cur.CaPath++
		}
		return json.Unmarshal(upd.Val, &u.cur.Ca)
	case "sn":
		u.cur.Sn = nil
		return json.Unmarshal(upd.Val, &u.cur.Sn)
	case "skip":
		return json.Unmarshal(upd.Val, &u.cur.Skip)
	case "cert": // the cluster's own certificate is rotated: no field of the policy changes
		u.certGen++
		return nil
	}
	return fmt.Errorf("unknown upstream update field %q", upd.Field)
}

func (u *upLive) isPush(upd updCase) bool {
	return u.variant == "sds" && (upd.Field == "ca" || upd.Field == "cert")
}

func (u *upLive) pushSecret(upd updCase) {
	if upd.Field == "ca" {
		u.mock.SetSecret(u.val, &types.SdsSecret{Name: u.val, ValidationPEM: u.p.caPEM(u.cur.Ca)})
		return
	}
	certPEM, keyPEM, _ := u.p.serverLeaf(0, []string{fmt.Sprintf("mosn-client-%d", u.certGen)})
	u.mock.SetSecret(u.cert, &types.SdsSecret{Name: u.cert, CertificatePEM: certPEM, PrivateKeyPEM: keyPEM})
}

func updJSON(upd updCase, path string) vh.Ev {
	var v interface{}
	json.Unmarshal(upd.Val, &v)
	return vh.Ev{"pos": 0, "field": upd.Field, "val": v, "how": howOf(upd), "path": path}
}

// apply pushes one update; rebuild realises a config update with the new tls config.
func (u *upLive) apply(upd updCase, rebuild func(*v2.TLSConfig) error) (vh.Ev, error) {
	if err := u.mutate(upd); err != nil {
		return nil, err
	}
	push := u.isPush(upd)
	if push {
		u.pushSecret(upd)
	} else if err := rebuild(u.tlsConfig()); err != nil {
		return nil, err
	}
	return updJSON(upd, updatePath(push, upd.How)), nil
}

// history pushes the whole update history of the case: sequentially, or - a race case - the SDS rotation upds[0] and the
// cluster tls config update upds[1] in two goroutines following the schedule.
func (u *upLive) history(tc tcase, rebuild func(*v2.TLSConfig) error) ([]vh.Ev, error) {
	upds := []vh.Ev{}
	if !tc.Race {
		for _, upd := range tc.Upds {
			ev, err := u.apply(upd, rebuild)
			if err != nil {
				return nil, err
			}
			upds = append(upds, ev)
		}
		return upds, nil
	}
	rot, cu := tc.Upds[0], tc.Upds[1]
	if !u.isPush(rot) {
		return nil, fmt.Errorf("race: %+v is not an SDS push", rot)
	}
	for _, upd := range tc.Upds {
		if err := u.mutate(upd); err != nil {
			return nil, err
		}
	}
	cfg := u.tlsConfig()
	defer raceLock(rot.Field)()
	followed, err := runSchedule(tc.Sched, map[string]func() error{
		"R": func() error { u.pushSecret(rot); return nil },
		"U": func() error { return rebuild(cfg) },
	})
	e1, e2 := updJSON(rot, "sds-push:racing-config-update"), updJSON(cu, "config-update:racing-sds-rotation")
	for _, e := range []vh.Ev{e1, e2} {
		e["sched"], e["followed"] = tc.Sched, followed
	}
	return []vh.Ev{e1, e2}, err
}

// upManager builds the real clientContextManager of an upstream case and pushes the case's update history into it.
func upManager(p *pki, mock *sdsMock, j upJob, idx, attempt int) (types.TLSClientContextManager, vh.Ev, []vh.Ev, error) {
	name := fmt.Sprintf("up%d-%s-%d", idx, j.variant, attempt)
	u := newUpLive(p, mock, j, name)
	cfg0 := u.cfgEvent(u.cur)
	mng, err := mtls.NewTLSClientContextManager(name, u.tlsConfig())
	if err != nil {
		return nil, nil, nil, err
	}
	u.deliver()
	upds, err := u.history(j.tc, func(cfg *v2.TLSConfig) error {
		m, err := mtls.NewTLSClientContextManager(name, cfg) // what a cluster update does
		if err == nil {
			mng = m
		}
		return err
	})
	if err != nil {
		return nil, nil, nil, err
	}
	return mng, cfg0, upds, nil
}

func runUp(p *pki, mock *sdsMock, j upJob, idx, attempt int) (vh.Ev, error) {
	tc, variant := j.tc, j.variant
	names := make([]string, len(tc.Cert.Names))
	for i, n := range tc.Cert.Names {
		names[i] = dotted(n)
	}
	sort.Strings(names)
	leaf := p.upstreamLeaf(tc.Cert.Ca, names, tc.Cert.Expired)
	ln, err := net.Listen("tcp", "127.0.0.1:0")
	if err != nil {
		return nil, err
	}
	defer ln.Close()
	done := make(chan error, 1)
	go func() {
		c, err := ln.Accept()
		if err != nil {
			done <- err
			return
		}
		defer c.Close()
		c.SetDeadline(time.Now().Add(ioTimeout))
		s := gotls.Server(c, &gotls.Config{Certificates: []gotls.Certificate{*leaf}})
		if err := s.Handshake(); err != nil {
			done <- err
			return
		}
		s.Write([]byte("T"))
		one := make([]byte, 1)
		s.Read(one)
		done <- nil
	}()
	mng, cfg0, upds, err := upManager(p, mock, j, idx, attempt)
	if err != nil {
		return nil, fmt.Errorf("NewTLSClientContextManager: %v", err)
	}
	raw, err := net.DialTimeout("tcp", ln.Addr().String(), ioTimeout)
	if err != nil {
		return nil, err
	}
	defer raw.Close()
	nn := tc.Cert.Names
	ev := vh.Ev{"ev": "up", "upplain": false, "upds": upds, "variant": variant, "cfg": cfg0, "late": "no", "resumed": false,
		"cert": vh.Ev{"names": nn, "ca": tc.Cert.Ca, "expired": tc.Cert.Expired}, "ok": false}
	c, cerr := mng.Conn(raw)
	if cerr == nil {
		if _, isTLS := c.(*mtls.TLSConn); !isTLS {
			ev["nontls"] = true
		}
		c.SetDeadline(time.Now().Add(ioTimeout))
		one := make([]byte, 1)
		n, e := c.Read(one)
		cerr = e
		if n == 1 && one[0] == 'T' {
			ev["ok"] = true
		}
		c.Close()
	} else {
		ev["cerr"] = short(cerr)
	}
	raw.Close()
	serr := <-done
	if serr != nil {
		ev["serr"] = short(serr)
	}
	if ne, ok := cerr.(net.Error); ok && ne.Timeout() {
		return ev, fmt.Errorf("timeout: %v", cerr)
	}
	return ev, nil
}

// ---------------------------------------------------------------- main

func main() {
	cases := flag.String("cases", "", "cases file (JSON lines emitted by TLC)")
	out := flag.String("trace", "", "trace output")
	par := flag.Int("par", 8, "parallel workers")
	mode := flag.String("mode", "direct", "direct: context managers driven directly; e2e: through the listeners/clusters of an in-process MOSN")
	flag.Parse()
	if !vh.HooksCompiled() {
		vh.Must(fmt.Errorf("built without -tags verif"), "hooks")
	}
	// the forked crypto/tls (go1.12 vintage) offers TLS 1.3 only with GODEBUG=tls13=1; it reads the variable lazily.
	// With it MOSN serves 1.0-1.3, so that vers=12 cases run handshake_server.go and vers=13 cases handshake_server_tls13.go.
	if g := os.Getenv("GODEBUG"); g == "" {
		os.Setenv("GODEBUG", "tls13=1")
	} else if !strings.Contains(g, "tls13=") {
		os.Setenv("GODEBUG", g+",tls13=1")
	}
	log.DefaultLogger.SetLogLevel(log.FATAL)
	mock := &sdsMock{cbs: map[string]types.SdsUpdateCallbackFunc{}}
	mtls.VerifSetSdsClientFunc(func(cfg interface{}) types.SdsClient { return mock })
	p := newPKI(vh.Seed())
	wd, _ := os.Getwd() // the check runs the driver inside its scratch directory, removed afterwards
	filesDir = fmt.Sprintf("%s/c13-files-%s", wd, *mode)
	vh.Must(os.MkdirAll(filesDir, 0700), "files dir")

	groups := map[string]*group{}
	var order []*group
	var ups []tcase
	err := vh.ReadCases(*cases, func(raw json.RawMessage) error {
		var tc tcase
		var wrapped struct {
			C     *tcase   `json:"c"`
			Sched []string `json:"sched"`
		}
		if err := json.Unmarshal(raw, &wrapped); err == nil && wrapped.C != nil { // a race case with its schedule
			tc = *wrapped.C
			tc.Sched = wrapped.Sched
			if !tc.Race || len(tc.Upds) != 2 || len(tc.Sched) != 4 {
				return fmt.Errorf("malformed race case %s", raw)
			}
		} else if err := json.Unmarshal(raw, &tc); err != nil {
			return err
		}
		if tc.Side == "up" {
			ups = append(ups, tc)
			return nil
		}
		kb, _ := json.Marshal([]interface{}{tc.Ctxs, tc.Insp, tc.Upds, tc.Sched, tc.Res != nil})
		variants := []string{"seed"}
		if len(tc.Ctxs) > 0 && tc.Ctxs[0].CaSrc != "" {
			variants = []string{"explicit"} // the case says where the material of every context comes from
		} else if len(tc.Upds) > 0 {
			variants = []string{"static", "sds"}
		}
		for _, v := range variants {
			g := groups[string(kb)+v]
			if g == nil {
				g = &group{idx: len(order), ctxs: tc.Ctxs, upds: tc.Upds, variant: v, insp: tc.Insp, race: tc.Race, sched: tc.Sched, res: tc.Res != nil}
				groups[string(kb)+v] = g
				order = append(order, g)
			}
			g.hellos = append(g.hellos, tc)
		}
		return nil
	})
	vh.Must(err, "read cases")
	if *mode == "e2e" {
		runE2E(p, mock, order, ups, *out, *par)
		return
	}

	workers := make([]*worker, *par)
	for i := range workers {
		ln, err := net.Listen("tcp", "127.0.0.1:0")
		vh.Must(err, "listen")
		defer ln.Close()
		workers[i] = &worker{ln: ln, pki: p}
	}
	// each worker takes groups off the queue and runs f on them
	forAll := func(gs []*group, f func(*worker, *group) error) error {
		work := make(chan *group)
		var wg sync.WaitGroup
		var failMu sync.Mutex
		var fail error
		for _, w := range workers {
			wg.Add(1)
			go func(w *worker) {
				defer wg.Done()
				for g := range work {
					if err := f(w, g); err != nil {
						failMu.Lock()
						if fail == nil {
							fail = err
						}
						failMu.Unlock()
					}
				}
			}(w)
		}
		for _, g := range gs {
			work <- g
		}
		close(work)
		wg.Wait()
		return fail
	}
	// returning peers (server side and upstream side) pay their first visit before everything else, so that their
	// short-lived certificates run out while the other cases are replayed; they come back at the very end
	jobs := upJobs(ups)
	upEvs := make([][]vh.Ev, len(jobs))
	upErr := make([]error, len(jobs))
	upRets := make([]*upReturning, len(jobs))
	var uwg sync.WaitGroup
	sem := make(chan struct{}, *par)
	forJobs := func(f func(i int, j upJob)) {
		for i, j := range jobs {
			if j.tc.Res != nil {
				continue
			}
			uwg.Add(1)
			sem <- struct{}{}
			go func(i int, j upJob) {
				defer uwg.Done()
				defer func() { <-sem }()
				f(i, j)
			}(i, j)
		}
		uwg.Wait()
	}
	// (one after the other: were sessions ever cached on MOSN's side, the visits of two cases could not get mixed up.)
	// A case that does not wait for a certificate to run out comes back at once.
	for i, j := range jobs {
		if j.tc.Res == nil {
			continue
		}
		var ev vh.Ev
		upRets[i], ev, upErr[i] = upFirstVisit(p, mock, j, i)
		upEvs[i] = append(upEvs[i], ev)
		if upErr[i] == nil && !j.tc.Res.Expire {
			ev, upErr[i] = upRets[i].secondVisit()
			upEvs[i] = append(upEvs[i], ev)
		}
	}
	var resGroups, plainGroups []*group
	for _, g := range order {
		if g.res {
			resGroups = append(resGroups, g)
		} else {
			plainGroups = append(plainGroups, g)
		}
	}
	run := func(w *worker, g *group) error { return w.runGroup(g, mock) }
	vh.Must(forAll(resGroups, run), "server cases (returning peers, first visit)")
	vh.Must(forAll(plainGroups, run), "server cases")
	forJobs(func(i int, j upJob) {
		for attempt := 0; attempt < 3; attempt++ {
			var ev vh.Ev
			ev, upErr[i] = runUp(p, mock, j, i, attempt)
			upEvs[i] = []vh.Ev{ev}
			if upErr[i] == nil {
				break
			}
		}
	})
	slept := p.waitExpired()
	vh.Must(forAll(resGroups, func(w *worker, g *group) error {
		g.events = append(g.events, vh.Ev{"ev": "wait", "ms": slept.Milliseconds()})
		return w.hellos(g, g.mng, "")
	}), "server cases (returning peers, second visit)")
	for i, j := range jobs {
		if j.tc.Res != nil && j.tc.Res.Expire && upErr[i] == nil {
			var ev vh.Ev
			ev, upErr[i] = upRets[i].secondVisit()
			upEvs[i] = append(upEvs[i], ev)
		}
	}

	tr := vh.NewTrace(*out)
	nh := 0
	for _, g := range order {
		for _, e := range g.events {
			tr.Emit(e)
		}
		nh += len(g.hellos)
		if g.res {
			nh += len(g.hellos)
		}
	}
	nu := 0
	for i := range jobs {
		vh.Must(upErr[i], "upstream case")
		for _, e := range upEvs[i] {
			tr.Emit(e)
			nu++
		}
	}
	tr.Close()
	fmt.Fprintf(os.Stdout, "groups=%d handshakes=%d upstream=%d events=%d waited_ms=%d\n", len(order), nh, nu, tr.Len(), slept.Milliseconds())
}
