// Driver for C13: replays the cases TLC enumerates from spec/tls/TLSSelect into the real
// pkg/mtls context managers and records what a stock crypto/tls peer observed.
//
//	side "srv": real NewTLSServerContextManager (static and SDS backed contexts) behind a loopback TCP
//	            listener; a stock crypto/tls client (or a plaintext client) connects.
//	side "up" : real NewTLSClientContextManager.Conn towards a stock crypto/tls server.
//
// The driver takes no decision: TLC validates the recorded trace against the specification.
package main

import (
	"context"
	gotls "crypto/tls"
	"encoding/json"
	"flag"
	"fmt"
	"math/rand"
	"net"
	"os"
	"sort"
	"strings"
	"sync"
	"time"

	v2 "mosn.io/mosn/pkg/config/v2"
	"mosn.io/mosn/pkg/log"
	"mosn.io/mosn/pkg/mtls"
	"mosn.io/mosn/pkg/types"
	"verif/vh"
)

type ctxCase struct {
	Names   [][]string `json:"names"`
	Sn      []string   `json:"sn"`
	Alpn    []string   `json:"alpn"`
	Ready   bool       `json:"ready"`
	Verify  bool       `json:"verify"`
	Require bool       `json:"require"`
	Ca      string     `json:"ca"`
}

type helloCase struct {
	Sni  []string `json:"sni"`
	Up   bool     `json:"up"`
	Alpn []string `json:"alpn"`
	Peer string   `json:"peer"`
	Vers int      `json:"vers"`
}

type upCfg struct {
	Sn   []string `json:"sn"`
	Skip bool     `json:"skip"`
	Ca   string   `json:"ca"`
}

type upCert struct {
	Names   [][]string `json:"names"`
	Ca      string     `json:"ca"`
	Expired bool       `json:"expired"`
}

type tcase struct {
	Side  string     `json:"side"`
	Ctxs  []ctxCase  `json:"ctxs"`
	Insp  bool       `json:"insp"`
	First string     `json:"first"`
	Hello *helloCase `json:"hello"`
	Cfg   *upCfg     `json:"cfg"`
	Cert  *upCert    `json:"cert"`
}

func dotted(labels []string) string { return strings.Join(labels, ".") }

func nonNil(s []string) []string {
	if s == nil {
		return []string{}
	}
	return s
}

// ---------------------------------------------------------------- mock SDS client

type sdsMock struct {
	mu  sync.Mutex
	cbs map[string]types.SdsUpdateCallbackFunc
}

func (m *sdsMock) AddUpdateCallback(name string, cb types.SdsUpdateCallbackFunc) error {
	m.mu.Lock()
	m.cbs[name] = cb
	m.mu.Unlock()
	return nil
}
func (m *sdsMock) DeleteUpdateCallback(name string) error {
	m.mu.Lock()
	delete(m.cbs, name)
	m.mu.Unlock()
	return nil
}
func (m *sdsMock) RequireSecret(name string) {}
func (m *sdsMock) FetchSecret(ctx context.Context, name string) (*types.SdsSecret, error) {
	return nil, fmt.Errorf("not supported")
}
func (m *sdsMock) SetSecret(name string, secret *types.SdsSecret) {
	m.mu.Lock()
	cb := m.cbs[name]
	m.mu.Unlock()
	if cb != nil {
		cb(name, secret)
	}
}
func (m *sdsMock) AckResponse(resp interface{}) {}

// ---------------------------------------------------------------- server side

type group struct {
	idx    int
	ctxs   []ctxCase
	insp   bool
	hellos []tcase
	events []vh.Ev
}

type srvRes struct {
	kind string // "tls" | "plain" | "closed"
	err  error
}

const ioTimeout = 8 * time.Second

func serve(mng types.TLSContextManager, raw net.Conn) srvRes {
	defer raw.Close()
	raw.SetDeadline(time.Now().Add(ioTimeout))
	c, err := mng.Conn(raw)
	if err != nil {
		return srvRes{"closed", err}
	}
	raw.SetDeadline(time.Now().Add(ioTimeout)) // Peek() clears the read deadline
	one := make([]byte, 1)
	if tc, ok := c.(*mtls.TLSConn); ok {
		if err := tc.Handshake(); err != nil {
			return srvRes{"tls", err}
		}
		if _, err := tc.Write([]byte("T")); err != nil {
			return srvRes{"tls", err}
		}
		tc.Read(one) // wait until the client is done
		return srvRes{"tls", nil}
	}
	// the manager handed the connection over as plaintext: serve it as the plaintext application would
	buf := make([]byte, 64)
	if n, _ := c.Read(buf); n > 0 {
		c.Write([]byte("P"))
	}
	c.Read(one)
	return srvRes{"plain", nil}
}

type worker struct {
	ln  net.Listener
	pki *pki
}

// handshake runs one case. mng != nil: the manager is served in-process behind w.ln (direct mode);
// mng == nil: addr is a listener of an in-process MOSN whose tcp proxy echoes what it receives (e2e mode).
func (w *worker) handshake(mng types.TLSContextManager, addr string, tc tcase) (vh.Ev, error) {
	h := tc.Hello
	ev := vh.Ev{"ev": "hs", "first": tc.First, "sni": nonNil(h.Sni), "up": h.Up, "alpn": nonNil(h.Alpn),
		"peer": h.Peer, "vers": h.Vers, "plain": false, "cert": 0, "ok": false}
	e2e := mng == nil
	if !e2e {
		addr = w.ln.Addr().String()
	}
	cc, err := net.DialTimeout("tcp", addr, ioTimeout)
	if err != nil {
		return nil, err
	}
	defer cc.Close()
	done := make(chan srvRes, 1)
	if e2e {
		done <- srvRes{"e2e", nil}
	} else {
		sc, err := w.ln.Accept()
		if err != nil {
			return nil, err
		}
		go func() { done <- serve(mng, sc) }()
	}
	cc.SetDeadline(time.Now().Add(ioTimeout))
	one := make([]byte, 1)
	var cerr error
	if tc.First == "plain" {
		cc.Write([]byte("PLAINTEXT REQUEST\n"))
		n, e := cc.Read(one)
		cerr = e
		if n == 1 && one[0] == 'P' {
			ev["plain"] = true
		}
	} else {
		sni := dotted(h.Sni)
		if h.Up {
			sni = strings.ToUpper(sni)
		}
		cfg := &gotls.Config{ServerName: sni, InsecureSkipVerify: true, NextProtos: h.Alpn}
		if h.Vers == 12 {
			cfg.MinVersion, cfg.MaxVersion = gotls.VersionTLS12, gotls.VersionTLS12
		} else {
			cfg.MinVersion, cfg.MaxVersion = gotls.VersionTLS13, gotls.VersionTLS13
		}
		peer := w.pki.peer(h.Peer)
		cfg.GetClientCertificate = func(*gotls.CertificateRequestInfo) (*gotls.Certificate, error) { return peer, nil }
		tconn := gotls.Client(cc, cfg)
		cerr = tconn.Handshake()
		st := tconn.ConnectionState()
		if len(st.PeerCertificates) > 0 && len(st.PeerCertificates[0].Subject.Organization) > 0 {
			var pos int
			fmt.Sscanf(st.PeerCertificates[0].Subject.Organization[0], "ctx-%d", &pos)
			ev["cert"] = pos
		}
		if cerr == nil {
			if e2e { // the echo upstream sends back what the client sent
				tconn.Write([]byte("T"))
			}
			n, e := tconn.Read(one)
			cerr = e
			if n == 1 && one[0] == 'T' {
				ev["ok"] = true
			}
		}
		ev["proto"] = st.NegotiatedProtocol
	}
	cc.Close()
	sr := <-done
	ev["served"] = sr.kind
	if sr.err != nil {
		ev["serr"] = short(sr.err)
		if ev["ok"] == true { // cannot happen: the client read the byte written after the server handshake
			ev["ok"] = false
		}
	}
	if cerr != nil {
		ev["cerr"] = short(cerr)
	}
	for _, e := range []error{cerr, sr.err} {
		if ne, ok := e.(net.Error); ok && ne.Timeout() {
			return ev, fmt.Errorf("timeout: %v", e)
		}
	}
	return ev, nil
}

func short(e error) string {
	s := e.Error()
	if len(s) > 90 {
		s = s[:90]
	}
	return s
}

type pendingSecret struct{ val, cert, caPEM, certPEM, keyPEM string }

// tlsContexts turns the abstract contexts of a group into listener TLS configs. A ready context is static or
// SDS backed (seeded choice, its secret arrives after the listener exists); a not-ready one is SDS without secret.
func (g *group) tlsContexts(p *pki, rng *rand.Rand) (lname string, tlsCfgs []v2.TLSConfig, jctx []vh.Ev, later []pendingSecret) {
	lname = fmt.Sprintf("g%d", g.idx)
	jctx = make([]vh.Ev, len(g.ctxs))
	for i, c := range g.ctxs {
		pos := i + 1
		names := make([]string, len(c.Names))
		for k, n := range c.Names {
			names[k] = dotted(n)
		}
		sort.Strings(names)
		certPEM, keyPEM, layout := p.serverLeaf(pos, names)
		cfg := v2.TLSConfig{Status: true, ServerName: dotted(c.Sn), VerifyClient: c.Verify, RequireClientCert: c.Require,
			ALPN: strings.Join(c.Alpn, ","), CACert: p.caPEM(c.Ca)}
		kind := "static"
		if !c.Ready {
			kind = "sds-pending"
		} else if rng.Intn(3) == 0 {
			kind = "sds-ready"
		}
		if kind == "static" {
			cfg.CertChain, cfg.PrivateKey = certPEM, keyPEM
		} else {
			val, cert := fmt.Sprintf("val-%s-%d", lname, pos), fmt.Sprintf("cert-%s-%d", lname, pos)
			cfg.CACert = ""
			cfg.SdsConfig = &v2.SdsConfig{CertificateConfig: &v2.SecretConfigWrapper{Name: cert},
				ValidationConfig: &v2.SecretConfigWrapper{Name: val}}
			if kind == "sds-ready" {
				later = append(later, pendingSecret{val, cert, p.caPEM(c.Ca), certPEM, keyPEM})
			}
		}
		tlsCfgs = append(tlsCfgs, cfg)
		nn := c.Names
		if nn == nil {
			nn = [][]string{}
		}
		jctx[i] = vh.Ev{"names": nn, "sn": nonNil(c.Sn), "alpn": nonNil(c.Alpn), "ready": c.Ready, "verify": c.Verify,
			"require": c.Require, "ca": c.Ca, "kind": kind, "layout": layout}
	}
	return
}

func deliver(mock *sdsMock, later []pendingSecret) {
	for _, p := range later {
		mock.SetSecret(p.val, &types.SdsSecret{Name: p.val, ValidationPEM: p.caPEM})
		mock.SetSecret(p.cert, &types.SdsSecret{Name: p.cert, CertificatePEM: p.certPEM, PrivateKeyPEM: p.keyPEM})
	}
}

func groupRng(g *group) *rand.Rand { return rand.New(rand.NewSource(vh.Seed()*1000003 + int64(g.idx))) }

func (w *worker) runGroup(g *group, mock *sdsMock) error {
	lname, tlsCfgs, jctx, later := g.tlsContexts(w.pki, groupRng(g))
	lc := &v2.Listener{}
	lc.Name = lname
	lc.Inspector = g.insp
	lc.FilterChains = []v2.FilterChain{{TLSContexts: tlsCfgs}}
	mng, err := mtls.NewTLSServerContextManager(lc)
	if err != nil {
		return fmt.Errorf("NewTLSServerContextManager: %v", err)
	}
	// the secrets of the ready SDS contexts arrive after the listener was built
	deliver(mock, later)
	return w.hellos(g, mng, "", jctx)
}

func (w *worker) hellos(g *group, mng types.TLSContextManager, addr string, jctx []vh.Ev) error {
	via := "direct"
	if mng == nil {
		via = "e2e"
	}
	g.events = append(g.events, vh.Ev{"ev": "mgr", "ctxs": jctx, "insp": g.insp, "g": g.idx, "via": via})
	for _, tc := range g.hellos {
		var ev vh.Ev
		var err error
		for attempt := 0; attempt < 3; attempt++ {
			ev, err = w.handshake(mng, addr, tc)
			if err == nil {
				break
			}
		}
		if err != nil {
			return fmt.Errorf("group %d hello %+v: %v (event %v)", g.idx, *tc.Hello, err, ev)
		}
		g.events = append(g.events, ev)
	}
	return nil
}

// ---------------------------------------------------------------- upstream side

func runUp(p *pki, tc tcase) (vh.Ev, error) {
	names := make([]string, len(tc.Cert.Names))
	for i, n := range tc.Cert.Names {
		names[i] = dotted(n)
	}
	sort.Strings(names)
	leaf := p.upstreamLeaf(tc.Cert.Ca, names, tc.Cert.Expired)
	ln, err := net.Listen("tcp", "127.0.0.1:0")
	if err != nil {
		return nil, err
	}
	defer ln.Close()
	done := make(chan error, 1)
	go func() {
		c, err := ln.Accept()
		if err != nil {
			done <- err
			return
		}
		defer c.Close()
		c.SetDeadline(time.Now().Add(ioTimeout))
		s := gotls.Server(c, &gotls.Config{Certificates: []gotls.Certificate{*leaf}})
		if err := s.Handshake(); err != nil {
			done <- err
			return
		}
		s.Write([]byte("T"))
		one := make([]byte, 1)
		s.Read(one)
		done <- nil
	}()
	cfg := &v2.TLSConfig{Status: true, ServerName: dotted(tc.Cfg.Sn), InsecureSkip: tc.Cfg.Skip, CACert: p.caPEM(tc.Cfg.Ca)}
	mng, err := mtls.NewTLSClientContextManager("up", cfg)
	if err != nil {
		return nil, fmt.Errorf("NewTLSClientContextManager: %v", err)
	}
	raw, err := net.DialTimeout("tcp", ln.Addr().String(), ioTimeout)
	if err != nil {
		return nil, err
	}
	defer raw.Close()
	nn := tc.Cert.Names
	ev := vh.Ev{"ev": "up", "upplain": false, "cfg": vh.Ev{"sn": nonNil(tc.Cfg.Sn), "skip": tc.Cfg.Skip, "ca": tc.Cfg.Ca},
		"cert": vh.Ev{"names": nn, "ca": tc.Cert.Ca, "expired": tc.Cert.Expired}, "ok": false}
	c, cerr := mng.Conn(raw)
	if cerr == nil {
		if _, isTLS := c.(*mtls.TLSConn); !isTLS {
			ev["nontls"] = true
		}
		c.SetDeadline(time.Now().Add(ioTimeout))
		one := make([]byte, 1)
		n, e := c.Read(one)
		cerr = e
		if n == 1 && one[0] == 'T' {
			ev["ok"] = true
		}
		c.Close()
	} else {
		ev["cerr"] = short(cerr)
	}
	raw.Close()
	serr := <-done
	if serr != nil {
		ev["serr"] = short(serr)
	}
	if ne, ok := cerr.(net.Error); ok && ne.Timeout() {
		return ev, fmt.Errorf("timeout: %v", cerr)
	}
	return ev, nil
}

// ---------------------------------------------------------------- main

func main() {
	cases := flag.String("cases", "", "cases file (JSON lines emitted by TLC)")
	out := flag.String("trace", "", "trace output")
	par := flag.Int("par", 8, "parallel workers")
	mode := flag.String("mode", "direct", "direct: context managers driven directly; e2e: through the listeners/clusters of an in-process MOSN")
	flag.Parse()
	if !vh.HooksCompiled() {
		vh.Must(fmt.Errorf("built without -tags verif"), "hooks")
	}
	// the forked crypto/tls (go1.12 vintage) offers TLS 1.3 only with GODEBUG=tls13=1; it reads the variable lazily.
	// With it MOSN serves 1.0-1.3, so that vers=12 cases run handshake_server.go and vers=13 cases handshake_server_tls13.go.
	if g := os.Getenv("GODEBUG"); g == "" {
		os.Setenv("GODEBUG", "tls13=1")
	} else if !strings.Contains(g, "tls13=") {
		os.Setenv("GODEBUG", g+",tls13=1")
	}
	log.DefaultLogger.SetLogLevel(log.FATAL)
	mock := &sdsMock{cbs: map[string]types.SdsUpdateCallbackFunc{}}
	mtls.VerifSetSdsClientFunc(func(cfg interface{}) types.SdsClient { return mock })
	p := newPKI(vh.Seed())

	groups := map[string]*group{}
	var order []*group
	var ups []tcase
	err := vh.ReadCases(*cases, func(raw json.RawMessage) error {
		var tc tcase
		if err := json.Unmarshal(raw, &tc); err != nil {
			return err
		}
		if tc.Side == "up" {
			ups = append(ups, tc)
			return nil
		}
		kb, _ := json.Marshal([]interface{}{tc.Ctxs, tc.Insp})
		g := groups[string(kb)]
		if g == nil {
			g = &group{idx: len(order), ctxs: tc.Ctxs, insp: tc.Insp}
			groups[string(kb)] = g
			order = append(order, g)
		}
		g.hellos = append(g.hellos, tc)
		return nil
	})
	vh.Must(err, "read cases")
	if *mode == "e2e" {
		runE2E(p, mock, order, ups, *out, *par)
		return
	}

	work := make(chan *group)
	var wg sync.WaitGroup
	var failMu sync.Mutex
	var fail error
	for i := 0; i < *par; i++ {
		ln, err := net.Listen("tcp", "127.0.0.1:0")
		vh.Must(err, "listen")
		w := &worker{ln: ln, pki: p}
		wg.Add(1)
		go func() {
			defer wg.Done()
			defer ln.Close()
			for g := range work {
				if err := w.runGroup(g, mock); err != nil {
					failMu.Lock()
					if fail == nil {
						fail = err
					}
					failMu.Unlock()
				}
			}
		}()
	}
	for _, g := range order {
		work <- g
	}
	close(work)
	wg.Wait()
	vh.Must(fail, "server cases")

	tr := vh.NewTrace(*out)
	nh := 0
	for _, g := range order {
		for _, e := range g.events {
			tr.Emit(e)
		}
		nh += len(g.hellos)
	}
	for _, tc := range ups {
		var ev vh.Ev
		var err error
		for attempt := 0; attempt < 3; attempt++ {
			ev, err = runUp(p, tc)
			if err == nil {
				break
			}
		}
		vh.Must(err, "upstream case")
		tr.Emit(ev)
	}
	tr.Close()
	fmt.Fprintf(os.Stdout, "groups=%d handshakes=%d upstream=%d events=%d\n", len(order), nh, len(ups), tr.Len())
}
