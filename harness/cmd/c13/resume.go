package main

// Returning peers: a peer connects, keeps what the handshake left it with (a session ticket / PSK in its session cache),
// and connects again after something that matters has changed - its short-lived certificate has run out, the policy was
// updated. Every connection is recorded like any other handshake (plus: a ticket was held, the handshake was an
// abbreviated one, what the clock said about the certificate); TLC judges it by the policy and the time of that moment.
//
// The waits are batched: all first visits of the run are paid first, the second visits come after everything else.

import (
	gotls "crypto/tls"
	"fmt"
	"net"
	"sort"
	"sync"
	"time"

	v2 "mosn.io/mosn/pkg/config/v2"
	"mosn.io/mosn/pkg/mtls"
	"mosn.io/mosn/pkg/types"
	"verif/vh"
)

// recCache is a stock LRU session cache that tells whether the connection under way found a session in it.
type recCache struct {
	mu    sync.Mutex
	inner gotls.ClientSessionCache
	hit   bool
}

func newRecCache() *recCache { return &recCache{inner: gotls.NewLRUClientSessionCache(4)} }

func (r *recCache) begin() {
	r.mu.Lock()
	r.hit = false
	r.mu.Unlock()
}

func (r *recCache) held() bool {
	r.mu.Lock()
	defer r.mu.Unlock()
	return r.hit
}

func (r *recCache) Get(key string) (*gotls.ClientSessionState, bool) {
	s, ok := r.inner.Get(key)
	if ok && s != nil {
		r.mu.Lock()
		r.hit = true
		r.mu.Unlock()
	}
	return s, ok
}

func (r *recCache) Put(key string, s *gotls.ClientSessionState) { r.inner.Put(key, s) }

// returning is the client side of a returning peer between its connections.
type returning struct {
	cache    *recCache
	cert     *gotls.Certificate
	notAfter time.Time // zero: the certificate does not run out during the run
}

func (p *pki) newReturning(peer string) *returning {
	r := &returning{cache: newRecCache()}
	if peer == "short1" {
		r.cert, r.notAfter = p.shortClient("ca1")
	} else {
		r.cert = p.peer(peer)
	}
	return r
}

// firstVisits: every peer of the group connects for the first time (its short-lived certificate is issued right before).
func (w *worker) firstVisits(g *group, mng types.TLSContextManager, addr string) error {
	g.rets = make([]*returning, len(g.hellos))
	for k, tc := range g.hellos {
		var ev vh.Ev
		var err error
		for attempt := 0; attempt < 3; attempt++ {
			g.rets[k] = w.pki.newReturning(tc.Hello.Peer)
			ev, err = w.handshake(mng, addr, tc, g.rets[k])
			if err == nil {
				break
			}
		}
		if err != nil {
			return fmt.Errorf("group %d first visit %+v: %v (event %v)", g.idx, *tc.Hello, err, ev)
		}
		ev["visit"] = 1
		g.events = append(g.events, ev)
	}
	return nil
}

// ---------------------------------------------------------------- upstream side

type upSrvRes struct {
	err     error
	resumed bool
}

// upReturning is an upstream case whose upstream is visited twice by MOSN.
type upReturning struct {
	p        *pki
	j        upJob
	u        *upLive
	mng      types.TLSClientContextManager
	ln       net.Listener
	results  chan upSrvRes
	cfg0     vh.Ev
	upds     []vh.Ev
	notAfter time.Time
}

func certNames(tc tcase) []string {
	names := make([]string, len(tc.Cert.Names))
	for i, n := range tc.Cert.Names {
		names[i] = dotted(n)
	}
	sort.Strings(names)
	return names
}

// upLeaf is the certificate of the case's upstream: issued short-lived now, or one of the long-lived ones.
func upLeaf(p *pki, tc tcase) (*gotls.Certificate, time.Time) {
	if tc.Cert.Short {
		return p.shortUpstream(tc.Cert.Ca, certNames(tc))
	}
	return p.upstreamLeaf(tc.Cert.Ca, certNames(tc), tc.Cert.Expired), time.Time{}
}

// serveUpstream is a stock crypto/tls server (one configuration for all its connections: it hands out session tickets
// and honours them) that reports how each handshake went.
func serveUpstream(ln net.Listener, conf *gotls.Config, results chan<- upSrvRes) {
	for {
		c, err := ln.Accept()
		if err != nil {
			return
		}
		go func() {
			defer c.Close()
			c.SetDeadline(time.Now().Add(ioTimeout))
			s := gotls.Server(c, conf)
			if err := s.Handshake(); err != nil {
				results <- upSrvRes{err: err}
				return
			}
			s.Write([]byte("T"))
			one := make([]byte, 1)
			s.Read(one)
			results <- upSrvRes{resumed: s.ConnectionState().DidResume}
		}()
	}
}

// upEvent is the record of one connection of MOSN to the case's upstream; late: what the clock said about the
// upstream's certificate while MOSN connected.
func upEvent(tc tcase, variant string, cfg0 vh.Ev, upds []vh.Ev, late string) vh.Ev {
	if upds == nil {
		upds = []vh.Ev{}
	}
	return vh.Ev{"ev": "up", "upplain": false, "upds": upds, "variant": variant, "cfg": cfg0, "ok": false, "late": late, "resumed": false,
		"cert": vh.Ev{"names": tc.Cert.Names, "ca": tc.Cert.Ca, "expired": tc.Cert.Expired || late == "yes"}}
}

// connect: one real clientContextManager.Conn towards the upstream.
func (r *upReturning) connect(upds []vh.Ev, visit int) (vh.Ev, error) {
	var ev vh.Ev
	for attempt := 0; attempt < 3; attempt++ {
		t0 := time.Now()
		raw, err := net.DialTimeout("tcp", r.ln.Addr().String(), ioTimeout)
		if err != nil {
			return nil, err
		}
		ok, nontls := false, false
		c, cerr := r.mng.Conn(raw)
		if cerr == nil {
			_, isTLS := c.(*mtls.TLSConn)
			nontls = !isTLS
			c.SetDeadline(time.Now().Add(ioTimeout))
			one := make([]byte, 1)
			n, e := c.Read(one)
			cerr = e
			ok = n == 1 && one[0] == 'T'
			c.Close()
		}
		raw.Close()
		t1 := time.Now()
		sr := <-r.results
		ev = upEvent(r.j.tc, r.j.variant, r.cfg0, upds, lateness(r.notAfter, t0, t1))
		ev["ok"], ev["resumed"], ev["visit"] = ok, sr.resumed, visit
		if nontls {
			ev["nontls"] = true
		}
		if cerr != nil && !ok {
			ev["cerr"] = short(cerr)
		}
		if sr.err != nil {
			ev["serr"] = short(sr.err)
		}
		if ne, isNet := cerr.(net.Error); isNet && ne.Timeout() && !ok {
			continue
		}
		return ev, nil
	}
	return ev, fmt.Errorf("upstream case %+v: timeout (event %v)", *r.j.tc.Cfg, ev)
}

// upFirstVisit builds the real clientContextManager from the case's initial cluster tls config, lets it connect to the
// upstream, then pushes the case's update history.
func upFirstVisit(p *pki, mock *sdsMock, j upJob, idx int) (*upReturning, vh.Ev, error) {
	r := &upReturning{p: p, j: j, results: make(chan upSrvRes, 4)}
	ln, err := net.Listen("tcp", "127.0.0.1:0")
	if err != nil {
		return nil, nil, err
	}
	r.ln = ln
	name := fmt.Sprintf("upres%d-%s", idx, j.variant)
	r.u = newUpLive(p, mock, j, name)
	r.cfg0 = r.u.cfgEvent(r.u.cur)
	if r.mng, err = mtls.NewTLSClientContextManager(name, r.u.tlsConfig()); err != nil {
		return nil, nil, fmt.Errorf("NewTLSClientContextManager: %v", err)
	}
	r.u.deliver()
	var leaf *gotls.Certificate
	leaf, r.notAfter = upLeaf(p, j.tc)
	go serveUpstream(ln, &gotls.Config{Certificates: []gotls.Certificate{*leaf}}, r.results)
	ev, err := r.connect(nil, 1)
	if err != nil {
		return nil, nil, err
	}
	r.upds, err = r.u.history(j.tc, func(cfg *v2.TLSConfig) error {
		m, err := mtls.NewTLSClientContextManager(name, cfg) // what a cluster update does
		if err == nil {
			r.mng = m
		}
		return err
	})
	return r, ev, err
}

// secondVisit: MOSN connects again, under the cluster tls config pushed last.
func (r *upReturning) secondVisit() (vh.Ev, error) {
	defer r.ln.Close()
	return r.connect(r.upds, 2)
}
