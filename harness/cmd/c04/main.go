// Driver for C04: replays TLC-enumerated router configurations and requests into the real
// router (router.NewRouters, the RouterManager update API, MatchRoute / MatchAllRoutes) and
// records what the real code answered. TLC (RouterTrace.tla) decides.
package main

import (
	"context"
	"encoding/json"
	"flag"
	"fmt"
	"math/rand"
	"net/url"
	"regexp"
	"strings"
	"sync"
	"time"

	"mosn.io/api"
	v2 "mosn.io/mosn/pkg/config/v2"
	"mosn.io/mosn/pkg/protocol"
	"mosn.io/mosn/pkg/router"
	"mosn.io/mosn/pkg/types"
	"mosn.io/mosn/pkg/upstream/cluster"
	"mosn.io/pkg/variable"
	"verif/vh"
)

type dom struct {
	H []string `json:"h"`
	P string   `json:"p"`
}

func (d dom) text() string {
	s := strings.Join(d.H, "")
	if d.P != "" {
		s += ":" + d.P
	}
	return s
}

type hm struct {
	N  string `json:"n"`
	V  string `json:"v"`
	Re bool   `json:"re"`
}
type vm struct {
	N  string `json:"n"`
	V  string `json:"v"`
	Re string `json:"re"`
	M  string `json:"m"`
}
type rule struct {
	K  string   `json:"k"`
	Pa []string `json:"pa"`
	Re string   `json:"re"`
	Hs []hm     `json:"hs"`
	Vs []vm     `json:"vs"`
	Qs []hm     `json:"qs"`
	Ds [][]tok  `json:"ds"`
	C  string   `json:"c"`
}

// tok is one token of a DSL expression in prefix order (RouteSem.tla Ev3).
type tok struct {
	T  string   `json:"t"`
	N  string   `json:"n"`
	V  string   `json:"v"`
	Pa []string `json:"pa"`
}

// render turns the prefix-order tokens starting at i into CEL text and returns the next index.
func render(e []tok, i int) (string, int) {
	t := e[i]
	switch t.T {
	case "and", "or":
		a, j := render(e, i+1)
		b, k := render(e, j)
		op := " && "
		if t.T == "or" {
			op = " || "
		}
		return "(" + a + ")" + op + "(" + b + ")", k
	case "not":
		a, j := render(e, i+1)
		return "!(" + a + ")", j
	case "meq":
		return fmt.Sprintf("request.method == %q", t.V), i + 1
	case "ppre":
		return fmt.Sprintf("request.path.startsWith(%q)", strings.Join(t.Pa, "")), i + 1
	case "peq":
		return fmt.Sprintf("request.path == %q", strings.Join(t.Pa, "")), i + 1
	case "heq":
		return fmt.Sprintf("request.headers[%q] == %q", t.N, t.V), i + 1
	case "hdef":
		return fmt.Sprintf("(request.headers[%q] | \"none\") == %q", t.N, t.V), i + 1
	case "qeq":
		return fmt.Sprintf("request.query_params[%q] == %q", t.N, t.V), i + 1
	}
	panic("unknown DSL token " + t.T)
}
type vhost struct {
	Doms  []dom  `json:"doms"`
	Rules []rule `json:"rules"`
}
type hdrs struct {
	H1      string `json:"h1"`
	H2      string `json:"h2"`
	Service string `json:"service"`
}
type rreq struct {
	Path   []string `json:"path"`
	Method string   `json:"method"`
	Query  string   `json:"query"`
	Hd     hdrs     `json:"hd"`
}
type line struct {
	Kind   string  `json:"kind"`
	Part   string  `json:"part"`
	Hist   bool    `json:"hist"`
	Vhosts []vhost `json:"vhosts"`
	Areqs  []int   `json:"areqs"`
	Rreqs  []int   `json:"rreqs"`
	Kv      bool       `json:"kv"`      // also ask MatchRouteFromHeaderKV for every key/value of the universe
	Present [][]string `json:"present"` // cluster sets under which the handler is asked
	Hreqs   []int      `json:"hreqs"`   // route requests for the handler lookups
	Kvs     []struct {
		Key   string `json:"key"`
		Value string `json:"value"`
	} `json:"kvs"`
	// universes and menus
	Reqs json.RawMessage `json:"reqs"`
	Vals []string        `json:"vals"`
	Menu json.RawMessage `json:"menu"`
}

func norm(r *rule) {
	if r.Pa == nil {
		r.Pa = []string{}
	}
	if r.Hs == nil {
		r.Hs = []hm{}
	}
	if r.Vs == nil {
		r.Vs = []vm{}
	}
	if r.Qs == nil {
		r.Qs = []hm{}
	}
	if r.Ds == nil {
		r.Ds = [][]tok{}
	}
	for i := range r.Ds {
		for j := range r.Ds[i] {
			if r.Ds[i][j].Pa == nil {
				r.Ds[i][j].Pa = []string{}
			}
		}
	}
}

// applyQs installs the query parameter matchers of rule r, which sits at (vhost, pos) of rs (0-based).
func applyQs(rs types.Routers, vhost, pos int, r rule) {
	if len(r.Qs) == 0 {
		return
	}
	ms := make([]v2.HeaderMatcher, 0, len(r.Qs))
	for _, q := range r.Qs {
		ms = append(ms, v2.HeaderMatcher{Name: q.N, Value: q.V, Regex: q.Re})
	}
	router.VerifSetQueryParameters(rs, vhost, pos, ms)
}

func toRouter(r rule) v2.Router {
	var out v2.Router
	pa := strings.Join(r.Pa, "")
	switch r.K {
	case "path":
		out.Match.Path = pa
	case "prefix":
		out.Match.Prefix = pa
	case "regex":
		out.Match.Regex = r.Re
	}
	for _, h := range r.Hs {
		out.Match.Headers = append(out.Match.Headers, v2.HeaderMatcher{Name: h.N, Value: h.V, Regex: h.Re})
	}
	for _, e := range r.Ds {
		txt, _ := render(e, 0)
		out.Match.DslExpressions = append(out.Match.DslExpressions, v2.DslExpressionMatcher{Expression: txt})
	}
	for _, v := range r.Vs {
		out.Match.Variables = append(out.Match.Variables, v2.VariableMatcher{Name: v.N, Value: v.V, Regex: v.Re, Model: v.M})
	}
	out.Route.ClusterName = r.C
	return out
}

func toConfig(name string, vhs []vhost, keep func(v int) int) *v2.RouterConfiguration {
	cfg := &v2.RouterConfiguration{}
	cfg.RouterConfigName = name
	for vi, v := range vhs {
		x := v2.VirtualHost{Name: fmt.Sprintf("vh%d", vi+1)}
		for _, d := range v.Doms {
			x.Domains = append(x.Domains, d.text())
		}
		n := len(v.Rules)
		if keep != nil {
			n = keep(vi)
		}
		for _, r := range v.Rules[:n] {
			x.Routers = append(x.Routers, toRouter(r))
		}
		cfg.VirtualHosts = append(cfg.VirtualHosts, x)
	}
	return cfg
}

func evVhosts(vhs []vhost, keep func(v int) int) []vhost {
	out := make([]vhost, len(vhs))
	for i, v := range vhs {
		n := len(v.Rules)
		if keep != nil {
			n = keep(i)
		}
		out[i] = vhost{Doms: v.Doms, Rules: append([]rule{}, v.Rules[:n]...)}
	}
	return out
}

func clusterOf(ctx context.Context, r api.Route) string {
	if r == nil || r.RouteRule() == nil {
		return ""
	}
	return r.RouteRule().ClusterName(ctx)
}

// lookup performs one MatchRoute and one MatchAllRoutes the way the proxy does: request
// properties in the variable context, headers in the header map.
func mkctx(a dom, q rreq) (context.Context, protocol.CommonHeader) {
	ctx := variable.NewVariableContext(context.Background())
	if at := a.text(); at != "" {
		variable.SetString(ctx, types.VarHost, at)
	}
	if len(q.Path) > 0 {
		variable.SetString(ctx, types.VarPath, strings.Join(q.Path, ""))
	}
	variable.SetString(ctx, types.VarMethod, q.Method)
	if q.Query != "" {
		variable.SetString(ctx, types.VarQueryString, q.Query)
	}
	h := protocol.CommonHeader{}
	if q.Hd.H1 != "-" {
		h["h1"] = q.Hd.H1
	}
	if q.Hd.H2 != "-" {
		h["h2"] = q.Hd.H2
	}
	if q.Hd.Service != "-" {
		h["service"] = q.Hd.Service
	}
	return ctx, h
}

// kvLookup asks the key/value fast index of the virtual host the authority selects.
func kvLookup(tr *vh.Trace, rs types.Routers, a dom, q rreq, key, value string) {
	defer guard(tr, "MatchRouteFromHeaderKV", vh.Ev{"h": a.H, "p": a.P, "key": key, "value": value})
	ctx, h := mkctx(a, q)
	got := clusterOf(ctx, rs.MatchRouteFromHeaderKV(ctx, h, key, value))
	tr.Emit(vh.Ev{"ev": "kvlook", "h": a.H, "p": a.P, "key": key, "value": value, "got": got})
}

// handlerLookup goes through the route handler the proxy uses for every request.
func handlerLookup(tr *vh.Trace, rs types.Routers, cm types.ClusterManager, a dom, q rreq) {
	defer guard(tr, "DoRouteHandler", vh.Ev{"h": a.H, "p": a.P, "path": q.Path, "method": q.Method, "query": q.Query, "hd": q.Hd})
	ctx, h := mkctx(a, q)
	snap, route := router.GetMakeHandlerFunc(types.DefaultRouteHandler).DoRouteHandler(ctx, h, rs, cm)
	sn := ""
	if snap != nil && snap.ClusterInfo() != nil {
		sn = snap.ClusterInfo().Name()
	}
	tr.Emit(vh.Ev{"ev": "hlook", "h": a.H, "p": a.P, "path": q.Path, "method": q.Method, "query": q.Query,
		"hd": q.Hd, "route": clusterOf(ctx, route), "snap": sn})
}

// syncClusters makes the cluster manager hold exactly the named clusters.
func syncClusters(cm types.ClusterManager, have map[string]bool, want []string) error {
	w := map[string]bool{}
	for _, n := range want {
		w[n] = true
		if !have[n] {
			if err := cm.AddOrUpdatePrimaryCluster(v2.Cluster{Name: n, ClusterType: v2.SIMPLE_CLUSTER, LbType: v2.LB_RANDOM}); err != nil {
				return err
			}
			have[n] = true
		}
	}
	for n := range have {
		if !w[n] {
			if err := cm.RemovePrimaryCluster(n); err != nil {
				return err
			}
			delete(have, n)
		}
	}
	return nil
}

func lookup(tr *vh.Trace, rs types.Routers, a dom, q rreq, g int) {
	defer guard(tr, "lookup", vh.Ev{"h": a.H, "p": a.P, "path": q.Path, "method": q.Method, "query": q.Query, "hd": q.Hd})
	ctx := variable.NewVariableContext(context.Background())
	if at := a.text(); at != "" {
		variable.SetString(ctx, types.VarHost, at)
	}
	if len(q.Path) > 0 {
		variable.SetString(ctx, types.VarPath, strings.Join(q.Path, ""))
	}
	variable.SetString(ctx, types.VarMethod, q.Method)
	if q.Query != "" {
		variable.SetString(ctx, types.VarQueryString, q.Query)
	}
	h := protocol.CommonHeader{}
	if q.Hd.H1 != "-" {
		h["h1"] = q.Hd.H1
	}
	if q.Hd.H2 != "-" {
		h["h2"] = q.Hd.H2
	}
	if q.Hd.Service != "-" {
		h["service"] = q.Hd.Service
	}
	first := clusterOf(ctx, rs.MatchRoute(ctx, h))
	all := []string{}
	for _, r := range rs.MatchAllRoutes(ctx, h) {
		all = append(all, clusterOf(ctx, r))
	}
	tr.Emit(vh.Ev{"ev": "look", "h": a.H, "p": a.P, "path": q.Path, "method": q.Method, "query": q.Query,
		"hd": q.Hd, "first": first, "all": all, "g": g})
}

// guard turns a panic of the code under test into a trace event (the router failed to answer).
func guard(tr *vh.Trace, where string, what vh.Ev) {
	if r := recover(); r != nil {
		msg := fmt.Sprint(r)
		if len(msg) > 200 {
			msg = msg[:200]
		}
		tr.Emit(vh.Ev{"ev": "panic", "where": where, "msg": msg, "what": what})
	}
}

// safely runs an update call; a panic becomes a trace event and an error.
func safely(tr *vh.Trace, where string, f func() error) (err error) {
	defer func() {
		if r := recover(); r != nil {
			err = fmt.Errorf("panic: %v", r)
			tr.Emit(vh.Ev{"ev": "panic", "where": where, "msg": fmt.Sprint(r), "what": vh.Ev{}})
		}
	}()
	return f()
}

func routersLens(rw types.RouterWrapper) []int {
	c := rw.GetRoutersConfig()
	out := make([]int, len(c.VirtualHosts))
	for i, v := range c.VirtualHosts {
		out[i] = len(v.Routers)
	}
	return out
}

func main() {
	cases := flag.String("cases", "", "cases file")
	out := flag.String("trace", "", "trace output")
	lookers := flag.Int("lookers", 8, "goroutines for the concurrent lookups of history cases")
	mode := flag.String("mode", "replay", "replay | scan (lookups held inside the rule list while the route API runs)")
	graceMs := flag.Int("grace", 15, "scan mode: how long to wait for the updates before the held lookup goes on (ms)")
	flag.Parse()
	if *mode == "scan" {
		runScan(*cases, *out, time.Duration(*graceMs)*time.Millisecond)
		return
	}
	rng := rand.New(rand.NewSource(vh.Seed()))
	tr := vh.NewTrace(*out)
	defer tr.Close()
	var areqs []dom
	var rreqs []rreq
	const mgrName = "c04-router"
	mgr := router.NewRouterManager()
	ncase, nlook := 0, 0
	type kvT struct{ key, value string }
	var kvs []kvT
	cm := cluster.NewClusterManagerSingleton(nil, nil, nil)
	have := map[string]bool{}
	// extra entry points of one case on the routers rs: the key/value index and the route handler
	extras := func(ln *line, rs types.Routers) error {
		if ln.Kv {
			for _, ai := range ln.Areqs {
				for _, kv := range kvs {
					kvLookup(tr, rs, areqs[ai], rreqs[ln.Rreqs[0]], kv.key, kv.value)
				}
			}
		}
		for _, present := range ln.Present {
			if present == nil {
				present = []string{}
			}
			if err := syncClusters(cm, have, present); err != nil {
				return err
			}
			tr.Emit(vh.Ev{"ev": "clusters", "present": present})
			for _, ai := range ln.Areqs {
				for _, qi := range ln.Hreqs {
					handlerLookup(tr, rs, cm, areqs[ai], rreqs[qi])
				}
			}
		}
		return nil
	}
	err := vh.ReadCases(*cases, func(raw json.RawMessage) error {
		var ln line
		if err := json.Unmarshal(raw, &ln); err != nil {
			return err
		}
		switch ln.Kind {
		case "reqs":
			return json.Unmarshal(ln.Reqs, &areqs)
		case "rreqs":
			if err := json.Unmarshal(ln.Reqs, &rreqs); err != nil {
				return err
			}
			for i := range rreqs {
				if rreqs[i].Path == nil {
					rreqs[i].Path = []string{}
				}
			}
			return nil
		case "valre": // the hand-written meaning of the value regex menu must be Go's
			var menu []struct {
				Re string   `json:"re"`
				M  []string `json:"m"`
			}
			if err := json.Unmarshal(ln.Menu, &menu); err != nil {
				return err
			}
			for _, e := range menu {
				re := regexp.MustCompile(e.Re)
				in := map[string]bool{}
				for _, v := range e.M {
					in[v] = true
				}
				for _, v := range ln.Vals {
					if re.MatchString(v) != in[v] {
						return fmt.Errorf("spec menu: regex %q on %q: spec says %v", e.Re, v, in[v])
					}
				}
			}
			return nil
		case "kvs":
			for _, kv := range ln.Kvs {
				kvs = append(kvs, kvT{kv.Key, kv.Value})
			}
			return nil
		case "qparse": // the hand-parsed query strings of the spec must be what net/url makes of them
			var menu []struct {
				Q string `json:"q"`
				N string `json:"n"`
				V string `json:"v"`
			}
			if err := json.Unmarshal(ln.Menu, &menu); err != nil {
				return err
			}
			for _, e := range menu {
				vals, err := url.ParseQuery(e.Q)
				if err != nil {
					return err
				}
				got := "-"
				if v, ok := vals[e.N]; ok {
					got = v[0]
				}
				if got != e.V {
					return fmt.Errorf("spec menu: query %q parameter %q: spec says %q, net/url %q", e.Q, e.N, e.V, got)
				}
			}
			return nil
		case "pathre":
			var menu []struct {
				Re string   `json:"re"`
				P  []string `json:"p"`
				M  bool     `json:"m"`
			}
			if err := json.Unmarshal(ln.Menu, &menu); err != nil {
				return err
			}
			for _, e := range menu {
				if regexp.MustCompile(e.Re).MatchString(strings.Join(e.P, "")) != e.M {
					return fmt.Errorf("spec menu: path regex %q on %q: spec says %v", e.Re, strings.Join(e.P, ""), e.M)
				}
			}
			return nil
		case "case":
		default:
			return nil
		}
		ncase++
		for vi := range ln.Vhosts {
			for ri := range ln.Vhosts[vi].Rules {
				norm(&ln.Vhosts[vi].Rules[ri])
			}
			if ln.Vhosts[vi].Rules == nil {
				ln.Vhosts[vi].Rules = []rule{}
			}
		}
		type pair struct {
			a dom
			q rreq
		}
		var looks []pair
		for _, ai := range ln.Areqs {
			for _, qi := range ln.Rreqs {
				looks = append(looks, pair{areqs[ai], rreqs[qi]})
			}
		}
		if !ln.Hist {
			rs, err := func() (rs types.Routers, err error) {
				defer func() {
					if r := recover(); r != nil {
						err = fmt.Errorf("panic: %v", r)
						tr.Emit(vh.Ev{"ev": "panic", "where": "NewRouters", "msg": fmt.Sprint(r), "what": vh.Ev{}})
					}
				}()
				return router.NewRouters(toConfig("c04-new", ln.Vhosts, nil))
			}()
			tr.Emit(vh.Ev{"ev": "cfg", "via": "new", "part": ln.Part, "vhosts": evVhosts(ln.Vhosts, nil), "err": err != nil})
			if err != nil {
				return nil
			}
			for vi, v := range ln.Vhosts {
				for ri, r := range v.Rules {
					applyQs(rs, vi, ri, r)
				}
			}
			for _, p := range looks {
				lookup(tr, rs, p.a, p.q, 0)
				nlook++
			}
			return extras(&ln, rs)
		}
		// ---- update history through the RouterManager, ending in the configuration of the case
		keepN := make([]int, len(ln.Vhosts))
		wipe := make([]bool, len(ln.Vhosts))
		for vi, v := range ln.Vhosts {
			switch rng.Intn(3) {
			case 0: // rules arrive one by one through AddRoute
				keepN[vi] = rng.Intn(len(v.Rules) + 1)
			case 1: // everything is configured first, wiped with RemoveAllRoutes, then added again
				keepN[vi] = len(v.Rules)
				wipe[vi] = len(v.Rules) > 0
			default:
				keepN[vi] = len(v.Rules)
			}
		}
		keep := func(v int) int { return keepN[v] }
		err := safely(tr, "AddOrUpdateRouters", func() error { return mgr.AddOrUpdateRouters(toConfig(mgrName, ln.Vhosts, keep)) })
		rw := mgr.GetRouterWrapperByName(mgrName)
		refused := err != nil || rw == nil || rw.GetRouters() == nil
		tr.Emit(vh.Ev{"ev": "cfg", "via": "manager", "part": ln.Part, "vhosts": evVhosts(ln.Vhosts, keep), "err": refused})
		if refused {
			return nil
		}
		rs0 := rw.GetRouters()
		live := make([]int, len(ln.Vhosts)) // number of rules each real virtual host holds
		for vi, v := range ln.Vhosts {
			live[vi] = keepN[vi]
			for ri, r := range v.Rules[:keepN[vi]] {
				applyQs(rs0, vi, ri, r)
			}
		}
		where := func(before, after []int, grow bool) int {
			for i := range before {
				if (grow && after[i] == before[i]+1) || (!grow && after[i] == 0 && before[i] != 0) {
					return i + 1
				}
			}
			return 0
		}
		for _, vi := range rng.Perm(len(ln.Vhosts)) {
			v := ln.Vhosts[vi]
			d := v.Doms[rng.Intn(len(v.Doms))]
			start := keepN[vi]
			if wipe[vi] {
				before := routersLens(rw)
				e := safely(tr, "RemoveAllRoutes", func() error { return mgr.RemoveAllRoutes(mgrName, d.text()) })
				idx := 0
				if e == nil {
					// -1: the call succeeded but no virtual host lost its routes (it hit one that had none)
					if idx = where(before, routersLens(rw), false); idx == 0 {
						idx = -1
					}
				}
				tr.Emit(vh.Ev{"ev": "removeall", "dom": d, "idx": idx})
				if idx > 0 {
					live[idx-1] = 0
				} else if idx == -1 {
					live[vi] = 0
				}
				start = 0
			}
			for _, r := range v.Rules[start:] {
				before := routersLens(rw)
				rc := toRouter(r)
				e := safely(tr, "AddRoute", func() error { return mgr.AddRoute(mgrName, d.text(), &rc) })
				idx := 0
				if e == nil {
					idx = where(before, routersLens(rw), true)
				}
				tr.Emit(vh.Ev{"ev": "addroute", "dom": d, "rule": r, "idx": idx})
				if idx > 0 {
					applyQs(rs0, idx-1, live[idx-1], r)
					live[idx-1]++
				}
			}
		}
		rs := rw.GetRouters()
		var wg sync.WaitGroup
		for g := 0; g < *lookers; g++ {
			wg.Add(1)
			go func(g int) {
				defer wg.Done()
				// every request is looked up by two goroutines, concurrently with the others
				for i, p := range looks {
					if i%*lookers == g || (i+1)%*lookers == g {
						lookup(tr, rs, p.a, p.q, g)
					}
				}
			}(g)
		}
		wg.Wait()
		nlook += 2 * len(looks)
		return extras(&ln, rs)
	})
	vh.Must(err, "c04 cases")
	fmt.Printf("cases=%d lookups=%d events=%d\n", ncase, nlook, tr.Len())
}
