package main

// Concurrent in-place update part of C04: a lookup is held inside the rule list of a virtual host (through the
// getter of a harness variable used by the variable rules of the list, i.e. with what the configuration API offers,
// no hook) while RemoveAllRoutes / AddRoute / AddOrUpdateRouters run through the RouterManager; the lookup then
// goes on and its answer is recorded. TLC (RouteScanTrace.tla) decides whether it is the answer of one version.

import (
	"context"
	"encoding/json"
	"fmt"
	"sync/atomic"
	"time"

	v2 "mosn.io/mosn/pkg/config/v2"
	"mosn.io/mosn/pkg/router"
	"mosn.io/mosn/pkg/types"
	"mosn.io/pkg/variable"
	"verif/vh"
)

type srule struct {
	C string `json:"c"`
	M bool   `json:"m"`
}
type sop struct {
	Op    string  `json:"op"`
	Rule  *srule  `json:"rule,omitempty"`
	Rules []srule `json:"rules,omitempty"`
}
type scase struct {
	Kind   string  `json:"kind"`
	Old    []srule `json:"old"`
	Look   string  `json:"look"`
	P      int     `json:"p"`
	Script []sop   `json:"script"`
	Sens   bool    `json:"sens"`
}

const maxGate = 8

var (
	gateArmed   int32
	gatePos     int32
	gateEntered chan struct{}
	gateResume  chan struct{}
)

func gateName(j int) string { return fmt.Sprintf("c04_gate_%d", j) }

func registerGates() {
	for j := 0; j <= maxGate; j++ {
		j := j
		vh.Must(variable.Register(variable.NewStringVariable(gateName(j), nil,
			func(ctx context.Context, _ *variable.IndexedValue, _ interface{}) (string, error) {
				if j > 0 && atomic.LoadInt32(&gatePos) == int32(j) && atomic.CompareAndSwapInt32(&gateArmed, 1, 0) {
					close(gateEntered) // the lookup is inside the list, evaluating rule j
					<-gateResume
				}
				return "go", nil
			}, nil, 0)), "register gate variable")
	}
}

// scanRouter: a variable rule that first reads its gate variable (always "go") and then holds iff m.
func scanRouter(r srule, gate int) v2.Router {
	var out v2.Router
	method := "NEVER"
	if r.M {
		method = "GET"
	}
	out.Match.Variables = []v2.VariableMatcher{{Name: gateName(gate), Value: "go"}, {Name: types.VarMethod, Value: method}}
	out.Route.ClusterName = r.C
	return out
}

func scanConfig(name string, rules []srule, gated bool) *v2.RouterConfiguration {
	cfg := &v2.RouterConfiguration{}
	cfg.RouterConfigName = name
	x := v2.VirtualHost{Name: "vh", Domains: []string{"*"}}
	for i, r := range rules {
		g := 0
		if gated {
			g = i + 1
		}
		x.Routers = append(x.Routers, scanRouter(r, g))
	}
	cfg.VirtualHosts = []v2.VirtualHost{x}
	return cfg
}

func runScan(casesPath, tracePath string, grace time.Duration) {
	registerGates()
	tr := vh.NewTrace(tracePath)
	defer tr.Close()
	mgr := router.NewRouterManager()
	const name = "c04-scan"
	n, overtaken := 0, 0
	err := vh.ReadCases(casesPath, func(raw json.RawMessage) error {
		var c scase
		if err := json.Unmarshal(raw, &c); err != nil {
			return err
		}
		if c.Kind != "scan" {
			return nil
		}
		if len(c.Old) > maxGate {
			return fmt.Errorf("old list longer than %d", maxGate)
		}
		n++
		if err := mgr.AddOrUpdateRouters(scanConfig(name, c.Old, true)); err != nil {
			return err
		}
		rw := mgr.GetRouterWrapperByName(name)
		if rw == nil || rw.GetRouters() == nil {
			return fmt.Errorf("no routers")
		}
		tr.Emit(vh.Ev{"ev": "scfg", "rules": c.Old})
		rs := rw.GetRouters()
		gateEntered, gateResume = make(chan struct{}), make(chan struct{})
		atomic.StoreInt32(&gatePos, int32(c.P))
		atomic.StoreInt32(&gateArmed, 1)
		type answer struct {
			first string
			all   []string
		}
		result := make(chan answer, 1)
		go func() {
			a := answer{all: []string{}}
			defer func() { result <- a }()
			defer guard(tr, "lookup-during-update", vh.Ev{})
			ctx := variable.NewVariableContext(context.Background())
			variable.SetString(ctx, types.VarHost, "a.c")
			variable.SetString(ctx, types.VarPath, "/a")
			variable.SetString(ctx, types.VarMethod, "GET")
			if c.Look == "first" {
				a.first = clusterOf(ctx, rs.MatchRoute(ctx, nil))
			} else {
				for _, r := range rs.MatchAllRoutes(ctx, nil) {
					a.all = append(a.all, clusterOf(ctx, r))
				}
			}
		}()
		select {
		case <-gateEntered:
		case <-time.After(10 * time.Second):
			return fmt.Errorf("lookup never reached rule %d of %v", c.P, c.Old)
		}
		tr.Emit(vh.Ev{"ev": "sstart", "look": c.Look, "p": c.P})
		updated := make(chan error, 1)
		go func() {
			for _, u := range c.Script {
				var e error
				switch u.Op {
				case "rm":
					e = safely(tr, "RemoveAllRoutes", func() error { return mgr.RemoveAllRoutes(name, "*") })
					tr.Emit(vh.Ev{"ev": "supd", "op": "rm"})
				case "add":
					rc := scanRouter(*u.Rule, 0)
					e = safely(tr, "AddRoute", func() error { return mgr.AddRoute(name, "*", &rc) })
					tr.Emit(vh.Ev{"ev": "supd", "op": "add", "rule": u.Rule})
				case "rep":
					rules := u.Rules
					if rules == nil {
						rules = []srule{}
					}
					e = safely(tr, "AddOrUpdateRouters", func() error { return mgr.AddOrUpdateRouters(scanConfig(name, rules, false)) })
					tr.Emit(vh.Ev{"ev": "supd", "op": "rep", "rules": rules})
				}
				if e != nil {
					updated <- e
					return
				}
			}
			updated <- nil
		}()
		// the lookup goes on once the updates are through; if they have to wait for the lookup (it holds the
		// lock of the virtual host) they cannot get through first: go on after the grace period
		overtook := false
		var uerr error
		select {
		case uerr = <-updated:
			overtook = true
		case <-time.After(grace):
		}
		close(gateResume)
		a := <-result
		if !overtook {
			uerr = <-updated
		}
		if uerr != nil {
			return fmt.Errorf("update failed: %v", uerr)
		}
		if overtook {
			overtaken++
		}
		tr.Emit(vh.Ev{"ev": "send", "first": a.first, "all": a.all, "overtook": overtook})
		return nil
	})
	vh.Must(err, "c04 scan cases")
	fmt.Printf("scan cases=%d overtaken=%d events=%d\n", n, overtaken, tr.Len())
}
