package main

// A scripted upstream STREAM LAYER under the real proxy (cases with layer = "script").
//
// pkg/proxy talks to an upstream through types.ConnectionPool / types.StreamSender / types.Stream and is told about
// the attempt through two call-backs of its upstreamRequest: OnReceive (the answer) and OnResetStream (the stream was
// reset).  The shipped stream layers deliver them in a few orders only; the order "answer, then a reset of the same
// attempt" needs a resetter that has passed BaseStream.ResetStream's state test when the answer destroys the stream
// (spec/stream/BaseStream.tla: not claimed impossible) - a window of a few instructions no gate reaches.  The proxy's
// duty (exactly one reply) must not depend on which orders today's codecs happen to produce: here the pool of the
// protocol "Scripted" hands out streams built on the real stream.BaseStream whose events the driver releases one by
// one, so every order DownstreamImpl.tla allows its upstream process is driven through the real downstream.go /
// upstream.go with the real timers and gates.  Routes /s/<cluster>/ of the listener select the protocol per route
// (upstream_protocol); hosts, load balancing, retry policy and time-outs are those of the ordinary routes.
//
// Behaviours per arrival (header X-Script, as for the scripted HTTP/1 upstream): ok | sNNN | close | hang | gate | gs503 |
// gateclose, and the two-event ones
//
//	okclose   answer 200, then reset (ConnectionTermination) at once, from the same goroutine
//	gokclose  wait for the driver, answer 200; wait for the driver, reset with ConnectionTermination (retried under retry_on)
//	gokrst    the same with StreamRemoteReset (not retried: the error reply is due)

import (
	"context"
	"fmt"
	"strconv"
	"strings"
	"sync"
	"sync/atomic"

	"github.com/valyala/fasthttp"
	"mosn.io/api"
	"mosn.io/mosn/pkg/protocol"
	mosnhttp "mosn.io/mosn/pkg/protocol/http"
	str "mosn.io/mosn/pkg/stream"
	"mosn.io/mosn/pkg/types"
	"mosn.io/pkg/buffer"
	"mosn.io/pkg/variable"
	"verif/e2e"
)

const scriptProto = api.ProtocolName("Scripted")

// upRegistry is what the driver needs of the scripted upstream side, whichever layer provides it.
type upRegistry interface {
	Arrivals(token string) []e2e.Arrival
	Release(token string, attempt int)
	ReleaseAll()
}

// scriptRegistry numbers the attempts per token, logs arrivals and hands the driver's releases to the behaviours:
// one Release = one step of the behaviour of that arrival.
type scriptRegistry struct {
	mu       sync.Mutex
	attempts map[string]int
	log      []e2e.Arrival
	steps    map[string]chan struct{}
	refused  map[string]bool
	nextID   uint64
}

var sreg = &scriptRegistry{attempts: map[string]int{}, steps: map[string]chan struct{}{}, refused: map[string]bool{}}

func (r *scriptRegistry) arrive(a *e2e.Arrival) chan struct{} {
	r.mu.Lock()
	defer r.mu.Unlock()
	a.Attempt = r.attempts[a.Token]
	r.attempts[a.Token]++
	ch := make(chan struct{}, 8)
	r.steps[fmt.Sprintf("%s#%d", a.Token, a.Attempt)] = ch
	return ch
}

func (r *scriptRegistry) record(a e2e.Arrival) { r.mu.Lock(); r.log = append(r.log, a); r.mu.Unlock() }

func (r *scriptRegistry) Arrivals(token string) []e2e.Arrival {
	r.mu.Lock()
	defer r.mu.Unlock()
	out := []e2e.Arrival{}
	for _, a := range r.log {
		if a.Token == token {
			out = append(out, a)
		}
	}
	return out
}

func (r *scriptRegistry) Release(token string, attempt int) {
	r.mu.Lock()
	ch := r.steps[fmt.Sprintf("%s#%d", token, attempt)]
	r.mu.Unlock()
	if ch != nil {
		select {
		case ch <- struct{}{}:
		default:
		}
	}
}

// ReleaseAll ends every waiting behaviour (end of a run): nothing more is delivered.
func (r *scriptRegistry) ReleaseAll() {
	r.mu.Lock()
	for k, ch := range r.steps {
		close(ch)
		delete(r.steps, k)
	}
	r.mu.Unlock()
}

type scriptStreamFactory struct{}

func (scriptStreamFactory) CreateClientStream(context.Context, types.ClientConnection, types.StreamConnectionEventListener, api.ConnectionEventListener) types.ClientStreamConnection {
	return nil
}
func (scriptStreamFactory) CreateServerStream(context.Context, api.Connection, types.ServerStreamConnectionEventListener) types.ServerStreamConnection {
	return nil
}
func (scriptStreamFactory) CreateBiDirectStream(context.Context, types.ClientConnection, types.StreamConnectionEventListener, types.ServerStreamConnectionEventListener) types.ClientStreamConnection {
	return nil
}
func (scriptStreamFactory) ProtocolMatch(context.Context, string, []byte) error {
	return protocol.FAILED
}

// registerScriptLayer registers the protocol; hosts with one of the refused addresses cannot be connected to.
func registerScriptLayer(refused ...string) error {
	for _, a := range refused {
		sreg.refused[a] = true
	}
	return protocol.RegisterProtocol(scriptProto, func(ctx context.Context, host types.Host) types.ConnectionPool { return &scriptPool{host: host} },
		scriptStreamFactory{}, protocol.GetStatusCodeMapping{})
}

type scriptPool struct{ host types.Host }

func (p *scriptPool) Protocol() api.ProtocolName        { return scriptProto }
func (p *scriptPool) CheckAndInit(context.Context) bool { return true }
func (p *scriptPool) TLSHashValue() *types.HashValue    { return p.host.TLSHashValue() }
func (p *scriptPool) Shutdown()                         {}
func (p *scriptPool) Close()                            {}
func (p *scriptPool) Host() types.Host                  { return p.host }
func (p *scriptPool) UpdateHost(h types.Host)           { p.host = h }
func (p *scriptPool) NewStream(ctx context.Context, receiver types.StreamReceiveListener) (types.Host, types.StreamSender, types.PoolFailureReason) {
	if sreg.refused[p.host.AddressString()] {
		return p.host, nil, types.ConnectionFailure
	}
	s := &scriptStream{ctx: ctx, receiver: receiver, id: atomic.AddUint64(&sreg.nextID, 1)}
	s.AddEventListener(s)
	return p.host, s, ""
}

// scriptStream is the client stream of one attempt: the real BaseStream (listeners, state word, mutex) plus the script.
type scriptStream struct {
	str.BaseStream
	id       uint64
	ctx      context.Context
	receiver types.StreamReceiveListener
	hdr      api.HeaderMap
	body     []byte
	sent     bool
	dead     uint32 // the stream was reset: a stream layer delivers nothing of a reset stream
}

func (s *scriptStream) ID() uint64                            { return s.id }
func (s *scriptStream) GetStream() types.Stream               { return s }
func (s *scriptStream) OnResetStream(types.StreamResetReason) { atomic.StoreUint32(&s.dead, 1) }
func (s *scriptStream) OnDestroyStream()                      {}

func (s *scriptStream) AppendHeaders(ctx context.Context, h api.HeaderMap, endStream bool) error {
	s.hdr = h
	if endStream {
		s.arrived()
	}
	return nil
}

func (s *scriptStream) AppendData(ctx context.Context, data buffer.IoBuffer, endStream bool) error {
	if data != nil {
		s.body = append(s.body, data.Bytes()...)
	}
	if endStream {
		s.arrived()
	}
	return nil
}

func (s *scriptStream) AppendTrailers(ctx context.Context, trailers api.HeaderMap) error {
	s.arrived()
	return nil
}

// arrived: the complete request has reached "the upstream"; its behaviour runs on a goroutine of its own, as the IO
// goroutine of a real upstream connection would.
func (s *scriptStream) arrived() {
	if s.sent || s.receiver == nil {
		return
	}
	s.sent = true
	get := func(k string) string {
		if s.hdr == nil {
			return ""
		}
		v, _ := s.hdr.Get(k)
		return v
	}
	a := e2e.Arrival{Token: get("X-Token"), Upstream: "script", Body: string(s.body)}
	step := sreg.arrive(&a)
	script := strings.Split(get("X-Script"), ",")
	b := "ok"
	if len(script) > 0 && script[0] != "" {
		if a.Attempt < len(script) {
			b = script[a.Attempt]
		} else {
			b = script[len(script)-1]
		}
	}
	a.Behave = b
	sreg.record(a)
	go s.behave(b, a, step)
}

func (s *scriptStream) behave(b string, a e2e.Arrival, step chan struct{}) {
	// answer: what clientStreamReceiverWrapper + the HTTP/1 client stream do - the stream is destroyed, then the receiver
	// is given the response.  final=false: a resetter has passed the state test already (it delivers its reset below).
	answer := func(code int, final bool) {
		if atomic.LoadUint32(&s.dead) == 1 {
			return
		}
		h := mosnhttp.ResponseHeader{ResponseHeader: &fasthttp.ResponseHeader{}}
		h.SetStatusCode(code)
		h.Set("X-Token", a.Token)
		h.Set("X-Upstream", "script")
		h.Set("X-Attempt", strconv.Itoa(a.Attempt))
		_ = variable.SetString(s.ctx, types.VarHeaderStatus, strconv.Itoa(code))
		if final {
			s.DestroyStream()
		}
		s.receiver.OnReceive(s.ctx, h, buffer.NewIoBufferString(a.Token), nil)
	}
	reset := func(reason types.StreamResetReason) { s.ResetStream(reason) } // listeners' OnResetStream, then DestroyStream
	wait := func() bool { _, ok := <-step; return ok }
	switch {
	case b == "ok":
		answer(200, true)
	case b == "close":
		reset(types.UpstreamReset)
	case b == "hang":
		wait()
	case b == "gate":
		if wait() {
			answer(200, true)
		}
	case b == "gs503":
		if wait() {
			answer(503, true)
		}
	case b == "gateclose":
		if wait() {
			reset(types.UpstreamReset)
		}
	case b == "okclose":
		answer(200, false)
		reset(types.StreamConnectionTermination)
	case b == "gokclose", b == "gokrst":
		if !wait() {
			return
		}
		answer(200, false)
		if !wait() {
			s.DestroyStream()
			return
		}
		if b == "gokrst" {
			reset(types.StreamRemoteReset)
		} else {
			reset(types.StreamConnectionTermination)
		}
	case strings.HasPrefix(b, "s"):
		n, _ := strconv.Atoi(b[1:])
		answer(n, true)
	default:
		answer(200, true)
	}
}
