package main

// The shape of the request as a value class (spec/lifecycle/RequestShape.tla): what a case says about the body of the
// request is realised here - the wire form the client uses (Wire) and what the scripted stream filter "c03body" does to
// the request before it is routed (Fop).  Together they decide what the forwarding phases of the proxy see:
// no body buffer / a body buffer of length zero / a body, with or without trailers.

import (
	"context"
	"fmt"
	"strings"

	"mosn.io/api"
	"mosn.io/mosn/pkg/protocol"
	"mosn.io/pkg/buffer"
	"verif/e2e"
)

const (
	bodyOpHeader = "x-body-op" // read by the filter; plain lower-case key: valid for HTTP/1, HTTP/2 and bolt headers alike
	fillBody     = "fill-0123456789abcdef0123456789abcdef"
)

func wireBody() string { return "req-" + strings.Repeat("x", 64) }

// bodyFilter is the scripted receiver filter "c03body" (phase BeforeRoute): a stand-in for a transcoding filter that
// replaces the request body through the public filter API.
//
//	strip : SetRequestData(an empty buffer)      - the request keeps a body buffer, of length zero
//	fill  : SetRequestData(a payload)            - a request without a body gets one
//	trail : SetRequestTrailers(one trailer field)
type bodyFilter struct {
	h api.StreamReceiverFilterHandler
}

func (f *bodyFilter) OnDestroy()                                                {}
func (f *bodyFilter) SetReceiveFilterHandler(h api.StreamReceiverFilterHandler) { f.h = h }
func (f *bodyFilter) OnReceive(ctx context.Context, headers api.HeaderMap, buf api.IoBuffer, trailers api.HeaderMap) api.StreamFilterStatus {
	op, ok := headers.Get(bodyOpHeader)
	if !ok {
		return api.StreamFilterContinue
	}
	switch op {
	case "strip":
		headers.Del("content-length") // the declared length belongs to the body that is replaced
		headers.Del("Content-Length")
		f.h.SetRequestData(buffer.NewIoBuffer(0))
	case "fill":
		headers.Del("content-length")
		headers.Del("Content-Length")
		f.h.SetRequestData(buffer.NewIoBufferString(fillBody))
	case "trail":
		f.h.SetRequestTrailers(protocol.CommonHeader{"x-shape-trailer": "1"})
	}
	return api.StreamFilterContinue
}

type bodyFilterFactory struct{}

func (bodyFilterFactory) CreateFilterChain(ctx context.Context, callbacks api.StreamFilterChainFactoryCallbacks) {
	callbacks.AddStreamReceiverFilter(&bodyFilter{}, api.BeforeRoute)
}

func init() {
	api.RegisterStream("c03body", func(map[string]interface{}) (api.StreamFilterChainFactory, error) { return bodyFilterFactory{}, nil })
}

// forwardedLen is the length of the body the upstream must receive for this case (what the client put on the wire,
// unless the filter replaced it); -1 = not judged here: over bolt a body replaced through SetRequestData does not
// reach the upstream (the proxy rewrites the content buffer in place, the codec takes an unchanged buffer object for
// unchanged content and forwards the raw frame) - what is forwarded is C01's to judge, C03 judges that the request ends.
func forwardedLen(c scase, wireLen int, bolt bool) int {
	switch c.Fop {
	case "strip", "fill":
		if bolt {
			return -1
		}
		if c.Fop == "strip" {
			return 0
		}
		return len(fillBody)
	}
	return wireLen
}

// sendHTTP1 puts the request on the wire in the form c.Wire; returns the body length on the wire.
//
//	none     : GET, no body headers          cl0     : POST, Content-Length: 0      chunked0 : POST, chunked, last chunk only
//	cl       : POST, Content-Length: n, body  chunked : POST, chunked, one chunk and the last chunk
func sendHTTP1(hc *e2e.HTTPClient, c scase, uri string, hdr map[string]string) (int, error) {
	method, tail, n := "POST", "", 0
	switch c.Wire {
	case "none":
		method = "GET"
		tail = "\r\n"
	case "cl0":
		tail = "Content-Length: 0\r\n\r\n"
	case "chunked0":
		tail = "Transfer-Encoding: chunked\r\n\r\n0\r\n\r\n"
	case "cl":
		b := wireBody()
		n = len(b)
		tail = fmt.Sprintf("Content-Length: %d\r\n\r\n%s", n, b)
	case "chunked":
		b := wireBody()
		n = len(b)
		tail = fmt.Sprintf("Transfer-Encoding: chunked\r\n\r\n%x\r\n%s\r\n0\r\n\r\n", n, b)
	default:
		return 0, fmt.Errorf("unknown HTTP/1 wire form %q", c.Wire)
	}
	var sb strings.Builder
	fmt.Fprintf(&sb, "%s %s HTTP/1.1\r\nHost: test.local\r\n", method, uri)
	for k, v := range hdr {
		fmt.Fprintf(&sb, "%s: %s\r\n", k, v)
	}
	sb.WriteString(tail)
	return n, hc.SendRaw(sb.String())
}

// sendHTTP2 puts the request on stream 1 as the frame sequence c.Wire names; returns the body length on the wire.
//
//	h        : HEADERS+END_STREAM                       h.d0    : HEADERS, DATA(0)+END_STREAM
//	h.d      : HEADERS, DATA(n)+END_STREAM               h.d.d0  : HEADERS, DATA(n), DATA(0)+END_STREAM
//	h.t      : HEADERS, trailers+END_STREAM              h.d0.t  : HEADERS, DATA(0), trailers+END_STREAM
//	h.d.t    : HEADERS, DATA(n), trailers+END_STREAM
func sendHTTP2(hc *e2e.H2Client, c scase, uri string, hdr map[string]string) (int, error) {
	var parts []string
	var trailers map[string]string
	n := 0
	fs := strings.Split(c.Wire, ".")
	if fs[0] != "h" {
		return 0, fmt.Errorf("unknown HTTP/2 wire form %q", c.Wire)
	}
	for _, f := range fs[1:] {
		switch f {
		case "d0":
			parts = append(parts, "")
		case "d":
			parts = append(parts, wireBody())
			n += len(wireBody())
		case "t":
			trailers = map[string]string{"x-client-trailer": "1"}
		default:
			return 0, fmt.Errorf("unknown HTTP/2 wire form %q", c.Wire)
		}
	}
	method := "POST"
	if len(fs) == 1 {
		method = "GET"
	}
	return n, hc.SendParts(method, uri, hdr, parts, trailers)
}

// boltBody is the content of the bolt request frame for c.Wire:  c0 = content length 0,  c = content.
func boltBody(c scase, tok string) (string, error) {
	switch c.Wire {
	case "c0":
		return "", nil
	case "c":
		return tok, nil
	}
	return "", fmt.Errorf("unknown bolt wire form %q", c.Wire)
}
