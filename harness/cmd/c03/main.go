// Driver for C03 (and the lifecycle part of C10/C17): realises each TLC-enumerated guided-schedule
// case on an in-process MOSN (HTTP/1), holding goroutines of the real proxy at verifhook gates
// while a chosen concurrent event happens, and records the life-cycle trace for TLC.
package main

import (
	"context"
	"encoding/json"
	"flag"
	"fmt"
	"os"
	"strings"
	"sync/atomic"
	"time"

	"mosn.io/api"
	v2 "mosn.io/mosn/pkg/config/v2"
	"mosn.io/mosn/pkg/metrics"
	"mosn.io/mosn/pkg/types"
	"mosn.io/mosn/pkg/upstream/cluster"
	"verif/e2e"
	"verif/gate"
	"verif/vh"
)

type scase struct {
	Cluster string   `json:"cluster"`
	Script  []string `json:"script"`
	Try     bool     `json:"try"`
	Hold    string   `json:"hold"`
	During  string   `json:"during"`
	Hold2   string   `json:"hold2"`
	Body    bool     `json:"body"` // the request carries a body (HTTP: POST with Content-Length; a bolt request always has one)
	// Steps, when present, is an explicit schedule (derived from a TLC behaviour of DownstreamImpl):
	// hold:<point>[#n] | arrive:<point> | release:<point> | await:<event name> | do:<gtimer|ptimer|upresp|upclose|clientreset>
	Steps []string `json:"steps"`
	// Shape of the request (spec/lifecycle/RequestShape.tla); empty Wire = the plain form chosen by Body.
	Wire     string `json:"wire"`     // how the client puts the body on the wire (per protocol, see shapes.go)
	Fop      string `json:"fop"`      // what the scripted body filter does before routing: keep | strip | fill | trail
	Data     string `json:"data"`     // what the forwarding phases see (derived by the spec): absent | empty | bytes
	Trailers string `json:"trailers"` // absent | present
	// Layer "script": the attempts go to the scripted upstream stream layer (scriptlayer.go) instead of a real upstream
	Layer string `json:"layer"`
}

// timerHeld reports whether the schedule of the case holds a per-try timer callback at its start: such a callback may
// complete for an attempt whose end the worker has handled meanwhile (Stop cannot cancel a callback that is running).
func timerHeld(c scase) bool {
	if strings.HasPrefix(c.Hold, "ds.ptimer.fire") || strings.HasPrefix(c.Hold2, "ds.ptimer.fire") {
		return true
	}
	for _, st := range c.Steps {
		if strings.HasPrefix(st, "hold:ds.ptimer.fire") {
			return true
		}
	}
	return false
}

const (
	globalMs = 120
	tryMs    = 40
	budget   = 3 // retryState: max(3, num_retries) with num_retries = 2
)

func u32(x interface{}) uint64 {
	switch v := x.(type) {
	case uint32:
		return uint64(v)
	case uint64:
		return v
	case int:
		return uint64(v)
	}
	return 0
}

// dsClient is the downstream side of one run (raw HTTP/1 or raw bolt connection).
type dsClient interface {
	Recv(d, grace time.Duration) e2e.Outcome
	Close()
}

func method(c scase) string {
	if c.Body {
		return "POST"
	}
	return "GET"
}

func reqBody(c scase, tok string) string {
	if c.Body {
		return "req-" + strings.Repeat("x", 64)
	}
	return ""
}

// readBooks sums the circuit-breaker resources of the four clusters.
func readBooks() (rq, pd, rt int64) {
	for _, cn := range []string{"direct", "r1", "r2", "all"} {
		r := e2e.Resources(cn)
		rq, pd, rt = rq+r["requests"], pd+r["pending"], rt+r["retries"]
	}
	return
}

// setHealth flags every host of a cluster as failing (or passing again) its active health check.
func setHealth(clusterName string, healthy bool) {
	snap := cluster.GetClusterMngAdapterInstance().GetClusterSnapshot(context.Background(), clusterName)
	if snap == nil {
		return
	}
	snap.HostSet().Range(func(h types.Host) bool {
		if healthy {
			h.ClearHealthFlag(api.FAILED_ACTIVE_HC)
		} else {
			h.SetHealthFlag(api.FAILED_ACTIVE_HC)
		}
		return true
	})
}

func main() {
	cases := flag.String("cases", "", "cases file")
	out := flag.String("trace", "", "trace output")
	res := flag.String("results", "", "per-case result lines")
	shard := flag.Int("shard", 0, "shard index")
	shards := flag.Int("shards", 1, "number of shards")
	proto := flag.String("proto", "http1", "http1 | http2 | bolt | boltoneway (downstream and upstream protocol of the listener under test)")
	books := flag.Bool("books", false, "give every cluster (high) circuit-breaker thresholds so that its resources count (C10 guided part)")
	shapes := flag.Bool("shapes", false, "install the scripted body filter (request-shape cases: wire form x filter operation)")
	flag.Parse()
	isBolt := *proto == "bolt" || *proto == "boltoneway"
	isH2 := *proto == "http2"
	if isBolt {
		e2e.RegisterBolt()
	}
	oneway := *proto == "boltoneway"
	if !vh.HooksCompiled() {
		vh.Must(fmt.Errorf("built without -tags verif"), "hooks")
	}
	tmp, _ := os.MkdirTemp("", "c03-")
	defer os.RemoveAll(tmp)

	reg := e2e.NewRegistry()
	var upAddr string
	if isBolt {
		bu := e2e.NewBoltUpstream("u1", reg)
		defer bu.Close()
		upAddr = bu.Addr
	} else if isH2 {
		hu := e2e.NewH2Upstream("u1", reg)
		defer hu.Close()
		upAddr = hu.Addr
	} else {
		hu := e2e.NewHTTPUpstream("u1", reg)
		defer hu.Close()
		upAddr = hu.Addr
	}
	ref1, ref2, ref3, ref4 := e2e.RefusedAddr(), e2e.RefusedAddr(), e2e.RefusedAddr(), e2e.RefusedAddr()
	scripted := !isBolt && !isH2 // the scripted stream layer answers in HTTP/1 terms: routes /s/<cluster>/ of the HTTP/1 listener
	if scripted {
		vh.Must(registerScriptLayer(ref1, ref2, ref3, ref4), "scripted stream layer")
	}
	laddr := e2e.ListenerAddr()
	rrr := v2.LbType("LB_REQUEST_ROUNDROBIN") // deterministic host order per request: index 0 first, next on retry
	clusters := e2e.BuildClusters([]e2e.ClusterSpec{
		{Name: "direct", Hosts: []string{upAddr}, LbType: rrr},
		{Name: "r1", Hosts: []string{ref1, upAddr}, LbType: rrr},
		{Name: "r2", Hosts: []string{ref1, ref2, upAddr}, LbType: rrr},
		{Name: "all", Hosts: []string{ref1, ref2, ref3, ref4}, LbType: rrr},
	})
	if *books { // a resource with threshold 0 does not count at all
		for i := range clusters {
			clusters[i].CirBreThresholds = v2.CircuitBreakers{Thresholds: []v2.Thresholds{{MaxConnections: 1000,
				MaxPendingRequests: 1000, MaxRequests: 1000, MaxRetries: 1000}}}
		}
	}
	routes := []e2e.RouteSpec{}
	for _, c := range []string{"direct", "r1", "r2", "all"} {
		c := c
		rs := e2e.RouteSpec{Prefix: "/" + c + "/", Cluster: c, RetryOn: true, NumRetries: 2}
		if isBolt { // xprotocol requests are routed by a header
			rs.Prefix = ""
			rs.Extra = func(r *v2.Router) { r.Match = v2.RouterMatch{Headers: []v2.HeaderMatcher{{Name: "cluster", Value: c}}} }
		}
		routes = append(routes, rs)
		if scripted {
			routes = append(routes, e2e.RouteSpec{Prefix: "/s/" + c + "/", Cluster: c, RetryOn: true, NumRetries: 2,
				Extra: func(r *v2.Router) { r.Route.UpstreamProtocol = string(scriptProto) }})
		}
	}
	ls := e2e.ListenerSpec{Name: "c03", Addr: laddr, Downstream: "Http1", Upstream: "Http1", Routes: routes}
	if isBolt {
		ls.Downstream, ls.Upstream, ls.SubProto = "X", "X", "bolt"
	}
	if isH2 {
		ls.Downstream, ls.Upstream = "Http2", "Http2"
	}
	if *shapes {
		ls.StreamFilters = []v2.Filter{{Type: "c03body", Config: map[string]interface{}{}}}
	}
	lst := e2e.BuildListener(ls)
	m := e2e.StartMosn(e2e.BuildConfig([]v2.Listener{lst}, clusters, e2e.ScratchLog(tmp)))
	defer m.Close()
	vh.Must(e2e.WaitListen(laddr, 5*time.Second), "mosn listener")

	tr := vh.NewTrace(*out)
	defer tr.Close()
	rs := vh.NewOut(*res)
	defer rs.Close()

	var minRid uint64 // events of streams older than the current run are recorded as notes
	var firstRid uint64
	var sentAttempts int64 // attempts of the current run for which the pool handed out an upstream stream
	sched := gate.Install(func(e gate.Event) {
		var rid uint64
		if len(e.KV) > 0 {
			rid = u32(e.KV[0])
		}
		if !strings.HasPrefix(e.Name, "ds.") && !strings.HasPrefix(e.Name, "us.") {
			return
		}
		if rid < atomic.LoadUint64(&minRid) {
			tr.Emit(vh.Ev{"ev": "note", "what": "stale:" + e.Name, "rid": rid})
			return
		}
		switch e.Name {
		case "ds.new":
			atomic.CompareAndSwapUint64(&firstRid, 0, rid)
			tr.Emit(vh.Ev{"ev": "new", "rid": rid, "oneway": e.KV[1]})
		case "us.attempt":
			if e.KV[2] == "sent" {
				atomic.AddInt64(&sentAttempts, 1)
			}
			tr.Emit(vh.Ev{"ev": "attempt", "rid": rid, "host": e.KV[1], "res": e.KV[2]})
		case "ds.reply":
			tr.Emit(vh.Ev{"ev": "reply", "rid": rid, "code": e.KV[1], "end": e.KV[2]})
		case "ds.clientreset":
			tr.Emit(vh.Ev{"ev": "clientreset", "rid": rid})
		case "ds.clean":
			tr.Emit(vh.Ev{"ev": "clean", "rid": rid})
		default:
			ev := vh.Ev{"ev": "note", "what": e.Name, "rid": rid}
			if len(e.KV) > 1 {
				ev["a"] = fmt.Sprint(e.KV[1:]...)
			}
			switch e.Name {
			case "ds.loop.phase": // the worker leaves receive() for a retry: it has handled the end of the attempt (setupRetry)
				if len(e.KV) > 2 {
					if ph, ok := e.KV[2].(int); ok && ph == int(types.Retry) {
						ev["retry"] = true
					}
				}
			case "ds.ptimer": // a per-try timer callback at its compare-and-swap: won = it goes on to time the attempt out
				if len(e.KV) > 1 && e.KV[1] == true {
					ev["ptwon"] = true
				}
			}
			tr.Emit(ev)
		}
	})
	defer sched.Uninstall()

	active := func() int64 { return metrics.NewListenerStats("c03").Counter(metrics.DownstreamRequestActive).Count() }

	idx := 0
	n := 0
	err := vh.ReadCases(*cases, func(raw json.RawMessage) error {
		idx++
		if (idx-1)%*shards != *shard {
			return nil
		}
		var c scase
		if err := json.Unmarshal(raw, &c); err != nil {
			return err
		}
		n++
		// settle: nothing of earlier runs may still be active
		for i := 0; i < 100 && active() != 0; i++ {
			time.Sleep(10 * time.Millisecond)
		}
		sched.Reset()
		atomic.StoreUint64(&firstRid, 0)
		atomic.StoreInt64(&sentAttempts, 0)
		rq0, pd0, rt0 := readBooks()
		if c.Steps == nil {
			c.Steps = []string{} // JSON null is not a TLA+ value
		}
		tok := fmt.Sprintf("t%d-%d", *shard, idx)
		tr.Emit(vh.Ev{"ev": "run", "name": tok, "budget": budget, "case": c, "proto": *proto, "ptheld": timerHeld(c)})
		var ureg upRegistry = reg // the scripted upstream side of this case
		uriBase := "/" + c.Cluster + "/x?tok=" + tok
		if c.Layer == "script" {
			if !scripted {
				vh.Must(fmt.Errorf("case for the scripted stream layer, driver started with -proto %s", *proto), "cases")
			}
			ureg, uriBase = sreg, "/s/"+c.Cluster+"/x?tok="+tok
		}
		// ids grow monotonically: everything >= the next id belongs to this run
		mark := sched.Mark()
		hdr := map[string]string{"X-Token": tok, "X-Script": strings.Join(c.Script, ","),
			"x-mosn-global-timeout": fmt.Sprint(globalMs)}
		if c.Try {
			hdr["x-mosn-try-timeout"] = fmt.Sprint(tryMs)
		}
		holdPoint := c.Hold
		if i := strings.Index(c.Hold, "#"); i > 0 { // "point#n": hold the n-th arrival at the point
			holdPoint = c.Hold[:i]
			nth := 1
			fmt.Sscanf(c.Hold[i+1:], "%d", &nth)
			sched.HoldNth(holdPoint, nth)
		} else if c.Hold != "none" {
			sched.Hold(c.Hold)
		}
		hold2Point := ""
		if c.Hold2 != "" && c.Hold2 != "none" {
			hold2Point = c.Hold2
			nth := 1
			if i := strings.Index(c.Hold2, "#"); i > 0 {
				hold2Point = c.Hold2[:i]
				fmt.Sscanf(c.Hold2[i+1:], "%d", &nth)
			}
			sched.HoldNth(hold2Point, nth)
		}
		for _, st := range c.Steps {
			if strings.HasPrefix(st, "hold:") {
				arg := st[5:]
				pt, nth := arg, 1
				if i := strings.Index(arg, "#"); i > 0 {
					pt = arg[:i]
					fmt.Sscanf(arg[i+1:], "%d", &nth)
				}
				sched.HoldNth(pt, nth)
			}
		}
		if c.Fop != "" && c.Fop != "keep" {
			if !*shapes {
				vh.Must(fmt.Errorf("case with a filter operation, driver started without -shapes"), "cases")
			}
			hdr[bodyOpHeader] = c.Fop
		}
		wireLen := len(reqBody(c, tok))
		var cl dsClient
		if isBolt {
			bc, err := e2e.DialBolt(laddr)
			vh.Must(err, "dial proxy")
			bh := map[string]string{"cluster": c.Cluster, "token": tok, "script": strings.Join(c.Script, ",")}
			if c.Try {
				bh["x-mosn-try-timeout"] = fmt.Sprint(tryMs)
			}
			content := tok
			if c.Wire != "" {
				content, err = boltBody(c, tok)
				vh.Must(err, "wire form")
				if c.Fop != "" && c.Fop != "keep" {
					bh[bodyOpHeader] = c.Fop
				}
			}
			wireLen = len(content)
			vh.Must(bc.Send(oneway, globalMs, bh, content), "send")
			cl = bc
		} else if isH2 {
			hc, err := e2e.DialH2(laddr)
			vh.Must(err, "dial proxy")
			if c.Wire != "" {
				wireLen, err = sendHTTP2(hc, c, "/"+c.Cluster+"/x?tok="+tok, hdr)
				vh.Must(err, "send")
			} else {
				vh.Must(hc.Send(method(c), "/"+c.Cluster+"/x?tok="+tok, hdr, reqBody(c, tok)), "send")
			}
			cl = hc
		} else {
			hc, err := e2e.DialHTTP(laddr)
			vh.Must(err, "dial proxy")
			if c.Wire != "" {
				wireLen, err = sendHTTP1(hc, c, uriBase, hdr)
				vh.Must(err, "send")
			} else {
				vh.Must(hc.Send(method(c), uriBase, hdr, reqBody(c, tok)), "send")
			}
			cl = hc
		}
		reached, happened := false, false
		clientClosed, hostsDown := false, false
		if len(c.Steps) > 0 {
			reached, happened = true, true
			for _, st := range c.Steps {
				kv := strings.SplitN(st, ":", 2)
				arg := kv[1]
				pt, nth := arg, 1
				if i := strings.Index(arg, "#"); i > 0 {
					pt = arg[:i]
					fmt.Sscanf(arg[i+1:], "%d", &nth)
				}
				switch kv[0] {
				case "arrive":
					if !sched.AwaitArrive(pt, 700*time.Millisecond) {
						reached = false
					}
				case "release":
					sched.Release(pt)
				case "pause":
					// let a goroutine that has no hook of its own run up to the lock the held goroutine owns
					ms := 0
					fmt.Sscanf(arg, "%d", &ms)
					time.Sleep(time.Duration(ms) * time.Millisecond)
				case "await":
					if _, ok := sched.AwaitEvent(mark, 700*time.Millisecond, func(e gate.Event) bool { return e.Name == arg }); !ok {
						happened = false
					}
				case "do":
					switch arg {
					case "clientreset":
						cl.Close()
						clientClosed = true
					case "upresp", "upclose", "up503", "upanswer", "upreset":
						// upanswer / upreset: the two events of an attempt that is answered and then reset (gok...): one release each
						want := map[string]string{"upresp": "gate", "upclose": "gateclose", "up503": "gs503", "upanswer": "gok", "upreset": "gok"}[arg]
						dl := time.Now().Add(300 * time.Millisecond)
						done := false
						for time.Now().Before(dl) && !done {
							for _, a := range ureg.Arrivals(tok) {
								if a.Behave == want || (want == "gok" && strings.HasPrefix(a.Behave, want)) {
									ureg.Release(tok, a.Attempt)
									done = true
								}
							}
							time.Sleep(3 * time.Millisecond)
						}
						if !done {
							happened = false
						}
					}
				}
				if !reached {
					break
				}
			}
			sched.ReleaseAll()
		} else if c.Hold != "none" {
			reached = sched.AwaitArrive(holdPoint, 700*time.Millisecond)
			if reached {
				m2 := sched.Mark()
				switch c.During {
				case "gtimer":
					_, happened = sched.AwaitEvent(mark, 500*time.Millisecond, func(e gate.Event) bool {
						return e.Name == "ds.gtimer.done" || (e.Name == "ds.gtimer" && e.KV[1] == false)
					})
				case "ptimer":
					_, happened = sched.AwaitEvent(mark, 400*time.Millisecond, func(e gate.Event) bool {
						return e.Name == "ds.ptimer.done" || (e.Name == "ds.ptimer" && e.KV[1] == false)
					})
				case "upresp", "upclose":
					want := "gate"
					if c.During == "upclose" {
						want = "gateclose"
					}
					// wait until the scripted upstream holds an arrival with the wanted behaviour, then let it act
					dl := time.Now().Add(60 * time.Millisecond) // shorter than the global timeout: the overlap is realised or abandoned
					for time.Now().Before(dl) && !happened {
						for _, a := range ureg.Arrivals(tok) {
							if a.Behave == want {
								ureg.Release(tok, a.Attempt)
								name := "us.recv"
								if want == "gateclose" {
									name = "us.reset"
								}
								_, happened = sched.AwaitEvent(m2, 400*time.Millisecond, func(e gate.Event) bool { return e.Name == name })
							}
						}
						if !happened {
							time.Sleep(5 * time.Millisecond)
						}
					}
				case "clientreset":
					cl.Close()
					clientClosed = true
					_, happened = sched.AwaitEvent(m2, 400*time.Millisecond, func(e gate.Event) bool { return e.Name == "ds.clientreset" })
				case "hostsdown":
					// every host of the cluster fails its health check while the admitted retry has not chosen a host yet
					setHealth(c.Cluster, false)
					hostsDown = true
					happened = true
				}
			}
			if hold2Point != "" && reached {
				// three-party overlap: let the worker run up to its gate, then let the held timer callback finish first
				if sched.AwaitArrive(hold2Point, 300*time.Millisecond) {
					m3 := sched.Mark()
					sched.Release(holdPoint)
					sched.AwaitEvent(m3, 300*time.Millisecond, func(e gate.Event) bool {
						return strings.HasSuffix(e.Name, "timer.done") || ((e.Name == "ds.gtimer" || e.Name == "ds.ptimer") && e.KV[1] == false)
					})
				} else {
					happened = false
				}
			}
			if hold2Point != "" {
				sched.Release(hold2Point)
			}
			sched.Release(holdPoint)
		} else if hold2Point != "" {
			sched.Release(hold2Point)
		}
		// from here on nothing is held: the request must complete by itself within the timeout
		var o e2e.Outcome
		if !clientClosed {
			if oneway {
				// a one-way request has no reply: anything that arrives within the grace time is a violation
				o = cl.Recv(150*time.Millisecond, 0)
				if o.Kind == "timeout" {
					o.Kind = "oneway-none"
				}
			} else {
				o = cl.Recv(time.Duration(globalMs+900)*time.Millisecond, 40*time.Millisecond)
			}
			cl.Close()
		} else {
			o = e2e.Outcome{Kind: "closed"}
		}
		reg.ReleaseAll()
		sreg.ReleaseAll()
		sched.ReleaseAll()
		rid := atomic.LoadUint64(&firstRid)
		if rid != 0 {
			sched.AwaitEvent(mark, 1500*time.Millisecond, func(e gate.Event) bool { return e.Name == "ds.clean" && u32(e.KV[0]) == rid })
		}
		// the gauge is decremented a few statements after the ds.clean event: wait for it (bounded) before reading
		for i := 0; i < 100 && active() != 0; i++ {
			time.Sleep(10 * time.Millisecond)
		}
		// a reply made by the proxy itself (no upstream marker) must not carry anything of an upstream answer: the scripted
		// upstreams put the request token into the body of every answer, error answers included
		foreign := o.Kind == "response" && o.Header.Get("X-Upstream") == "" && strings.Contains(o.Body, tok)
		tr.Emit(vh.Ev{"ev": "cdone", "rid": rid, "kind": o.Kind, "status": o.Status, "extra": o.Extra,
			"elapsed": o.ElapsedMs, "bound": globalMs + 700, "foreign": foreign})
		if c.Wire != "" && c.Hold == "none" && len(c.Steps) == 0 && !clientClosed {
			// nothing was held and the client stayed: every attempt for which the pool handed out a stream must have
			// reached the scripted upstream as one complete request, with the body the request shape says
			arr := ureg.Arrivals(tok)
			blen, same := -1, true
			for i, a := range arr {
				if i == 0 {
					blen = len(a.Body)
				} else if len(a.Body) != blen {
					same = false
				}
			}
			tr.Emit(vh.Ev{"ev": "upseen", "rid": rid, "data": c.Data, "trailers": c.Trailers, "sent": atomic.LoadInt64(&sentAttempts),
				"arrivals": len(arr), "blen": blen, "same": same, "want": forwardedLen(c, wireLen, isBolt)})
		}
		if hostsDown {
			setHealth(c.Cluster, true)
		}
		// the circuit-breaker books of every cluster: nothing is in flight now (C10 reads these)
		var rq, pd, rt int64
		for i := 0; i < 100; i++ {
			rq, pd, rt = readBooks()
			rq, pd, rt = rq-rq0, pd-pd0, rt-rt0 // what this run took and did not give back
			if rq == 0 && pd == 0 && rt == 0 {
				break
			}
			time.Sleep(10 * time.Millisecond) // the books are settled a few statements after ds.clean
		}
		tr.Emit(vh.Ev{"ev": "quiesce", "active": active(), "arrivals": len(ureg.Arrivals(tok)), "rq": rq, "pd": pd, "rt": rt})
		rs.Put(map[string]interface{}{"idx": idx, "case": c, "reached": reached, "happened": happened, "outcome": o.Kind,
			"status": o.Status, "elapsed": o.ElapsedMs, "rid": rid})
		atomic.StoreUint64(&minRid, rid+1)
		return nil
	})
	vh.Must(err, "cases")
	fmt.Printf("c03 runs=%d events=%d\n", n, tr.Len())
}
