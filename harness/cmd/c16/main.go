// Driver for C16.
//
//	-mode flags  forces every interleaving TLC enumerated from HealthFlags (writers on different conditions of
//	             one address, gate "health.rmw" between the load and the store) on the real
//	             Host.SetHealthFlag / ClearHealthFlag and records operation boundaries and what
//	             HealthFlag()/Health() answered while every writer was parked (binding B3).
//	-mode thr    replays every result sequence TLC enumerated from HealthChecker through the real health checker
//	             (CreateHealthCheck, real timers, scripted session factory) and records the callback arguments
//	             and the host's flag word inside every callback (binding B1).
//
// TLC validates both traces (HealthFlagsTrace, HealthCheckerTrace).
package main

import (
	"encoding/json"
	"flag"
	"fmt"
	"os"
	"sort"
	"sync"
	"sync/atomic"
	"time"

	"mosn.io/api"
	v2 "mosn.io/mosn/pkg/config/v2"
	"mosn.io/mosn/pkg/log"
	"mosn.io/mosn/pkg/types"
	"mosn.io/mosn/pkg/upstream/cluster"
	"mosn.io/mosn/pkg/upstream/healthcheck"
	"mosn.io/mosn/pkg/verifhook"
	"verif/vh"
)

var bitOf = map[string]api.HealthFlag{"A": api.FAILED_ACTIVE_HC, "B": api.FAILED_OUTLIER_CHECK, "C": 0x4, "X": 0x8}
var names = []string{"A", "B", "C", "X"}

func decode(f api.HealthFlag) []string {
	out := []string{}
	rest := uint64(f)
	for _, n := range names {
		if rest&uint64(bitOf[n]) != 0 {
			out = append(out, n)
			rest &^= uint64(bitOf[n])
		}
	}
	if rest != 0 {
		out = append(out, fmt.Sprintf("?%x", rest))
	}
	return out
}

func newHost(info types.ClusterInfo, addr string) types.Host {
	return cluster.NewSimpleHost(v2.Host{HostConfig: v2.HostConfig{Address: addr, Hostname: addr}}, info)
}

func force(h types.Host, init []string) {
	want := map[string]bool{}
	for _, f := range init {
		want[f] = true
	}
	for _, n := range names {
		if want[n] {
			h.SetHealthFlag(bitOf[n])
		} else {
			h.ClearHealthFlag(bitOf[n])
		}
	}
}

// ---------------------------------------------------------------- flags (B3)

type flagCase struct {
	Init  []string   `json:"init"`
	Progs [][]string `json:"progs"`
	Sched []int      `json:"sched"`
	Flags []string   `json:"flags"`
}

type writer struct {
	host    types.Host
	flag    api.HealthFlag
	cmd     chan string
	done    chan struct{}
	arrived chan struct{}
	release chan struct{}
	atGate  bool
	busy    bool
	next    int
}

// mixSession: the health checker of -mode mix asks it; the answer is handed over by the schedule.
type mixSession struct{ ans chan bool }

func (m *mixSession) CheckHealth() bool { return <-m.ans }
func (m *mixSession) OnTimeout()        {}

var curMix atomic.Value // *mixSession

type mixFactory struct{}

func (mixFactory) NewSession(cfg map[string]interface{}, host types.Host) types.HealthCheckSession {
	m, _ := curMix.Load().(*mixSession)
	if m == nil {
		return nil
	}
	return m
}

// mixable: writer 1 can be played by the real health checker (thresholds 1/1): it owns condition A, its
// operations alternate and the first one changes the initial value.
func mixable(c flagCase) bool {
	if len(c.Progs) != 2 || c.Flags[0] != "A" {
		return false
	}
	hasA := false
	for _, f := range c.Init {
		if f == "A" {
			hasA = true
		}
	}
	for i, k := range c.Progs[0] {
		if (k == "set") == hasA {
			return false
		}
		hasA = k == "set"
		_ = i
	}
	return true
}

// runFlags forces the interleavings. With mix, writer 1 is the real active health checker (a failed check sets A,
// a passed check clears it) and "end" of its operation is the health-check callback.
func runFlags(casesPath, tracePath string, mix bool) {
	tr := vh.NewTrace(tracePath)
	defer tr.Close()
	cl := cluster.NewCluster(v2.Cluster{Name: "c16-flags", LbType: v2.LB_RANDOM})
	info := cl.Snapshot().ClusterInfo()
	const addr = "10.16.0.1:80"
	reader := newHost(info, addr)
	var gating int32
	byBit := map[uint64]*writer{}
	ws := []*writer{}
	for i := 0; i < 3; i++ {
		w := &writer{host: newHost(info, addr), cmd: make(chan string), done: make(chan struct{}),
			arrived: make(chan struct{}), release: make(chan struct{})}
		ws = append(ws, w)
		go func(w *writer) {
			for k := range w.cmd {
				if k == "set" {
					w.host.SetHealthFlag(w.flag)
				} else {
					w.host.ClearHealthFlag(w.flag)
				}
				w.done <- struct{}{}
			}
		}(w)
	}
	var gatesSeen int64
	verifhook.SetGate(func(point string, id uint64) {
		if point != "health.rmw" || atomic.LoadInt32(&gating) == 0 {
			return
		}
		w := byBit[id]
		if w == nil {
			return
		}
		atomic.AddInt64(&gatesSeen, 1)
		w.arrived <- struct{}{}
		<-w.release
	})
	defer verifhook.SetGate(nil)
	wait := func(w *writer, t int) bool { // true when the operation returned
		select {
		case <-w.arrived:
			w.atGate = true
			return false
		case <-w.done:
			w.busy = false
			w.next++
			tr.Emit(vh.Ev{"ev": "end", "t": t})
			return true
		case <-time.After(10 * time.Second):
			vh.Must(fmt.Errorf("writer %d neither reached the gate nor returned", t), "flags schedule")
		}
		return false
	}
	read := func() {
		tr.Emit(vh.Ev{"ev": "read", "val": decode(reader.HealthFlag()), "health": reader.Health()})
	}
	ncase, diverged := 0, 0
	if mix {
		healthcheck.RegisterSessionFactory("verif-c16-mix", mixFactory{})
	}
	err := vh.ReadCases(casesPath, func(raw json.RawMessage) error {
		var c flagCase
		if err := json.Unmarshal(raw, &c); err != nil {
			return err
		}
		if mix && !mixable(c) {
			return nil
		}
		atomic.StoreInt32(&gating, 0)
		force(reader, c.Init)
		var sess *mixSession
		if mix {
			sess = &mixSession{ans: make(chan bool)}
			curMix.Store(sess)
			hc := healthcheck.CreateHealthCheck(v2.HealthCheck{HealthCheckConfig: v2.HealthCheckConfig{Protocol: "verif-c16-mix",
				HealthyThreshold: 1, UnhealthyThreshold: 1, ServiceName: "c16mix",
				InitialDelaySeconds: api.DurationConfig{Duration: time.Millisecond}},
				Timeout: time.Minute, Interval: time.Millisecond, IntervalJitter: time.Nanosecond})
			w1 := ws[0]
			hc.AddHostCheckCompleteCb(func(h types.Host, changed bool, isHealthy bool) { w1.done <- struct{}{} })
			hc.SetHealthCheckerHostSet(cluster.NewHostSet([]types.Host{w1.host}))
			defer hc.Stop()
		}
		for k := range byBit {
			delete(byBit, k)
		}
		for i := range c.Progs {
			ws[i].flag = bitOf[c.Flags[i]]
			ws[i].next, ws[i].atGate, ws[i].busy = 0, false, false
			byBit[uint64(ws[i].flag)] = ws[i]
		}
		tr.Emit(vh.Ev{"ev": "begin", "init": decode(reader.HealthFlag()), "case": ncase})
		atomic.StoreInt32(&gating, 1)
		start := func(t int) {
			w := ws[t-1]
			k := c.Progs[t-1][w.next]
			tr.Emit(vh.Ev{"ev": "start", "t": t, "kind": k, "flag": c.Flags[t-1]})
			w.busy = true
			if mix && t == 1 {
				select {
				case sess.ans <- (k == "clear"):
				case <-time.After(10 * time.Second):
					vh.Must(fmt.Errorf("health checker never asked the session"), "mix schedule")
				}
				return
			}
			w.cmd <- k
		}
		for _, t := range c.Sched {
			w := ws[t-1]
			switch {
			case w.atGate:
				w.atGate = false
				w.release <- struct{}{}
				wait(w, t)
			case !w.busy && w.next < len(c.Progs[t-1]):
				start(t)
				wait(w, t)
			default:
				diverged++ // the real operation needed fewer steps than the model (no gate on this path)
				continue
			}
			read()
		}
		// free run: whatever is left (retries after a failed compare-and-swap, operations the schedule did not reach)
		atomic.StoreInt32(&gating, 0)
		for i := range c.Progs {
			w, t := ws[i], i+1
			if w.atGate {
				w.atGate = false
				w.release <- struct{}{}
				for !wait(w, t) {
					w.atGate = false
					w.release <- struct{}{}
				}
			}
			for w.next < len(c.Progs[i]) {
				start(t)
				for !wait(w, t) {
					w.atGate = false
					w.release <- struct{}{}
				}
			}
		}
		read()
		ncase++
		return nil
	})
	vh.Must(err, "flag cases")
	fmt.Printf("flags cases=%d events=%d gates=%d skipped_steps=%d\n", ncase, tr.Len(), gatesSeen, diverged)
}

// ---------------------------------------------------------------- thresholds (B1)

type thrCase struct {
	Ut   uint32   `json:"ut"`
	Ht   uint32   `json:"ht"`
	Init []string `json:"init"`
	Seq  []string `json:"seq"`
}

type caseRun struct {
	c        thrCase
	host     types.Host
	mu       sync.Mutex
	calls    int
	cbs      int
	evs      []vh.Ev
	rel      []chan struct{} // rel[k]: closed when the late answer of call k may be delivered
	done     chan struct{}   // closed when the case is over
	finished chan struct{}
	stale    chan uint64
	over     int32
	extra    int32
	enter    []time.Time // enter[k]: when CheckHealth call k was entered
	slow     bool        // an immediate answer was reported much later than it was given
}

type worker struct {
	addr string
	host types.Host
	cur  atomic.Value // *caseRun
	// a checker of an earlier case touched this address after that case ended
	polluted int64
}

var workers sync.Map // addr -> *worker

type session struct{ r *caseRun }

func isLate(s string) bool { return s == "late_ok" || s == "late_fail" }

func (s *session) CheckHealth() bool {
	r := s.r
	r.mu.Lock()
	r.calls++
	k := r.calls
	if k < len(r.enter) {
		r.enter[k] = time.Now()
	}
	r.mu.Unlock()
	n := len(r.c.Seq)
	if k >= 2 && k-1 <= n && isLate(r.c.Seq[k-2]) {
		// the previous check timed out; its answer arrives now, while this check is in progress
		close(r.rel[k-1])
		select {
		case <-r.stale: // the checker consumed the late answer
		case <-time.After(30 * time.Millisecond):
		case <-r.done:
		}
	}
	if k > n {
		select {} // beyond the script: never answers
	}
	switch r.c.Seq[k-1] {
	case "ok":
		return true
	case "fail":
		return false
	case "late_ok", "late_fail":
		select {
		case <-r.rel[k]:
			return r.c.Seq[k-1] == "late_ok"
		case <-r.done:
			select {}
		}
	}
	select {} // "timeout": never answers
}

func (s *session) OnTimeout() {}

type factory struct{}

func (factory) NewSession(cfg map[string]interface{}, host types.Host) types.HealthCheckSession {
	v, ok := workers.Load(host.AddressString())
	if !ok {
		return nil
	}
	r, _ := v.(*worker).cur.Load().(*caseRun)
	if r == nil {
		return nil
	}
	return &session{r: r}
}

const (
	hcTimeout  = 40 * time.Millisecond
	hcInterval = time.Millisecond
	noiseLimit = 8 * time.Millisecond
)

var lastNoise int64 // unix nanos of the last scheduling stall seen by the watchdog

func watchdog() {
	const tick = 500 * time.Microsecond
	for {
		t0 := time.Now()
		time.Sleep(tick)
		if time.Since(t0)-tick > noiseLimit {
			atomic.StoreInt64(&lastNoise, time.Now().UnixNano())
		}
	}
}

func (w *worker) run(c thrCase) (*caseRun, string) {
	t0 := time.Now()
	poll0 := atomic.LoadInt64(&w.polluted)
	r := &caseRun{c: c, host: w.host, done: make(chan struct{}), finished: make(chan struct{}), stale: make(chan uint64, 16)}
	r.enter = make([]time.Time, len(c.Seq)+2)
	r.rel = make([]chan struct{}, len(c.Seq)+2)
	for i := range r.rel {
		r.rel[i] = make(chan struct{})
	}
	force(w.host, c.Init)
	r.evs = append(r.evs, vh.Ev{"ev": "new", "ut": c.Ut, "ht": c.Ht, "init": decode(w.host.HealthFlag()), "seq": c.Seq})
	w.cur.Store(r)
	cfg := v2.HealthCheck{HealthCheckConfig: v2.HealthCheckConfig{Protocol: "verif-c16", HealthyThreshold: c.Ht,
		UnhealthyThreshold: c.Ut, ServiceName: "c16", InitialDelaySeconds: api.DurationConfig{Duration: time.Millisecond}},
		Timeout: hcTimeout, Interval: hcInterval, IntervalJitter: time.Nanosecond}
	hc := healthcheck.CreateHealthCheck(cfg)
	hc.AddHostCheckCompleteCb(func(h types.Host, changed bool, isHealthy bool) {
		if atomic.LoadInt32(&r.over) == 1 {
			// a checker that was stopped still reported: the address may be in use by the next case
			atomic.AddInt64(&w.polluted, 1)
			return
		}
		r.mu.Lock()
		r.cbs++
		n, k := r.cbs, r.calls
		if n <= len(c.Seq) {
			if (c.Seq[n-1] == "ok" || c.Seq[n-1] == "fail") && (r.enter[n].IsZero() || time.Since(r.enter[n]) > hcTimeout/2) {
				r.slow = true
			}
			r.evs = append(r.evs, vh.Ev{"ev": "check", "n": n, "k": k, "r": c.Seq[n-1], "changed": changed, "cbok": isHealthy,
				"flags": decode(h.HealthFlag()), "health": h.Health()})
		} else {
			r.extra++
		}
		r.mu.Unlock()
		if n == len(c.Seq) {
			close(r.finished)
		}
	})
	hc.SetHealthCheckerHostSet(cluster.NewHostSet([]types.Host{w.host}))
	status := "ok"
	select {
	case <-r.finished:
	case <-time.After(2*time.Second + time.Duration(len(c.Seq))*4*(hcTimeout+hcInterval)):
		status = "stalled"
	}
	hc.Stop()
	atomic.StoreInt32(&r.over, 1)
	close(r.done)
	w.cur.Store((*caseRun)(nil))
	if status == "ok" {
		if ln := atomic.LoadInt64(&lastNoise); ln >= t0.UnixNano() {
			status = "noisy"
		} else if atomic.LoadInt64(&w.polluted) != poll0 {
			status = "noisy"
		} else if r.slow {
			status = "slow"
		}
	}
	return r, status
}

func runThr(casesPath, tracePath string, par int) {
	tr := vh.NewTrace(tracePath)
	defer tr.Close()
	healthcheck.RegisterSessionFactory("verif-c16", factory{})
	cl := cluster.NewCluster(v2.Cluster{Name: "c16-thr", LbType: v2.LB_RANDOM})
	info := cl.Snapshot().ClusterInfo()
	vh.Sink(func(ev string, kv []interface{}) {
		if ev != "hc.resp" {
			return
		}
		h, _ := kv[0].(types.Host)
		if h == nil {
			return
		}
		v, ok := workers.Load(h.AddressString())
		if !ok {
			return
		}
		r, _ := v.(*worker).cur.Load().(*caseRun)
		id, cur := kv[1].(uint64), kv[2].(uint64)
		if r != nil && id != cur {
			select {
			case r.stale <- id:
			default:
			}
		}
	})
	defer vh.Sink(nil)
	go watchdog()
	cases := []thrCase{}
	vh.Must(vh.ReadCases(casesPath, func(raw json.RawMessage) error {
		var c thrCase
		if err := json.Unmarshal(raw, &c); err != nil {
			return err
		}
		cases = append(cases, c)
		return nil
	}), "thr cases")
	var next int64 = -1
	var emitMu sync.Mutex
	var nOK, nRetry, nStalled, nNoisy int64
	var wg sync.WaitGroup
	for p := 0; p < par; p++ {
		w := &worker{addr: fmt.Sprintf("10.16.%d.%d:80", 1+p/200, 1+p%200)}
		w.host = newHost(info, w.addr)
		workers.Store(w.addr, w)
		wg.Add(1)
		go func() {
			defer wg.Done()
			for {
				i := int(atomic.AddInt64(&next, 1))
				if i >= len(cases) {
					return
				}
				var r *caseRun
				status := ""
				slowRuns := 0
				for attempt := 0; attempt < 8; attempt++ {
					r, status = w.run(cases[i])
					if status == "slow" {
						// an answer given at once was reported late: a scheduling stall, or what the code does with
						// this sequence. Three times in a row without any stall seen by the watchdog = the code.
						slowRuns++
						if slowRuns >= 3 {
							status = "ok"
						}
					} else {
						slowRuns = 0
					}
					if status == "ok" {
						break
					}
					atomic.AddInt64(&nRetry, 1)
					time.Sleep(20 * time.Millisecond)
				}
				switch status {
				case "ok":
					atomic.AddInt64(&nOK, 1)
					emitMu.Lock()
					for _, e := range r.evs {
						tr.Emit(e)
					}
					emitMu.Unlock()
				case "stalled":
					atomic.AddInt64(&nStalled, 1)
					b, _ := json.Marshal(cases[i])
					fmt.Printf("STALLED %s events=%d\n", b, len(r.evs))
				default:
					atomic.AddInt64(&nNoisy, 1)
				}
			}
		}()
	}
	wg.Wait()
	fmt.Printf("thr cases=%d ok=%d retries=%d stalled=%d noisy=%d events=%d\n", len(cases), nOK, nRetry, nStalled, nNoisy, tr.Len())
	sum, _ := json.Marshal(map[string]int64{"cases": int64(len(cases)), "ok": nOK, "retries": nRetry, "stalled": nStalled, "noisy": nNoisy})
	os.WriteFile(tracePath+".summary", sum, 0644)
}

func main() {
	mode := flag.String("mode", "flags", "flags|mix|thr")
	cases := flag.String("cases", "", "cases file")
	out := flag.String("trace", "", "trace output")
	par := flag.Int("par", 48, "cases in flight (thr)")
	flag.Parse()
	if !vh.HooksCompiled() {
		vh.Must(fmt.Errorf("built without -tags verif"), "hooks")
	}
	_ = sort.Strings
	log.DefaultLogger.SetLogLevel(log.ERROR)
	switch *mode {
	case "flags":
		runFlags(*cases, *out, false)
	case "mix":
		runFlags(*cases, *out, true)
	case "thr":
		runThr(*cases, *out, *par)
	}
}
