// Driver for C16.
//
//	-mode flags  forces every interleaving TLC enumerated from HealthFlags (writers on different conditions of
//	             one address, gate "health.rmw" between the load and the store) on the real
//	             Host.SetHealthFlag / ClearHealthFlag and records operation boundaries and what
//	             HealthFlag()/Health() answered while every writer was parked (binding B3).
//	-mode thr    replays every result sequence TLC enumerated from HealthChecker through the real health checker
//	             (CreateHealthCheck, real timers, scripted session factory; late answers of timed-out checks are
//	             delivered at the enumerated position relative to the loop events hc.ontimeout / hc.timeout /
//	             hc.resp / hc.idle) and records the callback arguments and the host's flag word inside every
//	             callback (binding B1).
//
//	-mode words  builds hosts the ways MOSN builds them (NewSimpleHost, cluster manager, STRICT_DNS resolution of a domain
//	             with several records) and records what every host object reports after operations on one of them.
//
// TLC validates the traces (HealthFlagsTrace, HealthCheckerTrace, HealthWordsTrace).
package main

import (
	"context"
	"encoding/json"
	"flag"
	"fmt"
	"net"
	"os"
	"runtime"
	"sort"
	"strings"
	"sync"
	"sync/atomic"
	"time"

	"github.com/miekg/dns"
	"mosn.io/api"
	v2 "mosn.io/mosn/pkg/config/v2"
	"mosn.io/mosn/pkg/log"
	"mosn.io/mosn/pkg/types"
	"mosn.io/mosn/pkg/upstream/cluster"
	"mosn.io/mosn/pkg/upstream/healthcheck"
	"mosn.io/mosn/pkg/verifhook"
	"verif/vh"
)

var bitOf = map[string]api.HealthFlag{"A": api.FAILED_ACTIVE_HC, "B": api.FAILED_OUTLIER_CHECK, "C": 0x4, "X": 0x8}
var names = []string{"A", "B", "C", "X"}

func decode(f api.HealthFlag) []string {
	out := []string{}
	rest := uint64(f)
	for _, n := range names {
		if rest&uint64(bitOf[n]) != 0 {
			out = append(out, n)
			rest &^= uint64(bitOf[n])
		}
	}
	if rest != 0 {
		out = append(out, fmt.Sprintf("?%x", rest))
	}
	return out
}

func newHost(info types.ClusterInfo, addr string) types.Host {
	return cluster.NewSimpleHost(v2.Host{HostConfig: v2.HostConfig{Address: addr, Hostname: addr}}, info)
}

func force(h types.Host, init []string) {
	want := map[string]bool{}
	for _, f := range init {
		want[f] = true
	}
	for _, n := range names {
		if want[n] {
			h.SetHealthFlag(bitOf[n])
		} else {
			h.ClearHealthFlag(bitOf[n])
		}
	}
}

// ---------------------------------------------------------------- flags (B3)

type flagCase struct {
	Init  []string   `json:"init"`
	Progs [][]string `json:"progs"`
	Sched []int      `json:"sched"`
	Flags []string   `json:"flags"`
}

type writer struct {
	host    types.Host
	flag    api.HealthFlag
	cmd     chan string
	done    chan struct{}
	arrived chan struct{}
	release chan struct{}
	atGate  bool
	busy    bool
	next    int
}

// mixSession: the health checker of -mode mix asks it; the answer is handed over by the schedule.
type mixSession struct{ ans chan bool }

func (m *mixSession) CheckHealth() bool { return <-m.ans }
func (m *mixSession) OnTimeout()        {}

var curMix atomic.Value // *mixSession

type mixFactory struct{}

func (mixFactory) NewSession(cfg map[string]interface{}, host types.Host) types.HealthCheckSession {
	m, _ := curMix.Load().(*mixSession)
	if m == nil {
		return nil
	}
	return m
}

// mixable: writer 1 can be played by the real health checker (thresholds 1/1): it owns condition A, its
// operations alternate and the first one changes the initial value.
func mixable(c flagCase) bool {
	if len(c.Progs) != 2 || c.Flags[0] != "A" {
		return false
	}
	hasA := false
	for _, f := range c.Init {
		if f == "A" {
			hasA = true
		}
	}
	for i, k := range c.Progs[0] {
		if (k == "set") == hasA {
			return false
		}
		hasA = k == "set"
		_ = i
	}
	return true
}

// runFlags forces the interleavings. With mix, writer 1 is the real active health checker (a failed check sets A,
// a passed check clears it) and "end" of its operation is the health-check callback.
func runFlags(casesPath, tracePath string, mix bool) {
	tr := vh.NewTrace(tracePath)
	defer tr.Close()
	cl := cluster.NewCluster(v2.Cluster{Name: "c16-flags", LbType: v2.LB_RANDOM})
	info := cl.Snapshot().ClusterInfo()
	const addr = "10.16.0.1:80"
	reader := newHost(info, addr)
	var gating int32
	byBit := map[uint64]*writer{}
	ws := []*writer{}
	for i := 0; i < 3; i++ {
		w := &writer{host: newHost(info, addr), cmd: make(chan string), done: make(chan struct{}),
			arrived: make(chan struct{}), release: make(chan struct{})}
		ws = append(ws, w)
		go func(w *writer) {
			for k := range w.cmd {
				if k == "set" {
					w.host.SetHealthFlag(w.flag)
				} else {
					w.host.ClearHealthFlag(w.flag)
				}
				w.done <- struct{}{}
			}
		}(w)
	}
	var gatesSeen int64
	verifhook.SetGate(func(point string, id uint64) {
		if point != "health.rmw" || atomic.LoadInt32(&gating) == 0 {
			return
		}
		w := byBit[id]
		if w == nil {
			return
		}
		atomic.AddInt64(&gatesSeen, 1)
		w.arrived <- struct{}{}
		<-w.release
	})
	defer verifhook.SetGate(nil)
	wait := func(w *writer, t int) bool { // true when the operation returned
		select {
		case <-w.arrived:
			w.atGate = true
			return false
		case <-w.done:
			w.busy = false
			w.next++
			tr.Emit(vh.Ev{"ev": "end", "t": t})
			return true
		case <-time.After(10 * time.Second):
			vh.Must(fmt.Errorf("writer %d neither reached the gate nor returned", t), "flags schedule")
		}
		return false
	}
	read := func() {
		tr.Emit(vh.Ev{"ev": "read", "val": decode(reader.HealthFlag()), "health": reader.Health()})
	}
	ncase, diverged := 0, 0
	if mix {
		healthcheck.RegisterSessionFactory("verif-c16-mix", mixFactory{})
	}
	err := vh.ReadCases(casesPath, func(raw json.RawMessage) error {
		var c flagCase
		if err := json.Unmarshal(raw, &c); err != nil {
			return err
		}
		if mix && !mixable(c) {
			return nil
		}
		atomic.StoreInt32(&gating, 0)
		force(reader, c.Init)
		var sess *mixSession
		if mix {
			sess = &mixSession{ans: make(chan bool)}
			curMix.Store(sess)
			hc := healthcheck.CreateHealthCheck(v2.HealthCheck{HealthCheckConfig: v2.HealthCheckConfig{Protocol: "verif-c16-mix",
				HealthyThreshold: 1, UnhealthyThreshold: 1, ServiceName: "c16mix",
				InitialDelaySeconds: api.DurationConfig{Duration: time.Millisecond}},
				Timeout: time.Minute, Interval: time.Millisecond, IntervalJitter: time.Nanosecond})
			w1 := ws[0]
			hc.AddHostCheckCompleteCb(func(h types.Host, changed bool, isHealthy bool) { w1.done <- struct{}{} })
			hc.SetHealthCheckerHostSet(cluster.NewHostSet([]types.Host{w1.host}))
			defer hc.Stop()
		}
		for k := range byBit {
			delete(byBit, k)
		}
		for i := range c.Progs {
			ws[i].flag = bitOf[c.Flags[i]]
			ws[i].next, ws[i].atGate, ws[i].busy = 0, false, false
			byBit[uint64(ws[i].flag)] = ws[i]
		}
		tr.Emit(vh.Ev{"ev": "begin", "init": decode(reader.HealthFlag()), "case": ncase})
		atomic.StoreInt32(&gating, 1)
		start := func(t int) {
			w := ws[t-1]
			k := c.Progs[t-1][w.next]
			tr.Emit(vh.Ev{"ev": "start", "t": t, "kind": k, "flag": c.Flags[t-1]})
			w.busy = true
			if mix && t == 1 {
				select {
				case sess.ans <- (k == "clear"):
				case <-time.After(10 * time.Second):
					vh.Must(fmt.Errorf("health checker never asked the session"), "mix schedule")
				}
				return
			}
			w.cmd <- k
		}
		for _, t := range c.Sched {
			w := ws[t-1]
			switch {
			case w.atGate:
				w.atGate = false
				w.release <- struct{}{}
				wait(w, t)
			case !w.busy && w.next < len(c.Progs[t-1]):
				start(t)
				wait(w, t)
			default:
				diverged++ // the real operation needed fewer steps than the model (no gate on this path)
				continue
			}
			read()
		}
		// free run: whatever is left (retries after a failed compare-and-swap, operations the schedule did not reach)
		atomic.StoreInt32(&gating, 0)
		for i := range c.Progs {
			w, t := ws[i], i+1
			if w.atGate {
				w.atGate = false
				w.release <- struct{}{}
				for !wait(w, t) {
					w.atGate = false
					w.release <- struct{}{}
				}
			}
			for w.next < len(c.Progs[i]) {
				start(t)
				for !wait(w, t) {
					w.atGate = false
					w.release <- struct{}{}
				}
			}
		}
		read()
		ncase++
		return nil
	})
	vh.Must(err, "flag cases")
	fmt.Printf("flags cases=%d events=%d gates=%d skipped_steps=%d\n", ncase, tr.Len(), gatesSeen, diverged)
}

// ---------------------------------------------------------------- thresholds (B1, event driven)
//
// One controller goroutine per case steers the real checker through the scripted session and the loop events:
//   call       CheckHealth call k entered (check k started); the controller answers it when the script says so
//   ontimeout  the timeout timer fired (hook hc.ontimeout, held until the controller lets the signal through)
//   resp       the loop took an answer (hook hc.resp: id of the answer, id the loop waits for)
//   timeout    the loop took a timeout signal (hook hc.timeout)
//   idle       the loop is about to wait again (hook hc.idle): whatever it took has been handled
//   cb         health-check callback (host, changed, isHealthy)
// Answers given at once can never lose against the timer (a timer that fires for them is simply held), so no
// verdict depends on scheduling delays.  A late answer of check k is delivered at position
//   0 after its timer fired, before the signal is let through   1 after the timeout was handled, before check k+1
//   2 after check k+1 started (CheckHealth entered)              3 after check k+1 was handled, before check k+2

type thrCase struct {
	Ut   uint32   `json:"ut"`
	Ht   uint32   `json:"ht"`
	Init []string `json:"init"`
	Seq  []string `json:"seq"`
}

type cev struct {
	kind    string
	k       int
	ans     chan bool
	hold    chan struct{}
	id, cur uint64
	rec     vh.Ev
}

type caseRun struct {
	c     thrCase
	host  types.Host
	ev    chan cev
	calls int32
	over  int32
	evs   []vh.Ev
	// controller state
	answers  map[int]chan bool
	holds    []chan struct{}
	takes    int  // answers + timeout signals the loop took
	resps    int
	timeouts int
	settled  bool // the loop went idle after the last thing it took (hc.idle after hc.resp / hc.timeout)
	silent   bool // some check ended without any callback
	stopped  bool // the checker did not start the next check
	cbs      int
	cbFor    map[int]int // check -> callbacks seen while it was the latest check
	shifted  int         // deliveries that were not finished before the next check started
}

type worker struct {
	addr string
	info types.ClusterInfo
	cur  atomic.Value // *caseRun
}

var workers sync.Map // addr -> *worker

type session struct{ r *caseRun }

// latePos: -1 unless s is lateP_ok / lateP_fail
func latePos(s string) int {
	if len(s) > 5 && s[:4] == "late" && s[4] >= '0' && s[4] <= '3' && s[5] == '_' {
		return int(s[4] - '0')
	}
	return -1
}
func lateAns(s string) bool { return len(s) > 6 && s[6:] == "ok" }

func (r *caseRun) send(e cev) bool {
	if atomic.LoadInt32(&r.over) == 1 {
		return false
	}
	select {
	case r.ev <- e:
		return true
	case <-time.After(5 * time.Second):
		return false
	}
}

func (s *session) CheckHealth() bool {
	r := s.r
	k := int(atomic.AddInt32(&r.calls, 1))
	ans := make(chan bool, 1)
	if !r.send(cev{kind: "call", k: k, ans: ans}) {
		select {}
	}
	return <-ans // never for a check that does not answer
}

func (s *session) OnTimeout() {}

type factory struct{}

func (factory) NewSession(cfg map[string]interface{}, host types.Host) types.HealthCheckSession {
	v, ok := workers.Load(host.AddressString())
	if !ok {
		return nil
	}
	r, _ := v.(*worker).cur.Load().(*caseRun)
	if r == nil || r.host != host {
		return nil
	}
	return &session{r: r}
}

const (
	hcTimeout  = 10 * time.Millisecond
	hcInterval = 2 * time.Millisecond
)

// thrSink routes the loop events of the checker under observation to its controller.
func thrSink(ev string, kv []interface{}) {
	if len(ev) < 3 || ev[:3] != "hc." || len(kv) == 0 {
		return
	}
	h, _ := kv[0].(types.Host)
	if h == nil {
		return
	}
	var r *caseRun
	if v, ok := workers.Load(h.AddressString()); ok {
		r, _ = v.(*worker).cur.Load().(*caseRun)
	}
	mine := r != nil && r.host == h
	switch ev {
	case "hc.ontimeout":
		if !mine {
			select {} // the timer of a checker whose case is over: its signal is never delivered
		}
		hold := make(chan struct{})
		if !r.send(cev{kind: "ontimeout", hold: hold}) {
			select {}
		}
		<-hold
	case "hc.resp":
		if mine && len(kv) >= 3 {
			id, _ := kv[1].(uint64)
			cur, _ := kv[2].(uint64)
			r.send(cev{kind: "resp", id: id, cur: cur})
		}
	case "hc.timeout":
		if mine {
			r.send(cev{kind: "timeout"})
		}
	case "hc.idle":
		if mine {
			r.send(cev{kind: "idle"})
		}
	}
}

type diverged struct{ what string }

func (r *caseRun) absorb(e cev) {
	switch e.kind {
	case "call":
		r.answers[e.k] = e.ans
	case "ontimeout":
		r.holds = append(r.holds, e.hold)
	case "resp":
		r.resps++
		r.takes++
		r.settled = false
	case "timeout":
		r.timeouts++
		r.takes++
		r.settled = false
	case "idle":
		r.settled = true // same goroutine as resp/timeout/cb: everything taken before has been handled
	case "cb":
		r.cbs++
		k := e.k
		e.rec["n"] = r.cbs
		if k >= 1 && k <= len(r.c.Seq) && r.cbFor[k] == 0 {
			e.rec["ev"] = "check"
			e.rec["r"] = r.c.Seq[k-1]
		} else {
			e.rec["ev"] = "extra"
		}
		r.cbFor[k]++
		if len(r.evs) < 16+8*len(r.c.Seq) { // a checker that keeps reporting without checks is cut off, not recorded for ever
			r.evs = append(r.evs, e.rec)
		}
	}
}

// waitFor absorbs events until pred holds; panics with diverged on the deadline.
func (r *caseRun) waitFor(what string, d time.Duration, pred func() bool) {
	deadline := time.After(d)
	for !pred() {
		select {
		case e := <-r.ev:
			r.absorb(e)
		case <-deadline:
			panic(diverged{what})
		}
	}
}

func (r *caseRun) tryWait(d time.Duration, pred func() bool) (ok bool) {
	defer func() {
		if x := recover(); x != nil {
			if _, isD := x.(diverged); !isD {
				panic(x)
			}
			ok = false
		}
	}()
	r.waitFor("", d, pred)
	return true
}

func (r *caseRun) releaseHold() {
	h := r.holds[0]
	r.holds = r.holds[1:]
	close(h)
}

const slack = 3 * time.Second
const startSlack = 1500 * time.Millisecond // for a check that is due after hcInterval

// deliver lets the late answer of check j out and waits until the loop has taken and handled it.
func (r *caseRun) deliver(j int) {
	s := r.c.Seq[j-1]
	r.evs = append(r.evs, vh.Ev{"ev": "deliver", "j": j, "pos": latePos(s), "ok": lateAns(s)})
	calls0 := int(atomic.LoadInt32(&r.calls))
	resp0 := r.resps
	r.answers[j] <- lateAns(s)
	r.waitFor("late answer taken and handled", slack, func() bool { return r.resps > resp0 && r.settled })
	if p := latePos(s); (p == 1 || p == 3 || p == 0) && int(atomic.LoadInt32(&r.calls)) != calls0 {
		r.shifted++ // the next check started meanwhile: the position really driven is 2
	}
}

func (r *caseRun) script() {
	seq := r.c.Seq
	n := len(seq)
	// letTimeout waits for a fired timeout timer, lets its signal through and waits until the loop handled it.
	letTimeout := func(d time.Duration) bool {
		if !r.tryWait(d, func() bool { return len(r.holds) > 0 }) {
			return false
		}
		t0 := r.timeouts
		r.releaseHold()
		r.waitFor("timeout signal taken and handled", slack, func() bool { return r.timeouts > t0 && r.settled })
		return true
	}
	for k := 1; k <= n; k++ {
		if !r.tryWait(startSlack, func() bool { return r.answers[k] != nil }) {
			// everything the checker was given has been handled and it does not start the next check
			r.stopped = true
			r.evs = append(r.evs, vh.Ev{"ev": "stopped", "k": k})
			return
		}
		// r.holds may still hold timers of earlier checks that fired although the answer was given at once (slow
		// machine), and under load the timer of THIS check can even be reported before its CheckHealth call: nothing
		// is thrown away; a signal that turns out to belong to a finished check is dropped by the checker and the
		// next one is tried (letTimeout loops below).
		if k >= 2 && latePos(seq[k-2]) == 2 {
			r.deliver(k - 1)
		}
		s := seq[k-1]
		if s == "ok" || s == "fail" {
			resp0 := r.resps
			r.answers[k] <- s == "ok"
			r.waitFor("answer taken and handled", slack, func() bool { return r.resps > resp0 && r.settled })
			// no result: the answer was dropped and the code waits for the timeout of this check: let it have it
			for i := 0; i < 3+k && r.cbFor[k] == 0 && letTimeout(hcTimeout+400*time.Millisecond); i++ {
			}
		} else {
			if latePos(s) == 0 {
				r.waitFor("timeout timer fires", hcTimeout+slack, func() bool { return len(r.holds) > 0 })
				r.deliver(k)
				// the check may already be over (its answer was taken): the signal may be dropped in any way
				t0 := r.timeouts
				r.releaseHold()
				r.tryWait(300*time.Millisecond, func() bool { return r.timeouts > t0 && r.settled })
			}
			// a signal that is dropped belonged to an earlier check whose timer fired late: wait for the right one
			for i := 0; i < 3+k && r.cbFor[k] == 0 && letTimeout(hcTimeout+400*time.Millisecond); i++ {
			}
			if latePos(s) == 1 {
				r.deliver(k)
			}
		}
		if r.cbFor[k] == 0 {
			r.silent = true
			r.evs = append(r.evs, vh.Ev{"ev": "silent", "k": k})
		}
		if k >= 2 && latePos(seq[k-2]) == 3 {
			r.deliver(k - 1)
		}
	}
}

func (w *worker) run(c thrCase) (r *caseRun, status string) {
	r = &caseRun{c: c, host: newHost(w.info, w.addr), ev: make(chan cev, 256), answers: map[int]chan bool{}, cbFor: map[int]int{}}
	force(r.host, c.Init)
	r.evs = append(r.evs, vh.Ev{"ev": "new", "ut": c.Ut, "ht": c.Ht, "init": decode(r.host.HealthFlag()), "seq": c.Seq})
	w.cur.Store(r)
	cfg := v2.HealthCheck{HealthCheckConfig: v2.HealthCheckConfig{Protocol: "verif-c16", HealthyThreshold: c.Ht,
		UnhealthyThreshold: c.Ut, ServiceName: "c16", InitialDelaySeconds: api.DurationConfig{Duration: time.Millisecond}},
		Timeout: hcTimeout, Interval: hcInterval, IntervalJitter: time.Nanosecond}
	hc := healthcheck.CreateHealthCheck(cfg)
	hc.AddHostCheckCompleteCb(func(h types.Host, changed bool, isHealthy bool) {
		r.send(cev{kind: "cb", k: int(atomic.LoadInt32(&r.calls)), rec: vh.Ev{"k": int(atomic.LoadInt32(&r.calls)), "changed": changed,
			"cbok": isHealthy, "flags": decode(h.HealthFlag()), "health": h.Health()}})
	})
	hc.SetHealthCheckerHostSet(cluster.NewHostSet([]types.Host{r.host}))
	status = "ok"
	func() {
		defer func() {
			if x := recover(); x != nil {
				d, isD := x.(diverged)
				if !isD {
					panic(x)
				}
				status = "stalled: " + d.what
			}
		}()
		r.script()
	}()
	hc.Stop()
	atomic.StoreInt32(&r.over, 1)
	w.cur.Store((*caseRun)(nil))
	return r, status
}

func runThr(casesPath, tracePath string, par int) {
	tr := vh.NewTrace(tracePath)
	defer tr.Close()
	healthcheck.RegisterSessionFactory("verif-c16", factory{})
	cl := cluster.NewCluster(v2.Cluster{Name: "c16-thr", LbType: v2.LB_RANDOM})
	info := cl.Snapshot().ClusterInfo()
	vh.Sink(thrSink)
	defer vh.Sink(nil)
	go func() { // the harness must never eat the machine
		for {
			time.Sleep(time.Second)
			var m runtime.MemStats
			runtime.ReadMemStats(&m)
			if m.Sys > 6<<30 {
				vh.Must(fmt.Errorf("driver uses %d MB", m.Sys>>20), "memory guard")
			}
		}
	}()
	cases := []thrCase{}
	vh.Must(vh.ReadCases(casesPath, func(raw json.RawMessage) error {
		var c thrCase
		if err := json.Unmarshal(raw, &c); err != nil {
			return err
		}
		cases = append(cases, c)
		return nil
	}), "thr cases")
	var next int64 = -1
	var emitMu sync.Mutex
	var nOK, nRetry, nStalled, nShifted, nDeliver int64
	var wg sync.WaitGroup
	for p := 0; p < par; p++ {
		w := &worker{addr: fmt.Sprintf("10.16.%d.%d:80", 1+p/200, 1+p%200), info: info}
		workers.Store(w.addr, w)
		wg.Add(1)
		go func() {
			defer wg.Done()
			for {
				i := int(atomic.AddInt64(&next, 1))
				if i >= len(cases) {
					return
				}
				var r *caseRun
				status := ""
				for attempt := 0; attempt < 3; attempt++ {
					r, status = w.run(cases[i])
					// a check without any result / a checker that stops checking is judged only when it happens again
					if status == "ok" && !((r.silent || r.stopped) && attempt < 1) {
						break
					}
					atomic.AddInt64(&nRetry, 1)
				}
				if status == "ok" {
					atomic.AddInt64(&nOK, 1)
					atomic.AddInt64(&nShifted, int64(r.shifted))
					emitMu.Lock()
					for _, e := range r.evs {
						if e["ev"] == "deliver" {
							nDeliver++
						}
						tr.Emit(e)
					}
					emitMu.Unlock()
				} else {
					atomic.AddInt64(&nStalled, 1)
					b, _ := json.Marshal(cases[i])
					fmt.Printf("STALLED %s %s events=%d\n", status, b, len(r.evs))
				}
			}
		}()
	}
	wg.Wait()
	fmt.Printf("thr cases=%d ok=%d retries=%d stalled=%d deliveries=%d shifted=%d events=%d\n", len(cases), nOK, nRetry, nStalled, nDeliver, nShifted, tr.Len())
	sum, _ := json.Marshal(map[string]int64{"cases": int64(len(cases)), "ok": nOK, "retries": nRetry, "stalled": nStalled,
		"late_deliveries": nDeliver, "late_deliveries_shifted": nShifted})
	os.WriteFile(tracePath+".summary", sum, 0644)
}

// ---------------------------------------------------------------- words (where the flag word lives)
//
// -mode words: every case = a topology (which addresses a SIMPLE cluster fed with NewSimpleHost hosts, a cluster-manager
// cluster fed through UpdateClusterHosts and the records of one or two STRICT_DNS domains have) + a sequence of operations
// (condition set/cleared on one host object; one health check of a resolved host answered ok/fail through the cluster's
// own health checker).  After every operation HealthFlag()/Health() of EVERY host object is recorded.  The domains are
// resolved by a DNS server of the driver on a loopback UDP port.

type wHost struct {
	O string `json:"o"`
	A string `json:"a"`
}
type wOp struct {
	H    wHost  `json:"h"`
	Kind string `json:"kind"`
	Flag string `json:"flag"`
}
type wCase struct {
	Topo struct {
		Static []string `json:"static"`
		Mgr    []string `json:"mgr"`
		D1     []string `json:"d1"`
		D2     []string `json:"d2"`
	} `json:"topo"`
	Hc  bool   `json:"hc"`
	Ut  uint32 `json:"ut"`
	Ht  uint32 `json:"ht"`
	Ops []wOp  `json:"ops"`
}

var dnsRecords sync.Map // fqdn -> []string (ips)

func startDNS() string {
	pc, err := net.ListenPacket("udp", "127.0.0.1:0")
	vh.Must(err, "dns listen")
	mux := dns.NewServeMux()
	mux.HandleFunc(".", func(w dns.ResponseWriter, r *dns.Msg) {
		m := new(dns.Msg)
		m.SetReply(r)
		if len(r.Question) == 1 && r.Question[0].Qtype == dns.TypeA {
			if v, ok := dnsRecords.Load(strings.ToLower(r.Question[0].Name)); ok {
				for _, ip := range v.([]string) {
					m.Answer = append(m.Answer, &dns.A{Hdr: dns.RR_Header{Name: r.Question[0].Name, Rrtype: dns.TypeA, Class: dns.ClassINET, Ttl: 3600}, A: net.ParseIP(ip)})
				}
			}
		}
		w.WriteMsg(m)
	})
	srv := &dns.Server{PacketConn: pc, Handler: mux}
	go srv.ActivateAndServe()
	_, port, _ := net.SplitHostPort(pc.LocalAddr().String())
	return port
}

// wSession: health-check session of one resolved host; the answer is handed over by the case.
type wSession struct{ ans chan bool }

func (s *wSession) CheckHealth() bool { return <-s.ans }
func (s *wSession) OnTimeout()        {}

var wSessions sync.Map // address -> *wSession of the running case

type wFactory struct{}

func (wFactory) NewSession(cfg map[string]interface{}, host types.Host) types.HealthCheckSession {
	if v, ok := wSessions.Load(host.AddressString()); ok {
		return v.(*wSession)
	}
	return &wSession{ans: make(chan bool)} // the unresolved placeholder host, hosts of finished cases: never answers
}

type wWorker struct {
	id      int
	dnsPort string
	pub     chan struct{} // a cluster of this worker published a host set
	cb      chan wCb
}
type wCb struct {
	addr    string
	changed bool
	ok      bool
}

var wByCluster sync.Map // cluster name -> *wWorker

func (w *wWorker) ip(a string) string   { return fmt.Sprintf("10.17.%d.%c", w.id+1, a[1]) } // a1 -> 10.17.<w>.1
func (w *wWorker) addr(a string) string { return w.ip(a) + ":80" }
func (w *wWorker) name(o string) string { return fmt.Sprintf("c16w%d-%s", w.id, o) }
func (w *wWorker) domain(o string, n int) string {
	return fmt.Sprintf("%s-%d.w%d.c16.test", o, n, w.id)
}

func hostsOf(snap types.ClusterSnapshot) []types.Host {
	out := []types.Host{}
	snap.HostSet().Range(func(h types.Host) bool { out = append(out, h); return true })
	return out
}

func (w *wWorker) run(n int, c wCase, ad *cluster.MngAdapter) ([]vh.Ev, error) {
	abbr := map[string]string{} // real address -> a1..a3
	all := map[string]bool{}
	for _, l := range [][]string{c.Topo.Static, c.Topo.Mgr, c.Topo.D1, c.Topo.D2} {
		for _, a := range l {
			all[a] = true
			abbr[w.addr(a)] = a
		}
	}
	type entry struct {
		o string
		h types.Host
	}
	hosts := []entry{}
	var stops []func()
	defer func() {
		for _, f := range stops {
			f()
		}
	}()
	// fresh words
	probe := cluster.NewCluster(v2.Cluster{Name: w.name("probe"), LbType: v2.LB_RANDOM}).Snapshot().ClusterInfo()
	clearAll := func() {
		for a := range all {
			force(newHost(probe, w.addr(a)), nil)
		}
	}
	clearAll()
	if len(c.Topo.Static) > 0 {
		cl := cluster.NewCluster(v2.Cluster{Name: w.name("static"), ClusterType: v2.SIMPLE_CLUSTER, LbType: v2.LB_RANDOM})
		hs := []types.Host{}
		for _, a := range c.Topo.Static {
			hs = append(hs, newHost(cl.Snapshot().ClusterInfo(), w.addr(a)))
		}
		cl.UpdateHosts(cluster.NewHostSet(hs))
		for _, h := range hostsOf(cl.Snapshot()) {
			hosts = append(hosts, entry{"static", h})
		}
	}
	if len(c.Topo.Mgr) > 0 {
		name := w.name("mgr")
		if err := ad.TriggerClusterAddOrUpdate(v2.Cluster{Name: name, ClusterType: v2.SIMPLE_CLUSTER, LbType: v2.LB_RANDOM}); err != nil {
			return nil, err
		}
		cfgs := []v2.Host{}
		for _, a := range c.Topo.Mgr {
			cfgs = append(cfgs, v2.Host{HostConfig: v2.HostConfig{Address: w.addr(a), Hostname: a}})
		}
		if err := ad.TriggerClusterHostUpdate(name, cfgs); err != nil {
			return nil, err
		}
		for _, h := range hostsOf(ad.GetClusterSnapshot(context.Background(), name)) {
			hosts = append(hosts, entry{"mgr", h})
		}
		stops = append(stops, func() { ad.TriggerClusterHostUpdate(name, nil) })
	}
	for _, d := range []struct {
		o    string
		recs []string
	}{{"d1", c.Topo.D1}, {"d2", c.Topo.D2}} {
		if len(d.recs) == 0 {
			continue
		}
		domain := w.domain(d.o, n)
		ips := []string{}
		for _, a := range d.recs {
			ips = append(ips, w.ip(a))
			if d.o == "d1" && c.Hc {
				wSessions.Store(w.addr(a), &wSession{ans: make(chan bool)})
			}
		}
		dnsRecords.Store(domain+".", ips)
		cfg := v2.Cluster{Name: w.name(d.o), ClusterType: v2.STRICT_DNS_CLUSTER, LbType: v2.LB_RANDOM,
			DnsResolverConfig: v2.DnsResolverConfig{Servers: []string{"127.0.0.1"}, Port: w.dnsPort, Timeout: 2, Attempts: 2},
			DnsRefreshRate:    &api.DurationConfig{Duration: time.Hour}}
		if d.o == "d1" && c.Hc {
			cfg.HealthCheck = v2.HealthCheck{HealthCheckConfig: v2.HealthCheckConfig{Protocol: "verif-c16-words", ServiceName: "c16words",
				HealthyThreshold: c.Ht, UnhealthyThreshold: c.Ut, InitialDelaySeconds: api.DurationConfig{Duration: time.Millisecond}},
				Timeout: time.Minute, Interval: time.Millisecond, IntervalJitter: time.Nanosecond}
		}
		cl := cluster.NewCluster(cfg)
		stops = append(stops, cl.StopHealthChecking, func() { dnsRecords.Delete(domain + ".") })
		if d.o == "d1" && c.Hc {
			cl.AddHealthCheckCallbacks(func(h types.Host, changed bool, isHealthy bool) {
				select {
				case w.cb <- wCb{h.AddressString(), changed, isHealthy}:
				case <-time.After(5 * time.Second):
				}
			})
		}
		cl.UpdateHosts(cluster.NewHostSet([]types.Host{cluster.NewSimpleHost(v2.Host{HostConfig: v2.HostConfig{Address: domain + ":80", Hostname: domain}}, cl.Snapshot().ClusterInfo())}))
		// wait until the resolved records are published (hook cluster.publish.end)
		deadline := time.After(8 * time.Second)
		for {
			hs := hostsOf(cl.Snapshot())
			okn := 0
			for _, h := range hs {
				if abbr[h.AddressString()] != "" {
					okn++
				}
			}
			if okn == len(d.recs) && len(hs) == len(d.recs) {
				for _, h := range hs {
					hosts = append(hosts, entry{d.o, h})
				}
				break
			}
			select {
			case <-w.pub:
			case <-deadline:
				return nil, fmt.Errorf("domain %s not resolved to %v (have %d hosts)", domain, ips, len(hs))
			}
		}
	}
	find := func(o, a string) types.Host {
		for _, e := range hosts {
			if e.o == o && abbr[e.h.AddressString()] == a {
				return e.h
			}
		}
		return nil
	}
	evs := []vh.Ev{{"ev": "topo", "static": c.Topo.Static, "mgr": c.Topo.Mgr, "d1": c.Topo.D1, "d2": c.Topo.D2, "hc": c.Hc, "ut": c.Ut, "ht": c.Ht, "hosts": len(hosts)}}
	for _, op := range c.Ops {
		h := find(op.H.O, op.H.A)
		if h == nil {
			return nil, fmt.Errorf("no host %v", op.H)
		}
		changed := false
		switch op.Kind {
		case "set":
			h.SetHealthFlag(bitOf[op.Flag])
		case "clear":
			h.ClearHealthFlag(bitOf[op.Flag])
		case "check":
			v, _ := wSessions.Load(h.AddressString())
			select {
			case v.(*wSession).ans <- (op.Flag == "ok"):
			case <-time.After(8 * time.Second):
				return nil, fmt.Errorf("health checker never checked %s", h.AddressString())
			}
			for got := false; !got; {
				select {
				case cb := <-w.cb:
					if cb.addr == h.AddressString() {
						changed, got = cb.changed, true
					}
				case <-time.After(8 * time.Second):
					return nil, fmt.Errorf("no health-check callback for %s", h.AddressString())
				}
			}
		}
		views := []vh.Ev{}
		for _, e := range hosts {
			views = append(views, vh.Ev{"o": e.o, "a": abbr[e.h.AddressString()], "flags": decode(e.h.HealthFlag()), "health": e.h.Health()})
		}
		evs = append(evs, vh.Ev{"ev": "op", "h": op.H, "kind": op.Kind, "flag": op.Flag, "changed": changed, "views": views})
	}
	for _, e := range hosts { // leave every word this case may have touched empty, whatever it is keyed by
		force(e.h, nil)
	}
	for a := range all {
		wSessions.Delete(w.addr(a))
	}
	clearAll()
	return evs, nil
}

func runWords(casesPath, tracePath string, par int) {
	tr := vh.NewTrace(tracePath)
	defer tr.Close()
	healthcheck.RegisterSessionFactory("verif-c16-words", wFactory{})
	cluster.GetClusterMngAdapterInstance().Destroy()
	cluster.NewClusterManagerSingleton(nil, nil, nil)
	ad := cluster.GetClusterMngAdapterInstance()
	port := startDNS()
	vh.Sink(func(ev string, kv []interface{}) {
		if ev != "cluster.publish.end" || len(kv) == 0 {
			return
		}
		if c, ok := kv[0].(types.Cluster); ok {
			if v, ok := wByCluster.Load(c.Snapshot().ClusterInfo().Name()); ok {
				select {
				case v.(*wWorker).pub <- struct{}{}:
				default:
				}
			}
		}
	})
	defer vh.Sink(nil)
	cases := []wCase{}
	vh.Must(vh.ReadCases(casesPath, func(raw json.RawMessage) error {
		var c wCase
		if err := json.Unmarshal(raw, &c); err != nil {
			return err
		}
		cases = append(cases, c)
		return nil
	}), "words cases")
	var next int64 = -1
	var emitMu sync.Mutex
	var nOK, nFail, nRetry int64
	var wg sync.WaitGroup
	for p := 0; p < par; p++ {
		w := &wWorker{id: p, dnsPort: port, pub: make(chan struct{}, 8), cb: make(chan wCb, 8)}
		for _, o := range []string{"static", "mgr", "d1", "d2"} {
			wByCluster.Store(w.name(o), w)
		}
		wg.Add(1)
		go func() {
			defer wg.Done()
			for {
				i := int(atomic.AddInt64(&next, 1))
				if i >= len(cases) {
					return
				}
				var evs []vh.Ev
				var err error
				for attempt := 0; attempt < 2; attempt++ {
					if evs, err = w.run(i*2+attempt, cases[i], ad); err == nil {
						break
					}
					atomic.AddInt64(&nRetry, 1)
				}
				if err != nil {
					atomic.AddInt64(&nFail, 1)
					fmt.Printf("FAILED case %d: %v\n", i, err)
					continue
				}
				atomic.AddInt64(&nOK, 1)
				emitMu.Lock()
				for _, e := range evs {
					tr.Emit(e)
				}
				emitMu.Unlock()
			}
		}()
	}
	wg.Wait()
	fmt.Printf("words cases=%d ok=%d failed=%d retries=%d events=%d\n", len(cases), nOK, nFail, nRetry, tr.Len())
	sum, _ := json.Marshal(map[string]int64{"cases": int64(len(cases)), "ok": nOK, "failed": nFail, "retries": nRetry})
	os.WriteFile(tracePath+".summary", sum, 0644)
}

func main() {
	mode := flag.String("mode", "flags", "flags|mix|thr|words|birth")
	cases := flag.String("cases", "", "cases file")
	out := flag.String("trace", "", "trace output")
	par := flag.Int("par", 48, "cases in flight (thr)")
	flag.Parse()
	if !vh.HooksCompiled() {
		vh.Must(fmt.Errorf("built without -tags verif"), "hooks")
	}
	_ = sort.Strings
	log.DefaultLogger.SetLogLevel(log.ERROR)
	switch *mode {
	case "flags":
		runFlags(*cases, *out, false)
	case "mix":
		runFlags(*cases, *out, true)
	case "thr":
		runThr(*cases, *out, *par)
	case "birth":
		runBirth(*out, *par)
	case "words":
		log.DefaultLogger.SetLogLevel(log.FATAL) // the placeholder host "domain:80" is looked up with the system resolver: noise
		runWords(*cases, *out, *par)
	}
}
