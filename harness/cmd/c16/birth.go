package main

import (
	"fmt"
	"runtime"
	"sync/atomic"

	"mosn.io/api"
	v2 "mosn.io/mosn/pkg/config/v2"
	"mosn.io/mosn/pkg/types"
	"mosn.io/mosn/pkg/upstream/cluster"

	"verif/vh"
)

// -mode birth: HealthWordBirth.tla on the real code. n creators build a host object (or only look the word up) for an
// address nobody has seen before, released together from a spin barrier; afterwards one condition is set through one
// of the objects and every object is read. One trace event per address.
func runBirth(tracePath string, rounds int) {
	tr := vh.NewTrace(tracePath)
	defer tr.Close()
	const n = 4
	if runtime.GOMAXPROCS(0) < n+1 {
		defer runtime.GOMAXPROCS(runtime.GOMAXPROCS(n + 1))
	}
	infos := make([]types.ClusterInfo, n)
	for k := range infos {
		infos[k] = cluster.NewCluster(v2.Cluster{Name: fmt.Sprintf("c16-birth-%d", k), ClusterType: v2.SIMPLE_CLUSTER, LbType: v2.LB_RANDOM}).Snapshot().ClusterInfo()
	}
	type job struct {
		addr string
		host bool
	}
	var (
		arrived, round int32
		ptrs           = make([]*uint64, n)
		hosts          = make([]types.Host, n)
		jobs           = make([]chan job, n)
		done           = make(chan struct{}, n)
	)
	for k := 0; k < n; k++ {
		jobs[k] = make(chan job)
		go func(k int) {
			want := int32(0)
			for j := range jobs[k] {
				want++
				atomic.AddInt32(&arrived, 1)
				for atomic.LoadInt32(&round) != want { // spin: leave together
				}
				if j.host {
					hosts[k] = cluster.NewSimpleHost(v2.Host{HostConfig: v2.HostConfig{Address: j.addr, Hostname: j.addr, Weight: 1}}, infos[k])
				} else {
					ptrs[k] = cluster.GetHealthFlagPointer(j.addr)
				}
				done <- struct{}{}
			}
		}(k)
	}
	flags := []api.HealthFlag{api.FAILED_ACTIVE_HC, api.FAILED_OUTLIER_CHECK}
	names := map[api.HealthFlag]string{api.FAILED_ACTIVE_HC: "A", api.FAILED_OUTLIER_CHECK: "B"}
	seed := vh.Seed()
	for r := 0; r < rounds; r++ {
		host := r%16 == 0 // building a host object registers its metrics (slow): a sample of the rounds
		addr := fmt.Sprintf("10.%d.%d.%d:%d", 64+int(seed)%64, (r>>8)&0xff, r&0xff, 21000+int(seed)%1000)
		atomic.StoreInt32(&arrived, 0)
		for k := 0; k < n; k++ {
			jobs[k] <- job{addr, host}
		}
		for atomic.LoadInt32(&arrived) != n {
			runtime.Gosched()
		}
		atomic.AddInt32(&round, 1)
		for k := 0; k < n; k++ {
			<-done
		}
		reg := cluster.GetHealthFlagPointer(addr) // what a later creator gets
		setc := r % n
		f := flags[(r/n)%2]
		if host {
			hosts[setc].SetHealthFlag(f)
		} else {
			cluster.SetHealthFlag(ptrs[setc], f)
		}
		// identity classes of the words, by first appearance
		class := map[*uint64]int{}
		cls := func(p *uint64) int {
			if c, ok := class[p]; ok {
				return c
			}
			class[p] = len(class)
			return class[p]
		}
		ptr := make([]int, n)
		views := make([][]string, n)
		for k := 0; k < n; k++ {
			var w uint64
			if host {
				// the word a host object holds is not exported: its identity is observed through the registered word
				// (a flag set on the registered word must be the one the object reports)
				w = uint64(hosts[k].HealthFlag())
				if w == uint64(f) {
					ptr[k] = cls(reg)
				} else {
					ptr[k] = cls(new(uint64))
				}
			} else {
				ptr[k] = cls(ptrs[k])
				w = atomic.LoadUint64(ptrs[k])
			}
			views[k] = []string{}
			for _, g := range flags {
				if w&uint64(g) != 0 {
					views[k] = append(views[k], names[g])
				}
			}
		}
		via := "pointer"
		if host {
			via = "host"
		}
		tr.Emit(vh.Ev{"ev": "birth", "via": via, "n": n, "ptr": ptr, "reg": cls(reg), "setc": setc, "flag": names[f], "views": views})
	}
}
