// Package xc09 holds the helpers of the C09 driver: a types.Host wrapper that registers (and can
// gate) every connection a pool creates, a scripted loopback upstream for a ping-pong protocol,
// and the two protocol bindings (HTTP/1, a ping-pong xprotocol built on the bolt codec).
package xc09

import (
	"context"
	"fmt"
	"net"
	"sync"
	"sync/atomic"
	"time"

	"mosn.io/api"
	"mosn.io/mosn/pkg/types"
)

// ---------------------------------------------------------------- connections created by the pool

// Conn wraps the client connection a pool creates. It passes everything through; it only
// (1) numbers the connections that connected, in dial order (the spec's client identities),
// (2) reports when a close event has been delivered to every registered listener (the pool's
// bookkeeping for that close is then complete), (3) can hold a local Close() at its entry.
type Conn struct {
	types.ClientConnection
	reg *Registry

	N int // 0 until Connect() succeeded

	mu        sync.Mutex
	nlisten   int
	closeSeen int
	closeDone chan struct{} // closed when every listener has handled a close event
	once      sync.Once
	decOnce   sync.Once

	gateArrived chan struct{} // non-nil: Close() signals here and waits for gateRelease
	gateRelease chan struct{}
}

type shim struct {
	c     *Conn
	inner api.ConnectionEventListener
}

func (s *shim) OnEvent(ev api.ConnectionEvent) {
	if ev.IsClose() {
		// before any listener (hence before the pool's own bookkeeping) handles the close
		s.c.decOnce.Do(func() { atomic.AddInt32(&s.c.reg.openNow, -1) })
	}
	s.inner.OnEvent(ev)
	if ev.IsClose() {
		s.c.mu.Lock()
		s.c.closeSeen++
		done := s.c.closeSeen >= s.c.nlisten
		s.c.mu.Unlock()
		if done {
			s.c.once.Do(func() { close(s.c.closeDone) })
		}
	}
}

func (c *Conn) AddConnectionEventListener(cb api.ConnectionEventListener) {
	c.mu.Lock()
	c.nlisten++
	c.mu.Unlock()
	c.ClientConnection.AddConnectionEventListener(&shim{c: c, inner: cb})
}

func (c *Conn) Connect() error {
	err := c.ClientConnection.Connect()
	if err == nil {
		c.reg.connected(c)
		n := atomic.AddInt32(&c.reg.openNow, 1)
		for {
			m := atomic.LoadInt32(&c.reg.maxOpen)
			if n <= m || atomic.CompareAndSwapInt32(&c.reg.maxOpen, m, n) {
				break
			}
		}
	}
	return err
}

// Close holds at the entry when a gate is armed (used to force "NewStream while a condemned
// connection is being closed").
func (c *Conn) Close(cc api.ConnectionCloseType, ev api.ConnectionEvent) error {
	c.mu.Lock()
	arr, rel := c.gateArrived, c.gateRelease
	c.gateArrived, c.gateRelease = nil, nil
	c.mu.Unlock()
	if arr != nil {
		close(arr)
		<-rel
	}
	return c.ClientConnection.Close(cc, ev)
}

// ArmCloseGate makes the next local Close() of this connection stop at its entry.
func (c *Conn) ArmCloseGate() (arrived <-chan struct{}, release chan<- struct{}) {
	a, r := make(chan struct{}), make(chan struct{})
	c.mu.Lock()
	c.gateArrived, c.gateRelease = a, r
	c.mu.Unlock()
	return a, r
}

// DisarmCloseGate removes an unused gate.
func (c *Conn) DisarmCloseGate() {
	c.mu.Lock()
	c.gateArrived, c.gateRelease = nil, nil
	c.mu.Unlock()
}

// Open reports whether the connection object is still open (network layer's own state).
func (c *Conn) Open() bool { return c.ClientConnection.State() != api.ConnClosed }

// WaitClosed waits until a close event went through every listener.
func (c *Conn) WaitClosed(d time.Duration) bool {
	select {
	case <-c.closeDone:
		return true
	case <-time.After(d):
		return false
	}
}

// Registry of the connections one pool created.
type Registry struct {
	mu    sync.Mutex
	conns []*Conn          // connected ones, index = ID-1
	byID  map[uint64]*Conn // by mosn connection id
	all   []*Conn

	openNow int32 // connected and no close event seen yet
	maxOpen int32 // high-water mark of openNow
}

// MaxOpen is the largest number of simultaneously open connections of the pool. A connection counts
// from the return of Connect() until its close event is about to be delivered, i.e. never longer than
// the pool itself can count it.
func (r *Registry) MaxOpen() int { return int(atomic.LoadInt32(&r.maxOpen)) }

func NewRegistry() *Registry { return &Registry{byID: map[uint64]*Conn{}} }

func (r *Registry) connected(c *Conn) {
	r.mu.Lock()
	r.conns = append(r.conns, c)
	c.N = len(r.conns)
	r.byID[c.ClientConnection.ID()] = c
	r.mu.Unlock()
}

// ByMosnID maps a mosn connection id to the wrapper (nil if unknown).
func (r *Registry) ByMosnID(id uint64) *Conn { r.mu.Lock(); defer r.mu.Unlock(); return r.byID[id] }

// ByLocalAddr finds the connection whose local address is addr.
func (r *Registry) ByLocalAddr(addr string) *Conn {
	r.mu.Lock()
	defer r.mu.Unlock()
	for _, c := range r.conns {
		if la := c.ClientConnection.LocalAddr(); la != nil && la.String() == addr {
			return c
		}
	}
	return nil
}

// Conns returns the connected connections in dial order.
func (r *Registry) Conns() []*Conn {
	r.mu.Lock()
	defer r.mu.Unlock()
	return append([]*Conn{}, r.conns...)
}

// Get returns connection number id (1-based) or nil.
func (r *Registry) Get(id int) *Conn {
	r.mu.Lock()
	defer r.mu.Unlock()
	if id < 1 || id > len(r.conns) {
		return nil
	}
	return r.conns[id-1]
}

// GatedResource wraps the cluster's request resource. The pools release it (Decrease) on the stream
// destroy path after the stream is gone and before they update their idle list; when armed, that
// goroutine is held right there, so the driver can deliver other events in the window.
type GatedResource struct {
	types.Resource
	mu      sync.Mutex
	entered chan struct{}
	release chan struct{}
}

func (r *GatedResource) Decrease() {
	r.Resource.Decrease()
	r.mu.Lock()
	ent, rel := r.entered, r.release
	r.entered, r.release = nil, nil
	r.mu.Unlock()
	if ent != nil {
		close(ent)
		<-rel
	}
}

// Arm holds the next Decrease() after it has released the resource.
func (r *GatedResource) Arm() (entered <-chan struct{}, release chan<- struct{}) {
	e, l := make(chan struct{}), make(chan struct{})
	r.mu.Lock()
	r.entered, r.release = e, l
	r.mu.Unlock()
	return e, l
}

// Disarm removes an unused gate.
func (r *GatedResource) Disarm() {
	r.mu.Lock()
	r.entered, r.release = nil, nil
	r.mu.Unlock()
}

type gatedRM struct {
	types.ResourceManager
	req *GatedResource
}

func (m *gatedRM) Requests() types.Resource { return m.req }

type gatedInfo struct {
	types.ClusterInfo
	rm *gatedRM
}

func (i *gatedInfo) ResourceManager() types.ResourceManager { return i.rm }

// GateRequests makes the host hand out a cluster info whose request resource is gated.
func (h *Host) GateRequests() *GatedResource {
	ci := h.Host.ClusterInfo()
	g := &GatedResource{Resource: ci.ResourceManager().Requests()}
	h.info = &gatedInfo{ClusterInfo: ci, rm: &gatedRM{ResourceManager: ci.ResourceManager(), req: g}}
	return g
}

func (h *Host) ClusterInfo() types.ClusterInfo {
	if h.info != nil {
		return h.info
	}
	return h.Host.ClusterInfo()
}

// Host wraps the host of a pool: connections are created by the live host, or by a host whose
// address refuses connections while Down is set.
type Host struct {
	types.Host
	Dead types.Host
	Down int32
	Reg  *Registry
	info *gatedInfo
}

func (h *Host) SetDown(d bool) {
	if d {
		atomic.StoreInt32(&h.Down, 1)
	} else {
		atomic.StoreInt32(&h.Down, 0)
	}
}

func (h *Host) CreateConnection(ctx context.Context) types.CreateConnectionData {
	src := h.Host
	if atomic.LoadInt32(&h.Down) == 1 {
		src = h.Dead
	}
	d := src.CreateConnection(ctx)
	w := &Conn{ClientConnection: d.Connection, reg: h.Reg, closeDone: make(chan struct{})}
	h.Reg.mu.Lock()
	h.Reg.all = append(h.Reg.all, w)
	h.Reg.mu.Unlock()
	d.Connection = w
	d.Host = h
	return d
}

// ---------------------------------------------------------------- scripted upstream

// Proto is what the upstream and the driver need to know about the wire protocol.
type Proto interface {
	Name() string
	// ReadRequest blocks until one complete request was read from c; it returns the request id
	// to echo (0 for HTTP).
	ReadRequest(c *UpConn) (uint32, error)
	Response(id uint32) []byte
	// GoAwayResponse is a complete answer that also announces that the connection goes away.
	GoAwayResponse(id uint32) []byte
	Garbage() []byte
}

// UpConn is one accepted connection.
type UpConn struct {
	C       net.Conn
	Remote  string
	Buf     []byte
	Reqs    chan uint32   // complete requests, in arrival order
	EOF     chan struct{} // closed when the peer closed / the read failed
	Acks    chan struct{} // answers to the upstream's own probes (heartbeat / PING acknowledgements)
	WMu     sync.Mutex    // serializes writes of the driver and of the reader goroutine
	Hello   bool          // protocol greeting done (HTTP/2)
	mu      sync.Mutex
	nreq    int
	nresp   int
	Overlap int32 // a request arrived while another was unanswered (exclusive lease broken)
}

// Arrival is a request seen by the upstream.
type Arrival struct {
	Conn *UpConn
	ID   uint32
}

type Upstream struct {
	P        Proto
	Ln       net.Listener
	Addr     string
	mu       sync.Mutex
	conns    map[string]*UpConn
	Arrivals chan Arrival
	MaxOpen  int32
	open     int32
}

func NewUpstream(p Proto) (*Upstream, error) {
	ln, err := net.Listen("tcp", "127.0.0.1:0")
	if err != nil {
		return nil, err
	}
	u := &Upstream{P: p, Ln: ln, Addr: ln.Addr().String(), conns: map[string]*UpConn{}, Arrivals: make(chan Arrival, 1024)}
	go u.acceptLoop()
	return u, nil
}

func (u *Upstream) acceptLoop() {
	for {
		c, err := u.Ln.Accept()
		if err != nil {
			return
		}
		uc := &UpConn{C: c, Remote: c.RemoteAddr().String(), Reqs: make(chan uint32, 64), EOF: make(chan struct{}), Acks: make(chan struct{}, 64)}
		u.mu.Lock()
		u.conns[uc.Remote] = uc
		u.mu.Unlock()
		n := atomic.AddInt32(&u.open, 1)
		for {
			m := atomic.LoadInt32(&u.MaxOpen)
			if n <= m || atomic.CompareAndSwapInt32(&u.MaxOpen, m, n) {
				break
			}
		}
		go func() {
			defer func() { atomic.AddInt32(&u.open, -1); close(uc.EOF) }()
			for {
				id, err := u.P.ReadRequest(uc)
				if err != nil {
					return
				}
				uc.mu.Lock()
				uc.nreq++
				if uc.nreq-uc.nresp > 1 {
					atomic.StoreInt32(&uc.Overlap, 1)
				}
				uc.mu.Unlock()
				uc.Reqs <- id
				u.Arrivals <- Arrival{uc, id}
			}
		}()
	}
}

// Write sends bytes to the pool's side of the connection.
func (uc *UpConn) Write(b []byte) error {
	uc.WMu.Lock()
	defer uc.WMu.Unlock()
	_, err := uc.C.Write(b)
	return err
}

// Answered tells the overlap detector that the upstream answered (or abandoned) a request.
func (uc *UpConn) Answered() { uc.mu.Lock(); uc.nresp++; uc.mu.Unlock() }

// Open returns the number of connections currently open at the upstream.
func (u *Upstream) Open() int { return int(atomic.LoadInt32(&u.open)) }

// ResetMaxOpen restarts the high-water mark of simultaneously open connections.
func (u *Upstream) ResetMaxOpen() { atomic.StoreInt32(&u.MaxOpen, atomic.LoadInt32(&u.open)) }

// Find waits until the connection with that remote address was accepted.
func (u *Upstream) Find(remote string, d time.Duration) *UpConn {
	dl := time.Now().Add(d)
	for {
		u.mu.Lock()
		uc := u.conns[remote]
		u.mu.Unlock()
		if uc != nil || time.Now().After(dl) {
			return uc
		}
		time.Sleep(200 * time.Microsecond)
	}
}

// CloseAll closes every accepted connection (end of a case) and forgets them.
func (u *Upstream) CloseAll() {
	u.mu.Lock()
	for k, uc := range u.conns {
		uc.C.Close()
		delete(u.conns, k)
	}
	u.mu.Unlock()
	for {
		select {
		case <-u.Arrivals:
		default:
			return
		}
	}
}

// DeadAddr returns a loopback address that refuses connections: a privileged port nobody listens on
// (an ephemeral port that was just released could be handed to another process of this shared machine).
func DeadAddr() (string, error) {
	for _, a := range []string{"127.0.0.1:1", "127.0.0.1:7", "127.0.0.1:9"} {
		c, err := net.DialTimeout("tcp", a, time.Second)
		if err == nil {
			c.Close()
			continue
		}
		return a, nil
	}
	return "", fmt.Errorf("no refusing loopback port found")
}

// DownConn stands for a downstream connection of the proxy (binding pool): it has an id, takes event
// listeners and delivers a close event to them; nothing else of api.Connection is used by the pool.
type DownConn struct {
	api.Connection
	Num    uint64
	mu     sync.Mutex
	ls     []api.ConnectionEventListener
	closed bool
}

func (d *DownConn) ID() uint64 { return d.Num }
func (d *DownConn) AddConnectionEventListener(l api.ConnectionEventListener) {
	d.mu.Lock()
	d.ls = append(d.ls, l)
	d.mu.Unlock()
}
func (d *DownConn) Close(cc api.ConnectionCloseType, ev api.ConnectionEvent) error {
	d.mu.Lock()
	if d.closed {
		d.mu.Unlock()
		return nil
	}
	d.closed = true
	ls := append([]api.ConnectionEventListener{}, d.ls...)
	d.mu.Unlock()
	for _, l := range ls {
		l.OnEvent(ev)
	}
	return nil
}
func (d *DownConn) Closed() bool { d.mu.Lock(); defer d.mu.Unlock(); return d.closed }
