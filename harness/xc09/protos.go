package xc09

import (
	"bytes"
	"context"
	"encoding/binary"
	"fmt"

	"mosn.io/api"
	"mosn.io/mosn/pkg/protocol/xprotocol"
	"mosn.io/mosn/pkg/protocol/xprotocol/bolt"
)

func readMore(c *UpConn) error {
	tmp := make([]byte, 4096)
	n, err := c.C.Read(tmp)
	if n > 0 {
		c.Buf = append(c.Buf, tmp[:n]...)
	}
	if n == 0 && err != nil {
		return err
	}
	return nil
}

// ---- HTTP/1.1 (requests without body)

type HTTP1 struct{}

func (HTTP1) Name() string { return "http1" }
func (HTTP1) ReadRequest(c *UpConn) (uint32, error) {
	for {
		if i := bytes.Index(c.Buf, []byte("\r\n\r\n")); i >= 0 {
			c.Buf = c.Buf[i+4:]
			return 0, nil
		}
		if err := readMore(c); err != nil {
			return 0, err
		}
	}
}
func (HTTP1) Response(uint32) []byte {
	return []byte("HTTP/1.1 200 OK\r\nContent-Length: 2\r\n\r\nok")
}
func (HTTP1) GoAwayResponse(uint32) []byte {
	return []byte("HTTP/1.1 200 OK\r\nConnection: close\r\nContent-Length: 2\r\n\r\nok")
}
func (HTTP1) Garbage() []byte { return []byte("BOGUS nonsense\r\n\r\n") }

// ---- ping-pong xprotocol: the bolt wire format with PoolMode() = PingPong

const PPName = "c09pp"

type ppProtocol struct{ api.XProtocol }

func (p ppProtocol) Name() api.ProtocolName                     { return PPName }
func (p ppProtocol) PoolMode() api.PoolMode                     { return api.PingPong }
func (p ppProtocol) EnableWorkerPool() bool                     { return false }
func (p ppProtocol) Trigger(context.Context, uint64) api.XFrame { return nil } // no keep-alive traffic

// PPCodec is the harness-defined ping-pong codec.
type PPCodec struct{ inner bolt.XCodec }

func (c *PPCodec) ProtocolName() api.ProtocolName { return PPName }
func (c *PPCodec) NewXProtocol(ctx context.Context) api.XProtocol {
	return ppProtocol{c.inner.NewXProtocol(ctx)}
}
func (c *PPCodec) ProtocolMatch() api.ProtocolMatch { return nil }
func (c *PPCodec) HTTPMapping() api.HTTPMapping     { return nil }

// RegisterPP registers the codec (stream factory + pool factory) once per process.
func RegisterPP() (*PPCodec, error) {
	c := &PPCodec{}
	if err := xprotocol.RegisterXProtocolCodec(c); err != nil {
		return nil, err
	}
	return c, nil
}

type PP struct{}

func (PP) Name() string { return "xpp" }
func (PP) ReadRequest(c *UpConn) (uint32, error) {
	for {
		if len(c.Buf) >= bolt.ResponseHeaderLen && c.Buf[0] == bolt.ProtocolCode && c.Buf[1] == bolt.CmdTypeResponse {
			// an answer to the upstream's own heartbeat
			cl := int(binary.BigEndian.Uint16(c.Buf[12:14]))
			hl := int(binary.BigEndian.Uint16(c.Buf[14:16]))
			bl := int(binary.BigEndian.Uint32(c.Buf[16:20]))
			total := bolt.ResponseHeaderLen + cl + hl + bl
			if len(c.Buf) >= total {
				c.Buf = c.Buf[total:]
				c.Acks <- struct{}{}
				continue
			}
		} else if len(c.Buf) >= bolt.RequestHeaderLen {
			if c.Buf[0] != bolt.ProtocolCode {
				return 0, fmt.Errorf("not bolt")
			}
			cl := int(binary.BigEndian.Uint16(c.Buf[14:16]))
			hl := int(binary.BigEndian.Uint16(c.Buf[16:18]))
			bl := int(binary.BigEndian.Uint32(c.Buf[18:22]))
			total := bolt.RequestHeaderLen + cl + hl + bl
			if len(c.Buf) >= total {
				id := binary.BigEndian.Uint32(c.Buf[5:9])
				c.Buf = c.Buf[total:]
				return id, nil
			}
		}
		if err := readMore(c); err != nil {
			return 0, err
		}
	}
}
func (PP) Response(id uint32) []byte {
	b := make([]byte, bolt.ResponseHeaderLen)
	b[0] = bolt.ProtocolCode
	b[1] = bolt.CmdTypeResponse
	binary.BigEndian.PutUint16(b[2:4], bolt.CmdCodeRpcResponse)
	b[4] = bolt.ProtocolVersion
	binary.BigEndian.PutUint32(b[5:9], id)
	b[9] = bolt.Hessian2Serialize
	return b
}
func (p PP) GoAwayResponse(id uint32) []byte {
	g := make([]byte, bolt.RequestHeaderLen)
	g[0] = bolt.ProtocolCode
	g[1] = bolt.CmdTypeRequest
	binary.BigEndian.PutUint16(g[2:4], bolt.CmdCodeGoAway)
	g[4] = bolt.ProtocolVersion
	binary.BigEndian.PutUint32(g[5:9], 0x7fffff00)
	g[9] = bolt.Hessian2Serialize
	return append(g, p.Response(id)...)
}
func (PP) Garbage() []byte {
	b := make([]byte, bolt.ResponseHeaderLen)
	b[0] = bolt.ProtocolCode
	b[1] = 9 // unknown command type: undecodable
	return b
}

// ---- multiplexing peers

// MuxProto is a Proto whose connections carry many streams.
type MuxProto interface {
	Proto
	GoAway(lastID uint32) []byte // announces that the connection goes away
	Probe() []byte               // a frame the pool's side must acknowledge (proves earlier frames were handled)
	RstStream(id uint32) []byte  // resets one stream (nil: the protocol has no such frame)
}

// MXName is the harness-registered multiplexing xprotocol: bolt wire format, heartbeat enabled.
const MXName = "c09mx"

type mxProtocol struct{ api.XProtocol }

func (p mxProtocol) Name() api.ProtocolName { return MXName }
func (p mxProtocol) PoolMode() api.PoolMode { return api.Multiplex }
func (p mxProtocol) EnableWorkerPool() bool { return false }

type MXCodec struct{ inner bolt.XCodec }

func (c *MXCodec) ProtocolName() api.ProtocolName { return MXName }
func (c *MXCodec) NewXProtocol(ctx context.Context) api.XProtocol {
	return mxProtocol{c.inner.NewXProtocol(ctx)}
}
func (c *MXCodec) ProtocolMatch() api.ProtocolMatch { return nil }
func (c *MXCodec) HTTPMapping() api.HTTPMapping     { return nil }

func RegisterMX() (*MXCodec, error) {
	c := &MXCodec{}
	if err := xprotocol.RegisterXProtocolCodec(c); err != nil {
		return nil, err
	}
	return c, nil
}

func boltControl(cmd uint16, id uint32) []byte {
	g := make([]byte, bolt.RequestHeaderLen)
	g[0] = bolt.ProtocolCode
	g[1] = bolt.CmdTypeRequest
	binary.BigEndian.PutUint16(g[2:4], cmd)
	g[4] = bolt.ProtocolVersion
	binary.BigEndian.PutUint32(g[5:9], id)
	g[9] = bolt.Hessian2Serialize
	return g
}

// MX is the upstream side of the multiplexing xprotocol.
type MX struct{ PP }

func (MX) Name() string            { return "xmux" }
func (MX) GoAway(uint32) []byte    { return boltControl(bolt.CmdCodeGoAway, 0x7fffff00) }
func (MX) Probe() []byte           { return boltControl(bolt.CmdCodeHeartbeat, 0x7fffff01) }
func (MX) RstStream(uint32) []byte { return nil }

// H2 is a raw-frame HTTP/2 server side (cleartext, prior knowledge).
type H2 struct{}

func h2frame(typ, flags byte, sid uint32, payload []byte) []byte {
	b := make([]byte, 9+len(payload))
	b[0], b[1], b[2] = byte(len(payload)>>16), byte(len(payload)>>8), byte(len(payload))
	b[3], b[4] = typ, flags
	binary.BigEndian.PutUint32(b[5:9], sid&0x7fffffff)
	copy(b[9:], payload)
	return b
}

const h2Preface = "PRI * HTTP/2.0\r\n\r\nSM\r\n\r\n"

func (H2) Name() string { return "h2" }

// ReadRequest answers the connection-level frames and returns at the end of a request's header block.
func (H2) ReadRequest(c *UpConn) (uint32, error) {
	need := func(n int) error {
		for len(c.Buf) < n {
			if err := readMore(c); err != nil {
				return err
			}
		}
		return nil
	}
	if !c.Hello {
		if err := need(len(h2Preface)); err != nil {
			return 0, err
		}
		if string(c.Buf[:len(h2Preface)]) != h2Preface {
			return 0, fmt.Errorf("no HTTP/2 preface")
		}
		c.Buf = c.Buf[len(h2Preface):]
		c.Hello = true
		if err := c.Write(h2frame(4, 0, 0, nil)); err != nil { // SETTINGS
			return 0, err
		}
	}
	for {
		if err := need(9); err != nil {
			return 0, err
		}
		n := int(c.Buf[0])<<16 | int(c.Buf[1])<<8 | int(c.Buf[2])
		typ, flags := c.Buf[3], c.Buf[4]
		sid := binary.BigEndian.Uint32(c.Buf[5:9]) & 0x7fffffff
		if err := need(9 + n); err != nil {
			return 0, err
		}
		payload := append([]byte{}, c.Buf[9:9+n]...)
		c.Buf = c.Buf[9+n:]
		switch typ {
		case 4: // SETTINGS
			if flags&1 == 0 {
				if err := c.Write(h2frame(4, 1, 0, nil)); err != nil {
					return 0, err
				}
			}
		case 6: // PING
			if flags&1 == 0 {
				if err := c.Write(h2frame(6, 1, 0, payload)); err != nil {
					return 0, err
				}
			} else {
				c.Acks <- struct{}{}
			}
		case 1, 9: // HEADERS / CONTINUATION: the request is complete at END_HEADERS (requests carry no body here)
			if flags&4 != 0 {
				return sid, nil
			}
		}
	}
}
func (H2) Response(id uint32) []byte {
	return h2frame(1, 0x4|0x1, id, []byte{0x88}) // HEADERS, END_HEADERS|END_STREAM, ":status: 200" (static table)
}
func (h H2) GoAwayResponse(id uint32) []byte { return append(h.GoAway(id), h.Response(id)...) }
func (H2) Garbage() []byte                   { return h2frame(1, 0x4, 0, []byte{0xff}) } // HEADERS on stream 0: connection error
func (H2) GoAway(last uint32) []byte {
	p := make([]byte, 8)
	binary.BigEndian.PutUint32(p[0:4], last)
	return h2frame(7, 0, 0, p)
}
func (H2) Probe() []byte { return h2frame(6, 0, 0, []byte("c09probe")) }
func (H2) RstStream(id uint32) []byte {
	p := make([]byte, 4)
	binary.BigEndian.PutUint32(p[0:4], 8) // CANCEL
	return h2frame(3, 0, id, p)
}

// BDName is the harness-registered xprotocol served by the binding pool (PoolMode neither ping-pong
// nor multiplex): bolt wire format, heartbeat enabled.
const BDName = "c09bd"

type bdProtocol struct{ api.XProtocol }

func (p bdProtocol) Name() api.ProtocolName { return BDName }
func (p bdProtocol) PoolMode() api.PoolMode { return api.TCP }
func (p bdProtocol) EnableWorkerPool() bool { return false }

type BDCodec struct{ inner bolt.XCodec }

func (c *BDCodec) ProtocolName() api.ProtocolName { return BDName }
func (c *BDCodec) NewXProtocol(ctx context.Context) api.XProtocol {
	return bdProtocol{c.inner.NewXProtocol(ctx)}
}
func (c *BDCodec) ProtocolMatch() api.ProtocolMatch { return nil }
func (c *BDCodec) HTTPMapping() api.HTTPMapping     { return nil }

func RegisterBD() (*BDCodec, error) {
	c := &BDCodec{}
	if err := xprotocol.RegisterXProtocolCodec(c); err != nil {
		return nil, err
	}
	return c, nil
}

// BD is the upstream side for the binding pool (same wire as MX).
type BD struct{ MX }

func (BD) Name() string { return "bind" }
