package xc09

import (
	"bytes"
	"context"
	"encoding/binary"
	"fmt"

	"mosn.io/api"
	"mosn.io/mosn/pkg/protocol/xprotocol"
	"mosn.io/mosn/pkg/protocol/xprotocol/bolt"
)

func readMore(c *UpConn) error {
	tmp := make([]byte, 4096)
	n, err := c.C.Read(tmp)
	if n > 0 {
		c.Buf = append(c.Buf, tmp[:n]...)
	}
	if n == 0 && err != nil {
		return err
	}
	return nil
}

// ---- HTTP/1.1 (requests without body)

type HTTP1 struct{}

func (HTTP1) Name() string { return "http1" }
func (HTTP1) ReadRequest(c *UpConn) (uint32, error) {
	for {
		if i := bytes.Index(c.Buf, []byte("\r\n\r\n")); i >= 0 {
			c.Buf = c.Buf[i+4:]
			return 0, nil
		}
		if err := readMore(c); err != nil {
			return 0, err
		}
	}
}
func (HTTP1) Response(uint32) []byte {
	return []byte("HTTP/1.1 200 OK\r\nContent-Length: 2\r\n\r\nok")
}
func (HTTP1) GoAwayResponse(uint32) []byte {
	return []byte("HTTP/1.1 200 OK\r\nConnection: close\r\nContent-Length: 2\r\n\r\nok")
}
func (HTTP1) Garbage() []byte { return []byte("BOGUS nonsense\r\n\r\n") }

// ---- ping-pong xprotocol: the bolt wire format with PoolMode() = PingPong

const PPName = "c09pp"

type ppProtocol struct{ api.XProtocol }

func (p ppProtocol) Name() api.ProtocolName                     { return PPName }
func (p ppProtocol) PoolMode() api.PoolMode                     { return api.PingPong }
func (p ppProtocol) EnableWorkerPool() bool                     { return false }
func (p ppProtocol) Trigger(context.Context, uint64) api.XFrame { return nil } // no keep-alive traffic

// PPCodec is the harness-defined ping-pong codec.
type PPCodec struct{ inner bolt.XCodec }

func (c *PPCodec) ProtocolName() api.ProtocolName { return PPName }
func (c *PPCodec) NewXProtocol(ctx context.Context) api.XProtocol {
	return ppProtocol{c.inner.NewXProtocol(ctx)}
}
func (c *PPCodec) ProtocolMatch() api.ProtocolMatch { return nil }
func (c *PPCodec) HTTPMapping() api.HTTPMapping     { return nil }

// RegisterPP registers the codec (stream factory + pool factory) once per process.
func RegisterPP() (*PPCodec, error) {
	c := &PPCodec{}
	if err := xprotocol.RegisterXProtocolCodec(c); err != nil {
		return nil, err
	}
	return c, nil
}

type PP struct{}

func (PP) Name() string { return "xpp" }
func (PP) ReadRequest(c *UpConn) (uint32, error) {
	for {
		if len(c.Buf) >= bolt.RequestHeaderLen {
			if c.Buf[0] != bolt.ProtocolCode {
				return 0, fmt.Errorf("not bolt")
			}
			cl := int(binary.BigEndian.Uint16(c.Buf[14:16]))
			hl := int(binary.BigEndian.Uint16(c.Buf[16:18]))
			bl := int(binary.BigEndian.Uint32(c.Buf[18:22]))
			total := bolt.RequestHeaderLen + cl + hl + bl
			if len(c.Buf) >= total {
				id := binary.BigEndian.Uint32(c.Buf[5:9])
				c.Buf = c.Buf[total:]
				return id, nil
			}
		}
		if err := readMore(c); err != nil {
			return 0, err
		}
	}
}
func (PP) Response(id uint32) []byte {
	b := make([]byte, bolt.ResponseHeaderLen)
	b[0] = bolt.ProtocolCode
	b[1] = bolt.CmdTypeResponse
	binary.BigEndian.PutUint16(b[2:4], bolt.CmdCodeRpcResponse)
	b[4] = bolt.ProtocolVersion
	binary.BigEndian.PutUint32(b[5:9], id)
	b[9] = bolt.Hessian2Serialize
	return b
}
func (p PP) GoAwayResponse(id uint32) []byte {
	g := make([]byte, bolt.RequestHeaderLen)
	g[0] = bolt.ProtocolCode
	g[1] = bolt.CmdTypeRequest
	binary.BigEndian.PutUint16(g[2:4], bolt.CmdCodeGoAway)
	g[4] = bolt.ProtocolVersion
	binary.BigEndian.PutUint32(g[5:9], 0x7fffff00)
	g[9] = bolt.Hessian2Serialize
	return append(g, p.Response(id)...)
}
func (PP) Garbage() []byte {
	b := make([]byte, bolt.ResponseHeaderLen)
	b[0] = bolt.ProtocolCode
	b[1] = 9 // unknown command type: undecodable
	return b
}
