"""Concurrent lookups on one load balancer (spec/cluster/LBScan.tla + LBScanTrace.tla), a part of C05.

The round-robin balancer (also the degradation path of the random, weighted round-robin and peak-EWMA policies) shares
one cursor between all lookups; a lookup's first pass can be starved by the others, and its second pass is what keeps
"a healthy host is returned whenever one exists" true under every interleaving.
1. TLC checks the design for every health pattern and start cursor (LBScan.cfg) and must reject three defect switches.
2. TLC enumerates every complete interleaving of 2-3 lookups (one step = from one Health() call to the next) for every
   health pattern with a healthy host; harness/cmd/lbscan forces each on real balancers of all eight policies - the hosts
   handed to the balancer answer Health() through a scheduler gate, no hook in mosn - with the round-robin cursor aligned
   to the model's start value.
3. TLC validates what every lookup returned against LBScanTrace (the C05 contract)."""
import concurrent.futures as cf
import json, os, re
import vlib

FAM = "cluster"
DEFECTS = ("NoWrap", "NoSecondPass", "SecondPassFromCursorEachStep")
MM = re.compile(r'<<\s*"MISMATCH",\s*(\d+),\s*"([^"]+)"\s*>>')


def run_part(ctx, pid="C05"):
    q = ctx.quick()
    import random
    rng = random.Random(ctx.seed * 104729 + 5)
    ctx.add_tlc(vlib.run_tlc(ctx, FAM, "LBScan", "LBScan.cfg", timeout=900))
    for d in DEFECTS:
        if vlib.run_tlc(ctx, FAM, "LBScan", "LBScan_defect_%s.cfg" % d, expect_ok=False)["ok"]:
            raise vlib.Inconclusive("LBScan does not reject defect " + d)
    plan = [("LBScan_n1l2.cfg", None), ("LBScan_n2l3.cfg", 1200 if q else None), ("LBScan_n3l2.cfg", 300 if q else None)]
    if not q:
        plan += [("LBScan_n4l2.cfg", None), ("LBScan_n2l4.cfg", 6000), ("LBScan_n3l3.cfg", 6000)]
    lines, universe, sampled = [], {}, False
    for cfg, cap in plan:
        raw = os.path.join(ctx.tmp, "lbscan_raw_%s.jsonl" % cfg)
        r = vlib.run_tlc(ctx, FAM, "LBScan", cfg, workers=1, cases_to=raw, timeout=1500)
        ctx.add_tlc(r)
        ls = sorted(set(open(raw).read().splitlines()))
        universe[cfg] = len(ls)
        if cap is not None and len(ls) > cap:
            # always keep the interleavings in which some lookup reached its second pass (more than n probes of one lookup)
            def starved(ln):
                c = json.loads(ln)
                return any(c["sched"].count(l) > c["n"] for l in set(c["sched"]))
            keep = [ln for ln in ls if starved(ln)]
            if len(keep) > cap * 2 // 3:
                keep = rng.sample(keep, cap * 2 // 3)
            ks = set(keep)
            rest = [ln for ln in ls if ln not in ks]
            ls = keep + rng.sample(rest, min(len(rest), cap - len(keep)))
            sampled = True
        lines += ls
    rng.shuffle(lines)
    cases = os.path.join(ctx.tmp, "lbscan_cases.jsonl")
    with open(cases, "w") as fo:
        fo.write("\n".join(lines) + "\n")
    binary = vlib.go_build("lbscan")
    shards = 4 if q else 8
    jobs = []
    for s in range(shards):
        t = os.path.join(ctx.tmp, "lbscan-%d.ndjson" % s)
        jobs.append((t, ["-cases", cases, "-trace", t, "-shard", str(s), "-shards", str(shards)]))
    with cf.ThreadPoolExecutor(max_workers=shards) as ex:
        for f in [ex.submit(vlib.run_driver, ctx, binary, j[1], 1500) for j in jobs]:
            f.result()
    with cf.ThreadPoolExecutor(max_workers=max(2, vlib.NCPU // 2)) as ex:
        results = list(ex.map(lambda j: vlib.validate_trace(ctx, FAM, "LBScanTrace", "LBScanTrace.cfg", j[0], timeout=1500), jobs))
    nruns = nret = nab = nsecond = 0
    for j, v in zip(jobs, results):
        evs = vlib.read_jsonl(j[0])
        ctx.cov["states"] += v["distinct"]; ctx.cov["transitions"] += v["generated"]
        starts = [i for i, e in enumerate(evs) if e["ev"] == "scan"]
        run_of = {}
        for a, b in zip(starts, starts[1:] + [len(evs)]):
            for i in range(a, b):
                run_of[i] = (a, b)
            nab += any(e["ev"] == "note" and e.get("what") == "abandon" for e in evs[a:b])
        nruns += len(starts)
        nret += sum(1 for e in evs if e["ev"] == "ret")
        pass
        mm = {}
        for m in MM.finditer(v["text"]):
            mm.setdefault(int(m.group(1)), set()).add(m.group(2))
        if not v["accepted"] and not mm and v["matched"] is None:
            raise vlib.Inconclusive("LBScan trace validation did not complete:\n%s" % v["text"][-1200:])
        def fail(line, kind):
            a, b = run_of.get(line - 1, (0, len(evs)))
            sc = evs[a]
            sig = "%s:scan:%s:%s" % (pid, sc.get("policy"), kind)
            vlib.report_failure(ctx, sig, dict(line=line, event=evs[line - 1], run=evs[a:b]))
        for line, kinds in sorted(mm.items()):
            for k in sorted(kinds):
                fail(line, k)
        if v["matched"] is not None and v["matched"] < len(evs):
            fail(v["matched"] + 1, "trace-rejected:" + evs[v["matched"]]["ev"])
    if nruns == 0 or nret == 0:
        raise vlib.Inconclusive("lbscan driver produced no runs")
    if nab * 10 > nruns:
        raise vlib.Inconclusive("lbscan: %d of %d schedules given up (machine too slow)" % (nab, nruns))
    ctx.cov["lbscan"] = dict(schedules=len(lines), universe=universe, sampled=sampled, runs=nruns, lookups_judged=nret, abandoned=nab)
    ctx.cov["traces_validated_against_impl"] += nruns
    ctx.cov["evaluations"] += nret
    vlib.log("[lbscan] %d schedules x 8 policies = %d runs, %d lookups judged (%d runs given up)" % (len(lines), nruns, nret, nab))
