"""C01 Forwarding fidelity: what goes in one side comes out the other unchanged.
   spec/wire/CodecLayout.tla (frame layouts as data), Codec.tla (+CodecTrace): decode / mutate / re-encode life of an
   xprotocol frame, behaviours enumerated by TLC are replayed into the real codecs (B1) and the recorded outcome is
   validated by TLC (B2).  spec/wire/TcpRelay.tla (+Trace): chunk/close schedules through the TCP proxy listener of an
   in-process MOSN.  spec/wire/FidelityHttp.tla (+Trace): request targets / headers / bodies through the HTTP listeners."""
import collections, json, os, random, re, threading
import vlib

LEVEL = "model_checking"

CODEC_DEFECTS = ["Uint16Truncate", "ForgetDirtyHeader", "ForgetDirtyBody", "AliasReadBuffer", "NoRetain"]


def mismatches(txt):
    out = {}
    for m in re.finditer(r'<<"MISMATCH", (\d+), "([^"]+)">>', txt):
        out.setdefault(int(m.group(1)), set()).add(m.group(2))
    return out


def split_trace(path, reset_ev, max_lines, outdir, stem):
    """Split an NDJSON trace at reset events into chunks of at most max_lines lines. Returns [(chunk_path, first_line_no)]."""
    chunks, cur, start, n = [], [], 1, 0
    with open(path) as fh:
        for line in fh:
            n += 1
            if cur and len(cur) >= max_lines and ('"ev":"%s"' % reset_ev) in line:
                chunks.append((cur, start)); cur = []; start = n
            cur.append(line)
    if cur:
        chunks.append((cur, start))
    out = []
    for i, (lines, st) in enumerate(chunks):
        p = os.path.join(outdir, "%s-%03d.ndjson" % (stem, i))
        with open(p, "w") as fh:
            fh.writelines(lines)
        out.append((p, st))
    return out


def validate_chunks(ctx, family, module, chunks, par=6, timeout=1500):
    """Validate chunks in parallel. Returns list of (first_line, result) ; raises Inconclusive on tool failure."""
    res = [None] * len(chunks)
    errs = []
    sem = threading.Semaphore(par)

    def work(i, p):
        with sem:
            try:
                res[i] = vlib.validate_trace(ctx, family, module, module + ".cfg", p, timeout=timeout)
            except Exception as e:  # Inconclusive or tool failure
                errs.append(e)
    ts = [threading.Thread(target=work, args=(i, p)) for i, (p, _) in enumerate(chunks)]
    [t.start() for t in ts]
    [t.join() for t in ts]
    if errs:
        raise vlib.Inconclusive("trace validation failed to run: %s" % errs[0])
    return [(chunks[i][1], res[i]) for i in range(len(chunks))]


# ------------------------------------------------------------------------------------------------ codec part

def codec_part(ctx):
    q = ctx.quick()
    cases = os.path.join(ctx.tmp, "codec_cases.jsonl")
    r = vlib.run_tlc(ctx, "wire", "Codec", "Codec.cfg" if q else "Codec_thorough.cfg", workers=1, cases_to=cases, timeout=1700)
    ctx.add_tlc(r)
    ncases = r["cases"]
    for d in CODEC_DEFECTS:
        rr = vlib.run_tlc(ctx, "wire", "Codec", "Codec_defect_%s.cfg" % d, expect_ok=False, timeout=300)
        if rr["ok"] or rr["violated"] != "Faithful":
            raise vlib.Inconclusive("Codec model does not reject defect %s (invariant vacuous?)" % d)
    binary = vlib.go_build("c01")
    trace = os.path.join(ctx.tmp, "codec.ndjson")
    nsh = 4
    parts = []
    ths = []
    errs = []
    for s in range(nsh):
        p = os.path.join(ctx.tmp, "codec-%d.ndjson" % s)
        parts.append(p)
        def go(s=s, p=p):
            try:
                vlib.run_driver(ctx, binary, ["-mode", "codec", "-cases", cases, "-trace", p, "-shard", str(s), "-shards", str(nsh)], timeout=1700)
            except Exception as e:
                errs.append(e)
        t = threading.Thread(target=go); t.start(); ths.append(t)
    [t.join() for t in ths]
    if errs:
        raise vlib.Inconclusive("codec driver: %s" % errs[0])
    with open(trace, "w") as fo:
        for p in parts:
            with open(p) as fi:
                for line in fi:
                    fo.write(line)
    evs = vlib.read_jsonl(trace)
    nrecv = sum(1 for e in evs if e["ev"] == "recv")
    if nrecv != ncases:
        raise vlib.Inconclusive("codec driver replayed %d of %d behaviours" % (nrecv, ncases))
    chunks = split_trace(trace, "recv", 30000, ctx.tmp, "codec-chunk")
    results = validate_chunks(ctx, "wire", "CodecTrace", chunks)
    # context of every line: the run it belongs to
    run_at = {}
    start = 0
    for i, e in enumerate(evs, 1):
        if e["ev"] == "recv":
            start = i
        run_at[i] = start

    fails = {}   # (codec, dir, kind) -> {frozenset(context ops): first example}

    def fail(line, kind):
        st = run_at[line]
        run = evs[st - 1:line]
        head = run[0]
        ops = frozenset({(e.get("op") or e["ev"]) for e in run[1:-1] if e["ev"] in ("mut", "scribble", "reuse")} - {"get"})
        d = fails.setdefault((head["codec"], head["dir"], kind), {})
        if ops not in d:
            d[ops] = [0, dict(line=line, kind=kind, codec=head["codec"], dir=head["dir"], seed=ctx.seed,
                              case_index=head.get("case"), history=run)]
        d[ops][0] += 1
    for first, v in results:
        ctx.cov["states"] += v["distinct"]; ctx.cov["transitions"] += v["generated"]
        mm = mismatches(v["text"])
        if not v["accepted"] and not mm and v["matched"] is None:
            raise vlib.Inconclusive("trace validation of CodecTrace did not complete:\n%s" % v["text"][-1500:])
        for line, kinds in sorted(mm.items()):
            for k in sorted(kinds):
                fail(first + line - 1, k)
        if v["matched"] is not None and v["matched"] < v["total"]:
            line = first + v["matched"]
            fail(line, "trace-rejected:" + evs[line - 1]["ev"])
    # the signature names the failing input class by the *minimal* sets of calls made on the frame before the failure
    # (a failure that already shows on an untouched frame is not reported again for every longer behaviour)
    for (codec, d_, kind), byctx in sorted(fails.items()):
        for ops, (cnt, detail) in sorted(byctx.items(), key=lambda kv: sorted(kv[0])):
            if any(o < ops for o in byctx):
                continue
            sig = "C01:codec:%s:%s:%s:%s" % (codec, d_, kind, "+".join(sorted(ops)) if ops else "clean")
            detail["occurrences"] = cnt
            vlib.report_failure(ctx, sig, detail)
    nf = sum(1 for e in evs if e["ev"] == "fwd")
    ctx.cov["traces_validated_against_impl"] += nrecv
    ctx.cov["evaluations"] += nf + nrecv
    ctx.cov["distinct_nontrivial"] += ncases
    ctx.cov.setdefault("trace_events", {})["codec"] = len(evs)
    per = collections.Counter(e["codec"] + "/" + e["dir"] for e in evs if e["ev"] == "recv")
    ctx.cov.setdefault("per_class", {})["codec"] = dict(per)
    k = random.Random(ctx.seed).randrange(max(1, nrecv))
    st = [i for i, e in enumerate(evs) if e["ev"] == "recv"][k]
    ctx.sample({"part": "codec", "run": evs[st:st + 5]})
    return ncases


def run(ctx):
    n = codec_part(ctx)
    ctx.cov["rule"] = ("codec: every behaviour recv;(<=1 header/body call | scribble | reuse)*;forward;[..;forward] of length <= MaxOps that TLC "
                       "enumerates from Codec.tla over codec x direction x length classes at the byte-width boundaries (one dimension off its "
                       "unremarkable value in quick, two in thorough) x mutation arguments incl. header blocks of exactly 65535/65536/70009 bytes; "
                       "one case = one behaviour replayed into the real codec")
    ctx.cov["exhaustive"] = True
    ctx.assumptions += [
        "byte values are seeded random (VERIF_SEED); lengths, counts and positions are enumerated",
        "dubbo/dubbo-thrift/tars: the header map is a routing view derived from the payload and has no wire representation; header calls must leave the frame unchanged",
        "tars: the data buffer of a frame is the complete frame (GetData returns it); a replaced buffer is expected to be what is forwarded",
        "header keys are unique within a frame; 4- and 8-byte length fields are not driven to their limits (lengths <= 1 MiB)",
    ]
