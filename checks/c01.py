"""C01 Forwarding fidelity: what goes in one side comes out the other unchanged.
   spec/wire/CodecLayout.tla (frame layouts as data), Codec.tla (+CodecTrace): decode / mutate / re-encode life of an
   xprotocol frame, behaviours enumerated by TLC are replayed into the real codecs (B1) and the recorded outcome is
   validated by TLC (B2).  spec/wire/TcpRelay.tla (+Trace): chunk/close schedules through the TCP proxy listener of an
   in-process MOSN.  spec/wire/FidelityHttp.tla (+Trace): request targets / headers / bodies through the HTTP listeners."""
import collections, json, os, random, re, threading
import vlib
import h1framing_part

LEVEL = "model_checking"

CODEC_DEFECTS = ["Uint16Truncate", "ForgetDirtyHeader", "ForgetDirtyBody", "AliasReadBuffer", "NoRetain"]


def mismatches(txt):
    out = {}
    for m in re.finditer(r'<<\s*"MISMATCH",\s*(\d+),\s*"([^"]+)"\s*>>', txt):
        out.setdefault(int(m.group(1)), set()).add(m.group(2))
    return out


def split_trace(path, reset_ev, max_lines, outdir, stem):
    """Split an NDJSON trace at reset events into chunks of at most max_lines lines. Returns [(chunk_path, first_line_no)]."""
    chunks, cur, start, n = [], [], 1, 0
    with open(path) as fh:
        for line in fh:
            n += 1
            if cur and len(cur) >= max_lines and ('"ev":"%s"' % reset_ev) in line:
                chunks.append((cur, start)); cur = []; start = n
            cur.append(line)
    if cur:
        chunks.append((cur, start))
    out = []
    for i, (lines, st) in enumerate(chunks):
        p = os.path.join(outdir, "%s-%03d.ndjson" % (stem, i))
        with open(p, "w") as fh:
            fh.writelines(lines)
        out.append((p, st))
    return out


def validate_chunks(ctx, family, module, chunks, par=6, timeout=1500):
    """Validate chunks in parallel. Returns list of (first_line, result) ; raises Inconclusive on tool failure."""
    res = [None] * len(chunks)
    errs = []
    sem = threading.Semaphore(par)

    def work(i, p):
        with sem:
            try:
                res[i] = vlib.validate_trace(ctx, family, module, module + ".cfg", p, timeout=timeout)
            except Exception as e:  # Inconclusive or tool failure
                errs.append(e)
    ts = [threading.Thread(target=work, args=(i, p)) for i, (p, _) in enumerate(chunks)]
    [t.start() for t in ts]
    [t.join() for t in ts]
    if errs:
        raise vlib.Inconclusive("trace validation failed to run: %s" % errs[0])
    return [(chunks[i][1], res[i]) for i in range(len(chunks))]


# ------------------------------------------------------------------------------------------------ codec part

def codec_part(ctx):
    q = ctx.quick()
    cases = os.path.join(ctx.tmp, "codec_cases.jsonl")
    r = vlib.run_tlc(ctx, "wire", "Codec", "Codec.cfg" if q else "Codec_thorough.cfg", workers=1, cases_to=cases, timeout=1700)
    ctx.add_tlc(r)
    ncases = r["cases"]
    for d in CODEC_DEFECTS:
        rr = vlib.run_tlc(ctx, "wire", "Codec", "Codec_defect_%s.cfg" % d, expect_ok=False, timeout=300)
        if rr["ok"] or rr["violated"] != "Faithful":
            raise vlib.Inconclusive("Codec model does not reject defect %s (invariant vacuous?)" % d)
    binary = vlib.go_build("c01")
    trace = os.path.join(ctx.tmp, "codec.ndjson")
    nsh = 4 if q else 8
    parts = []
    ths = []
    errs = []
    for s in range(nsh):
        p = os.path.join(ctx.tmp, "codec-%d.ndjson" % s)
        parts.append(p)
        def go(s=s, p=p):
            try:
                vlib.run_driver(ctx, binary, ["-mode", "codec", "-cases", cases, "-trace", p, "-shard", str(s), "-shards", str(nsh)], timeout=1700)
            except Exception as e:
                errs.append(e)
        t = threading.Thread(target=go); t.start(); ths.append(t)
    [t.join() for t in ths]
    if errs:
        raise vlib.Inconclusive("codec driver: %s" % errs[0])
    with open(trace, "w") as fo:
        for p in parts:
            with open(p) as fi:
                for line in fi:
                    fo.write(line)
    # stream the trace once (it can be millions of lines in the thorough tier): counts and one sample
    nrecv = nf = nev = 0
    per = collections.Counter()
    pick = random.Random(ctx.seed).randrange(max(1, ncases))
    sample = []
    with open(trace) as fh:
        for line in fh:
            nev += 1
            if '"ev":"recv"' in line:
                e = json.loads(line)
                per[e["codec"] + "/" + e["dir"]] += 1
                if nrecv == pick:
                    sample = [e]
                nrecv += 1
            else:
                if '"ev":"fwd"' in line:
                    nf += 1
                if sample and len(sample) < 5 and nrecv == pick + 1:
                    sample.append(json.loads(line))
    if nrecv != ncases:
        raise vlib.Inconclusive("codec driver replayed %d of %d behaviours" % (nrecv, ncases))
    chunks = split_trace(trace, "recv", 30000, ctx.tmp, "codec-chunk")
    results = validate_chunks(ctx, "wire", "CodecTrace", chunks, par=6 if q else 8)
    fails = {}   # (codec, dir, kind) -> {frozenset(context ops): [count, first example]}

    def fail(evs, line, kind):
        st = line
        while evs[st - 1]["ev"] != "recv":
            st -= 1
        run = evs[st - 1:line]
        head = run[0]
        ops = frozenset({(e.get("op") or e["ev"]) for e in run[1:-1] if e["ev"] in ("mut", "scribble", "reuse")} - {"get"})
        d = fails.setdefault((head["codec"], head["dir"], kind), {})
        if ops not in d:
            d[ops] = [0, dict(kind=kind, codec=head["codec"], dir=head["dir"], seed=ctx.seed, case_index=head.get("case"), history=run)]
        d[ops][0] += 1
    for (path, first), (_, v) in zip(chunks, results):
        ctx.cov["states"] += v["distinct"]; ctx.cov["transitions"] += v["generated"]
        mm = mismatches(v["text"])
        if not v["accepted"] and not mm and v["matched"] is None:
            raise vlib.Inconclusive("trace validation of CodecTrace did not complete:\n%s" % v["text"][-1500:])
        rejected = v["matched"] is not None and v["total"] is not None and v["matched"] < v["total"]
        if not mm and not rejected:
            continue
        evs = vlib.read_jsonl(path)      # only chunks with a failure are loaded
        for line, kinds in sorted(mm.items()):
            for k in sorted(kinds):
                fail(evs, line, k)
        if rejected:
            line = v["matched"] + 1
            fail(evs, line, "trace-rejected:" + evs[line - 1]["ev"])
    # the signature names the failing input class by the *minimal* sets of calls made on the frame before the failure
    # (a failure that already shows on an untouched frame is not reported again for every longer behaviour)
    for (codec, d_, kind), byctx in sorted(fails.items()):
        for ops, (cnt, detail) in sorted(byctx.items(), key=lambda kv: sorted(kv[0])):
            if any(o < ops for o in byctx):
                continue
            sig = "C01:codec:%s:%s:%s:%s" % (codec, d_, kind, "+".join(sorted(ops)) if ops else "clean")
            detail["occurrences"] = cnt
            vlib.report_failure(ctx, sig, detail)
    ctx.cov["traces_validated_against_impl"] += nrecv
    ctx.cov["evaluations"] += nf + nrecv
    ctx.cov["distinct_nontrivial"] += ncases
    ctx.cov.setdefault("trace_events", {})["codec"] = nev
    ctx.cov.setdefault("per_class", {})["codec"] = dict(per)
    ctx.sample({"part": "codec", "run": sample})
    return cases


# ------------------------------------------------------------------------------------------------ e2e parts

def dedup_cases(raw, out):
    lines = sorted(set(open(raw).read().splitlines()))
    with open(out, "w") as fh:
        for ln in lines:
            fh.write(ln + "\n")
    return len(lines)


def simple_part(ctx, part, module, cfg, defect_cfgs, violated, mode, reset_ev, classify, eval_evs, cases=None):
    """TLC model check + case emission, defect rejection, one driver process (one in-process MOSN), trace validation."""
    if cases is None:
        raw = os.path.join(ctx.tmp, part + "_raw.jsonl")
        cases = os.path.join(ctx.tmp, part + "_cases.jsonl")
        r = vlib.run_tlc(ctx, "wire", module, cfg, workers=1, cases_to=raw, timeout=900)
        ctx.add_tlc(r)
        ncases = dedup_cases(raw, cases)
    else:
        ncases = sum(1 for _ in open(cases))
    for d in defect_cfgs:
        rr = vlib.run_tlc(ctx, "wire", module, d, expect_ok=False, timeout=300)
        if rr["ok"] or rr["violated"] != violated:
            raise vlib.Inconclusive("%s model does not reject %s" % (module, d))
    binary = vlib.go_build("c01")
    trace = os.path.join(ctx.tmp, part + ".ndjson")
    for attempt in range(3):
        try:
            vlib.run_driver(ctx, binary, ["-mode", mode, "-cases", cases, "-trace", trace], timeout=1700)
            break
        except vlib.Inconclusive as e:
            # the in-process MOSN binds ports that were free a moment ago; on a shared machine another process may
            # take one in between (MOSN then exits): start over with fresh ports
            if attempt == 2 or "driver died" not in str(e):
                raise
            ctx.notes.append("%s driver restarted: %s" % (part, str(e)[:200]))
    evs = vlib.read_jsonl(trace)
    nruns = sum(1 for e in evs if e["ev"] == reset_ev)
    if nruns != ncases:
        raise vlib.Inconclusive("%s driver replayed %d of %d cases" % (part, nruns, ncases))
    v = vlib.validate_trace(ctx, "wire", module + "Trace", module + "Trace.cfg", trace, timeout=1500)
    ctx.cov["states"] += v["distinct"]; ctx.cov["transitions"] += v["generated"]
    mm = mismatches(v["text"])
    if not v["accepted"] and not mm and v["matched"] is None:
        raise vlib.Inconclusive("trace validation of %sTrace did not complete:\n%s" % (module, v["text"][-1500:]))
    run_at, start = {}, 0
    for i, e in enumerate(evs, 1):
        if e["ev"] == reset_ev:
            start = i
        run_at[i] = start

    def fail(line, kind):
        run = evs[run_at[line] - 1:line]
        sig = "C01:%s:%s" % (part, classify(run, kind))
        vlib.report_failure(ctx, sig, dict(line=line, kind=kind, seed=ctx.seed, history=run))
    for line, kinds in sorted(mm.items()):
        for k in sorted(kinds):
            fail(line, k)
    if v["matched"] is not None and v["matched"] < len(evs):
        fail(v["matched"] + 1, "trace-rejected:" + evs[v["matched"]]["ev"])
    ctx.cov["traces_validated_against_impl"] += nruns
    ctx.cov["evaluations"] += sum(1 for e in evs if e["ev"] in eval_evs)
    ctx.cov["distinct_nontrivial"] += ncases
    ctx.cov.setdefault("trace_events", {})[part] = len(evs)
    k = random.Random(ctx.seed).randrange(max(1, nruns))
    st = [i for i, e in enumerate(evs) if e["ev"] == reset_ev][k]
    ctx.sample({"part": part, "run": evs[st:st + 4]})
    return evs


def relay_classify(run, kind):
    closer = next((e["side"] for e in run if e["ev"] == "close"), "-")
    unsynced = False
    for e in run:
        if e["ev"] == "send" and e["side"] == closer:
            unsynced = True
        if e["ev"] == "sync":
            unsynced = False
    return "%s:closer=%s:%s" % (kind, closer, "last-bytes-in-flight" if unsynced else "quiescent")


def http_classify(run, kind):
    rq = run[0]
    if kind == "request-uri-changed":
        u = rq["uri"]
        path, _, q = u.partition("?")
        if u.endswith("?"):
            cls = "empty-query"
        elif "//" in path or path.endswith("/"):
            cls = "empty-segment"
        elif "/.." in path or "/." in path:
            cls = "dot-segment"
        elif "%" in path:
            cls = "escaped-path"
        elif "%" in q or "?" in q or "+" in q:
            cls = "query"
        else:
            cls = "other"
    elif kind.startswith("request-headers") or kind.startswith("response-headers"):
        cls = "hdr=" + rq["hdr"]
    elif kind == "request-body-changed":
        cls = "body=%s" % rq["body"]
    elif kind.startswith("response-"):
        cls = "status=%s:rbody=%s" % (rq["status"], rq["rbody"])
    else:
        cls = "method=" + rq["method"]
    return "%s:%s:%s" % (rq["pair"], kind, cls)


def xe2e_cases(ctx, codec_cases, bursts):
    """The frame shapes are the initial states TLC enumerated from Codec.tla: pair every request shape of a codec with a
    response shape of the same codec (both lists cycled) and send it as a burst of each size."""
    shapes = {}
    for ln in open(codec_cases):
        c = json.loads(ln)
        key = (c["codec"], c["dir"], json.dumps(c["shape"], sort_keys=True), c["fill"])
        if key not in shapes:
            c = dict(c); c["ops"] = []
            shapes[key] = c
    by = {}
    for (codec, d, _, _), c in sorted(shapes.items()):
        if sum(8 + p["kl"] + p["vl"] for p in c["shape"]["hdrs"]) > 65000:
            continue      # no room left for the service header the route needs
        by.setdefault(codec, {}).setdefault(d, []).append(c)
    out = os.path.join(ctx.tmp, "xe2e_cases.jsonl")
    with open(out, "w") as fh:
        for codec, dd in sorted(by.items()):
            rq, rs = dd.get("req", []), dd.get("resp", [])
            if not rq or not rs:
                continue
            for i in range(max(len(rq), len(rs))):
                for b in bursts:
                    fh.write(json.dumps({"codec": codec, "burst": b, "req": rq[i % len(rq)], "resp": rs[i % len(rs)]}) + "\n")
    return out


def xe2e_classify(run, kind):
    return "%s:%s" % (run[0]["codec"], kind)


def run(ctx):
    q = ctx.quick()
    codec_cases = codec_part(ctx)
    xe = simple_part(ctx, "xe2e", "CodecE2E", None, [], None, "xe2e", "xreq", xe2e_classify, ("xup", "xresp"),
                     cases=xe2e_cases(ctx, codec_cases, (1, 3) if q else (1, 3, 8)))
    xt = sum(1 for e in xe if e["ev"] == "xend" and e["how"] == "timeout")
    if xt:
        ctx.notes.append("xe2e: %d bursts ended on the harness deadline (no verdict taken from them)" % xt)
        if xt * 4 > sum(1 for e in xe if e["ev"] == "xreq"):
            raise vlib.Inconclusive("xe2e: %d harness deadlines hit" % xt)
    relay = simple_part(ctx, "relay", "TcpRelay", "TcpRelay.cfg" if q else "TcpRelay_thorough.cfg", ["TcpRelay_defect.cfg"],
                        "NothingLostBeforeEof", "relay", "conn", relay_classify, ("sync", "close", "eof"))
    timeouts = sum(1 for e in relay if e["ev"] == "eof" and e["how"] == "timeout") + sum(1 for e in relay if e["ev"] == "sync" and not e["ok"])
    if timeouts:
        ctx.notes.append("relay: %d waits ended on the harness deadline (no verdict taken from them)" % timeouts)
        if timeouts * 4 > sum(1 for e in relay if e["ev"] == "conn"):
            raise vlib.Inconclusive("relay: %d harness deadlines hit" % timeouts)
    for d, inv in (("FidelityHttp_defect_DrainBodyOnSend.cfg", "BodyPreserved"),):
        rr = vlib.run_tlc(ctx, "wire", "FidelityHttp", d, expect_ok=False, timeout=300)
        if rr["ok"] or rr["violated"] != inv:
            raise vlib.Inconclusive("FidelityHttp model does not reject %s" % d)
    hev = simple_part(ctx, "http", "FidelityHttp", "FidelityHttp.cfg" if q else "FidelityHttp_thorough.cfg", ["FidelityHttp_defect.cfg"],
                      "UriPreserved", "http", "req", http_classify, ("seen", "resp"))
    want = {"h1h1": 1, "h2h2": 2}
    pair = None
    for e in hev:
        if e["ev"] == "req":
            pair = e["pair"]
        elif e["ev"] == "seen" and e["arrived"] and e["upver"] != want.get(pair, e["upver"]):
            raise vlib.Inconclusive("http: pairing %s not realised (upstream saw HTTP/%s)" % (pair, e["upver"]))
    # HTTP/1 message framings (RFC 7230 3.3.3) through the proxy, spec/wire/H1Framing.tla
    h1framing_part.run_part(ctx, "C01")
    ctx.cov["rule"] = ("codec: every behaviour recv;(<=1 header/body call | scribble | reuse)*;forward;[..;forward] of length <= MaxOps that TLC "
                       "enumerates from Codec.tla over codec x direction x length classes at the byte-width boundaries (one dimension off its "
                       "unremarkable value in quick, two in thorough) x mutation arguments incl. header blocks of exactly 65535/65536/70009 bytes; "
                       "one case = one behaviour replayed into the real codec; xe2e: every frame shape of those behaviours (request shape x "
                       "response shape cycled) as a pipelined burst of 1 and 3 (thorough 8) requests through the xprotocol listener of an in-process "
                       "MOSN for each of the five codecs; relay: every schedule of <= MaxOps peer operations "
                       "(send of a chunk size / wait for quiescence / close) ending in a close, run through the TCP proxy listener of an in-process "
                       "MOSN; http: every request target of <= MaxSegs segments x query kinds with GET plus methods x bodies x header kinds x "
                       "responses on a plain target, incl. a retried first attempt, for the HTTP/1->HTTP/1 and HTTP/2->HTTP/2 listener/cluster pairings of an in-process MOSN")
    ctx.cov["exhaustive"] = True
    ctx.assumptions += [
        "byte values are seeded random (VERIF_SEED); lengths, counts and positions are enumerated",
        "dubbo/dubbo-thrift/tars: the header map is a routing view derived from the payload and has no wire representation; header calls must leave the frame unchanged",
        "tars: the data buffer of a frame is the complete frame (GetData returns it); a replaced buffer is expected to be what is forwarded",
        "header keys are unique within a frame; 4- and 8-byte length fields are not driven to their limits (lengths <= 1 MiB)",
        "xe2e: request frames carry a 'service' header / rpc command code / 30 s timeout so that they are routable; one-way requests are not sent end to end",
        "relay: a peer closes only after it has received everything the other peer wrote (no reset-induced loss); full close, no half-close",
        "http: header names compare case-insensitively, a repeated field may arrive joined by ', '; Host is not compared; upstream is Go net/http (h1 and h2c); HTTP/1<->HTTP/2 crossings need the transcoder stream filter (a configured rewrite) and are not driven",
    ]
