"""C03 Every request ends exactly once, with one reply, in bounded time.
   spec/lifecycle/RequestLifecycle.tla (Abs, + defect switches), Scenarios.tla (guided-schedule space),
   RequestLifecycleTrace.tla.  Binding B3+B2: each enumerated case is forced on the in-process MOSN with
   verifhook gates and real timers; the recorded life-cycle trace is validated by TLC."""
import json, os, random, re, subprocess
import vlib
import lifecycle_common as lc
import repotests_part

LEVEL = "model_checking"


def run(ctx):
    # the repository's own integration tests run beside everything else (they mostly wait); their traces are validated at the end
    rt = repotests_part.start(ctx, run_regex="TestRetry$|TestCommon$|TestXRetry$|TestRetryProxy$|TestXRetryProxy$|TestProxy$" if ctx.quick() else None, timeout=240 if ctx.quick() else 1200)
    lc.model_checks(ctx)
    lc.impl_model_checks(ctx)
    cases = lc.scenario_cases(ctx, "Scenarios", "Scenarios.cfg")
    q = ctx.quick()
    rng = random.Random(ctx.seed)
    if q:
        retry_gates = ("ds.upreset.retry", "ds.retry.begin", "ds.retry.pool", "ds.retry.chosen", "ds.pe#7", "ds.pe#8", "ds.pe#10")
        core = [c for c in cases if c["hold"] == "none" or (c["hold"] in retry_gates and c["hold2"] == "none") or c.get("steps") or c.get("body")]
        three = [c for c in cases if c["hold2"] != "none"]
        rest = [c for c in cases if c not in core and c["hold2"] == "none"]
        picked = core + rng.sample(three, min(len(three), 200)) + rng.sample(rest, min(len(rest), 240))
    else:
        picked = cases
    rng.shuffle(picked)
    traces, results = lc.run_sharded(ctx, "c03", picked, shards=12 if q else 14)
    # the same proxy state machine behind an xprotocol (bolt) listener, two-way and one-way requests: cases without
    # processError-count gates (a bolt request carries a body, which shifts that count) and without step schedules
    plain = [c for c in cases if not c.get("steps") and not c.get("body") and not c["hold"].startswith("ds.pe#") and not c["hold2"].startswith("ds.pe#")]
    bolt_cases = [c for c in plain if c["hold"] == "none"] + rng.sample([c for c in plain if c["hold"] != "none"], 120 if q else 1500)
    oneway_cases = [c for c in plain if c["hold"] == "none" and c["script"][0] in ("ok", "close", "hang", "s503")]
    t2, r2 = lc.run_sharded(ctx, "c03", bolt_cases, shards=8 if q else 12, extra_args=["-proto", "bolt"], tag="_bolt")
    t3, r3 = lc.run_sharded(ctx, "c03", oneway_cases, shards=4, extra_args=["-proto", "boltoneway"], tag="_oneway")
    # and behind an HTTP/2 listener with an HTTP/2 upstream (every kind of case, step schedules included)
    held = [c for c in cases if c["hold"] != "none" or c.get("steps")]
    h2_cases = [c for c in cases if c["hold"] == "none" and not c.get("steps")] + (rng.sample(held, min(len(held), 170)) if q else held)
    t4, r4 = lc.run_sharded(ctx, "c03", h2_cases, shards=8 if q else 14, extra_args=["-proto", "http2"], tag="_h2")
    ctx.cov["protocols"] = {"http1": len(results), "bolt": len(r2), "bolt-oneway": len(r3), "http2": len(r4)}
    traces, results = traces + t2 + t3 + t4, results + r2 + r3 + r4
    lc.validate(ctx, "C03", traces, results, kinds_for_property=None, sigfn=lc.lifecycle_sig,
                ignore_kinds=lc.RESOURCE_KINDS[:3])   # the clusters' breaker books at quiesce are C10's to judge
    repotests_part.finish(ctx, rt, "C03")
    ctx.cov["exhaustive"] = not q
    ctx.cov["rule"] = ("one case = (cluster shape, per-arrival upstream script, per-try timeout on/off, gate point held, event forced "
                       "to happen meanwhile) from Scenarios.tla (%d feasible cases); each realised once on the in-process MOSN over "
                       "HTTP/1 with global timeout 120 ms / per-try 40 ms; quick replays the retry-window and no-hold cases plus a "
                       "VERIF_SEED sample of the rest" % len(cases))
    ctx.assumptions += ["HTTP/1 (all cases), HTTP/2 (quick: no-hold cases plus a sample of the held ones; thorough: all) and bolt two-way / one-way (no-hold cases plus a sample of the held ones) downstream and upstream; one request at a time while a gate is held",
                        "bounded time is observed as: reply within global timeout + 700 ms after the last gate was released",
                        "retry budget of the routes used = max(3, num_retries=2) = 3 (retrystate.go)"]
