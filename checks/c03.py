"""C03 Every request ends exactly once, with one reply, in bounded time.
   spec/lifecycle/RequestLifecycle.tla (Abs, + defect switches), Scenarios.tla (guided-schedule space),
   RequestLifecycleTrace.tla.  Binding B3+B2: each enumerated case is forced on the in-process MOSN with
   verifhook gates and real timers; the recorded life-cycle trace is validated by TLC.
   The shape of the request (no body / a body part of length zero / a body / trailers, as the wire forms of each
   protocol and a body-replacing stream filter produce it) is a value class of its own: RequestShape.tla (forms),
   RequestForward.tla (model of the forwarding phases, 4 defect switches), Scenarios.tla ShapeCases (the runs)."""
import json, os, random, re, subprocess, time
from concurrent.futures import ThreadPoolExecutor
import vlib
import lifecycle_common as lc
import repotests_part

LEVEL = "model_checking"


SHAPE_DEFECTS = ("EmptyBodySkipsDataPhase", "EmptyBodyEndsAtHeaders", "RetryOmitsEmptyBody", "DataPhaseAlwaysEnds")
SHAPE_PROTOS = (("http1", 4, 6), ("http2", 4, 6), ("bolt", 2, 4), ("boltoneway", 1, 2))   # protocol of the driver, shards in the quick / thorough tier


def shape_model_checks(ctx):
    """RequestForward: the forwarding phases end the request towards the upstream exactly once and arm the timers, for
    every form of RequestShape (intended design passes, every named defect is rejected); Scenarios ShapeCases = the runs.
    The six small TLC runs go side by side."""
    raw = os.path.join(ctx.tmp, "Scenarios_shape_cases.jsonl")
    with ThreadPoolExecutor(6) as ex:
        ok = ex.submit(vlib.run_tlc, ctx, "lifecycle", "RequestForward", "RequestForward.cfg", workers=2)
        bad = [(d, ex.submit(vlib.run_tlc, ctx, "lifecycle", "RequestForward", "RequestForward_defect_%s.cfg" % d, workers=2, expect_ok=False))
               for d in SHAPE_DEFECTS]
        cs = ex.submit(vlib.run_tlc, ctx, "lifecycle", "Scenarios", "Scenarios_shapes.cfg", workers=1, cases_to=raw)
        ctx.add_tlc(ok.result())
        for d, f in bad:
            if f.result()["ok"]:
                raise vlib.Inconclusive("RequestForward does not reject defect " + d)
        ctx.add_tlc(cs.result())
    return vlib.read_jsonl(raw)


def shape_runs(ctx, rng):
    """Request-shape cases on the in-process MOSN (driver started with the scripted body filter): every unguided case
    of every protocol, and a VERIF_SEED sample of the guided ones."""
    q = ctx.quick()
    t0 = time.time()
    cases = shape_model_checks(ctx)
    t1 = time.time()
    jobs, cov = [], {}
    for proto, qshards, tshards in SHAPE_PROTOS:
        mine = [c for c in cases if c["proto"] == proto]
        plain = [c for c in mine if c["hold"] == "none"]
        held = [c for c in mine if c["hold"] != "none"]
        take = rng.sample(held, min(len(held), 60 if q else 400))
        picked = plain + take
        rng.shuffle(picked)
        cov[proto] = dict(forms=len(set((c["wire"], c["fop"]) for c in mine)), unguided=len(plain), guided=len(take), guided_space=len(held))
        jobs.append(dict(cases=picked, shards=qshards if q else tshards, extra_args=["-proto", proto, "-shapes"], tag="_shape_" + proto))
    ctx.cov["request_shapes"] = cov
    out = lc.run_sharded_many(ctx, "c03", jobs)
    vlib.log("[shapes] %d request-shape runs: model checks %.1fs, runs %.1fs" % (sum(len(j["cases"]) for j in jobs), t1 - t0, time.time() - t1))
    return [t for ts, _ in out for t in ts], [r for _, rs in out for r in rs]


def c03_sig(pid, kind, case, rt):
    """lifecycle_sig, plus the shape of the request for a request-shape case (the failing input class)."""
    sig = lc.lifecycle_sig(pid, kind, case, rt)
    if case.get("wire"):
        sig += ":shape=%s/%s:wire=%s:filter=%s" % (case.get("data"), case.get("trailers"), case.get("wire"), case.get("fop"))
    return sig


def run(ctx):
    # the repository's own integration tests run beside everything else (they mostly wait); their traces are validated at the end
    rt = repotests_part.start(ctx, run_regex="TestRetry$|TestCommon$|TestXRetry$|TestRetryProxy$|TestXRetryProxy$|TestProxy$" if ctx.quick() else None, timeout=240 if ctx.quick() else 1200)
    lc.model_checks(ctx)
    lc.impl_model_checks(ctx)
    cases = lc.scenario_cases(ctx, "Scenarios", "Scenarios.cfg")
    q = ctx.quick()
    rng = random.Random(ctx.seed)
    if q:
        retry_gates = ("ds.upreset.retry", "ds.retry.begin", "ds.retry.pool", "ds.retry.chosen", "ds.pe#7", "ds.pe#8", "ds.pe#10")
        core = [c for c in cases if c["hold"] == "none" or (c["hold"] in retry_gates and c["hold2"] == "none") or c.get("steps") or c.get("body")]
        three = [c for c in cases if c["hold2"] != "none"]
        rest = [c for c in cases if c not in core and c["hold2"] == "none"]
        picked = core + rng.sample(three, min(len(three), 200)) + rng.sample(rest, min(len(rest), 240))
    else:
        picked = cases
    rng.shuffle(picked)
    traces, results = lc.run_sharded(ctx, "c03", picked, shards=12 if q else 14)
    # the same proxy state machine behind an xprotocol (bolt) listener, two-way and one-way requests: cases without
    # processError-count gates (a bolt request carries a body, which shifts that count) and without step schedules
    # (cases for the scripted stream layer, layer = "script", run under the HTTP/1 listener only: the layer answers in HTTP/1 terms)
    plain = [c for c in cases if not c.get("steps") and not c.get("body") and not c.get("layer") and not c["hold"].startswith("ds.pe#") and not c["hold2"].startswith("ds.pe#")]
    bolt_cases = [c for c in plain if c["hold"] == "none"] + rng.sample([c for c in plain if c["hold"] != "none"], 120 if q else 1500)
    oneway_cases = [c for c in plain if c["hold"] == "none" and c["script"][0] in ("ok", "close", "hang", "s503")]
    t2, r2 = lc.run_sharded(ctx, "c03", bolt_cases, shards=8 if q else 12, extra_args=["-proto", "bolt"], tag="_bolt")
    t3, r3 = lc.run_sharded(ctx, "c03", oneway_cases, shards=4, extra_args=["-proto", "boltoneway"], tag="_oneway")
    # and behind an HTTP/2 listener with an HTTP/2 upstream (every kind of case, step schedules included)
    held = [c for c in cases if (c["hold"] != "none" or c.get("steps")) and not c.get("layer")]
    h2_cases = [c for c in cases if c["hold"] == "none" and not c.get("steps") and not c.get("layer")] + (rng.sample(held, min(len(held), 170)) if q else held)
    t4, r4 = lc.run_sharded(ctx, "c03", h2_cases, shards=8 if q else 14, extra_args=["-proto", "http2"], tag="_h2")
    # the shape of the request as a value class: wire forms of every protocol x what a body-replacing filter does
    t5, r5 = shape_runs(ctx, rng)
    ctx.cov["protocols"] = {"http1": len(results), "bolt": len(r2), "bolt-oneway": len(r3), "http2": len(r4), "request-shapes": len(r5)}
    traces, results = traces + t2 + t3 + t4 + t5, results + r2 + r3 + r4 + r5
    lc.validate(ctx, "C03", traces, results, kinds_for_property=None, sigfn=c03_sig,
                ignore_kinds=lc.RESOURCE_KINDS[:3])   # the clusters' breaker books at quiesce are C10's to judge
    repotests_part.finish(ctx, rt, "C03")
    __import__("mirror_part").run(ctx, "C03")   # the shipped traffic-mirror filter: the mirror cluster is one more upstream (spec/lifecycle/Mirror.tla)
    ctx.cov["exhaustive"] = not q
    ctx.cov["rule"] = ("one case = (cluster shape, per-arrival upstream script, per-try timeout on/off, gate point held, event forced "
                       "to happen meanwhile) from Scenarios.tla (%d feasible cases); each realised once on the in-process MOSN over "
                       "HTTP/1 with global timeout 120 ms / per-try 40 ms; quick replays the retry-window and no-hold cases plus a "
                       "VERIF_SEED sample of the rest" % len(cases))
    ctx.assumptions += ["HTTP/1 (all cases), HTTP/2 (quick: no-hold cases plus a sample of the held ones; thorough: all) and bolt two-way / one-way (no-hold cases plus a sample of the held ones) downstream and upstream; one request at a time while a gate is held",
                        "bounded time is observed as: reply within global timeout + 700 ms after the last gate was released",
                        "retry budget of the routes used = max(3, num_retries=2) = 3 (retrystate.go)",
                        "request shapes: every pair (body buffer absent | of length zero | bytes) x (trailers absent | present) is reached - natively by the wire forms "
                        "of HTTP/1 (5), HTTP/2 (7: HEADERS / empty DATA / DATA / trailers sequences), bolt two-way and one-way (2 each), and through a scripted "
                        "stream filter that strips / fills the body or sets trailers (SetRequestData / SetRequestTrailers) on each of them; every unguided case "
                        "(upstream answers / never answers / first host refused / per-try timeout then retry) is run, the guided ones are sampled by VERIF_SEED; "
                        "left out: trailers without a body buffer towards an HTTP/2 upstream (only a filter produces it; the HTTP/2 client stream cannot send it)"]
