"""C10 Circuit-breaker and active-gauge accounting is conserved.
   spec/cluster/Breaker.tla (contract + defect switches), BreakerOps.tla (start/finish histories), BreakerTrace.tla.
   Each TLC-enumerated history of concurrent requests (ends: ok, retried, upstream reset, timeout, client gone) is
   realised on the in-process MOSN against clusters with thresholds {0,1,2}; the real Resource.Cur() values and
   active gauges sampled at stable points are validated by TLC against the truth seen by the scripted upstream.
   Cluster configuration updates through the cluster manager (Breaker!Update, BreakerOps Update) are an operation of the
   histories: the books and thresholds are always read from the cluster the cluster manager exposes at that moment.
   The single-request lifecycle cases of C03 additionally check the downstream gauge on every guided schedule."""
import json, os, random
import vlib
import lifecycle_common as lc

LEVEL = "model_checking"
UPD_QUICK = {"http1": 144, "http2": 48, "bolt": 48, "tcp": 48}   # histories with a cluster update replayed in the quick tier


def switched(evs, st, line, kind):
    """off / on if, between the start of the run (event number st) and the failing event, an update switched the threshold of
    the resource the mismatch kind is about off (n -> 0) or on (0 -> n); None otherwise."""
    res = "retry" if "retr" in kind else "conn" if kind.startswith("tcp-") else "req" if "request" in kind else None
    if res is None or st < 1:
        return None
    run = evs[st - 1]
    cur = {"req": run.get("maxreq", 0), "retry": run.get("maxretry", 0), "conn": run.get("maxconn", 0)}
    out = None
    for e in evs[st:line]:
        if e["ev"] in ("update", "tupdate"):
            new = {"req": e.get("maxreq", cur["req"]), "retry": e.get("maxretry", cur["retry"]), "conn": e.get("maxconn", cur["conn"])}
            if (cur[res] == 0) != (new[res] == 0):
                out = "off" if new[res] == 0 else "on"
            cur = new
    return out


def run(ctx):
    q = ctx.quick()
    for cfg in ("Breaker.cfg", "Breaker_unlimited.cfg"):
        ctx.add_tlc(vlib.run_tlc(ctx, "cluster", "Breaker", cfg))
    for d in ("Breaker_defect1.cfg", "Breaker_defect2.cfg", "Breaker_defect_UpdateCopiesCounters.cfg",
              "Breaker_defect_UncountedWhileUnlimited.cfg"):
        if vlib.run_tlc(ctx, "cluster", "Breaker", d, expect_ok=False)["ok"]:
            raise vlib.Inconclusive("Breaker model does not reject " + d)
    raw = os.path.join(ctx.tmp, "ops.jsonl")
    ctx.add_tlc(vlib.run_tlc(ctx, "cluster", "BreakerOps", "BreakerOps.cfg", workers=1, cases_to=raw))
    cases = vlib.read_jsonl(raw)
    rng = random.Random(ctx.seed)
    rng.shuffle(cases)
    picked = cases[:240] if q else cases
    # cluster configuration updates (through the cluster manager, hosts inherited or rebuilt, thresholds unchanged / raised /
    # lowered / switched off / on) as an operation of the histories: at every position of the start/finish interleavings of
    # 2 requests (Breaker!Update is the contract: an admission taken before an update is given back after it on the books the
    # cluster then exposes)
    rawu = os.path.join(ctx.tmp, "opsu.jsonl")
    ucfg = "BreakerOpsUpd.cfg" if q else "BreakerOpsUpd_thorough.cfg"
    ctx.add_tlc(vlib.run_tlc(ctx, "cluster", "BreakerOps", ucfg, workers=1, cases_to=rawu, timeout=1200))
    ucases = vlib.read_jsonl(rawu)
    rng.shuffle(ucases)
    upicked = ucases[:UPD_QUICK["http1"]] if q else ucases[:3000]
    picked = picked + upicked
    sampled4 = 0
    if not q:
        raw4 = os.path.join(ctx.tmp, "ops4.jsonl")
        ctx.add_tlc(vlib.run_tlc(ctx, "cluster", "BreakerOps", "BreakerOps_thorough.cfg", workers=1, cases_to=raw4, timeout=1200))
        c4 = vlib.read_jsonl(raw4)
        rng.shuffle(c4)
        sampled4 = min(len(c4), 5000)
        picked = picked + c4[:sampled4]      # 4 concurrent requests: a VERIF_SEED sample of the 65k histories
    traces, results = lc.run_sharded(ctx, "c10", picked, shards=12 if q else 14)
    # the same histories over the multiplexed protocols: HTTP/2 (an exchange fails by RST_STREAM) and bolt (xprotocol
    # multiplex pool; the upstream-reset ending is played as a plain answer there)
    for proto, k in (("http2", 120 if q else 1500), ("bolt", 120 if q else 1500)):
        usub = rng.sample(ucases, min(len(ucases), UPD_QUICK[proto] if q else 800))
        sub = rng.sample(cases, min(len(cases), k)) + usub
        ctx.cov.setdefault("update_histories", {"http1": len(upicked)})[proto] = len(usub)
        t2, _ = lc.run_sharded(ctx, "c10", sub, shards=8 if q else 14, extra_args=["-proto", proto], tag="_" + proto)
        traces += t2
        ctx.cov.setdefault("protocols", {"http1": len(picked)})[proto] = len(sub)
    # TCP proxy part: connection accounting of the stream proxy over open/close histories
    rawt = os.path.join(ctx.tmp, "tcpops.jsonl")
    ctx.add_tlc(vlib.run_tlc(ctx, "cluster", "BreakerOps", "BreakerTcpOps.cfg", workers=1, cases_to=rawt))
    tcases = vlib.read_jsonl(rawt)
    rng.shuffle(tcases)
    tpicked = tcases[:96] if q else tcases
    rawtu = os.path.join(ctx.tmp, "tcpopsu.jsonl")
    ctx.add_tlc(vlib.run_tlc(ctx, "cluster", "BreakerOps", "BreakerTcpOpsUpd.cfg", workers=1, cases_to=rawtu))
    tucases = vlib.read_jsonl(rawtu)
    rng.shuffle(tucases)
    tupicked = tucases[:UPD_QUICK["tcp"]] if q else tucases
    tpicked = tpicked + tupicked
    ctx.cov["update_histories"]["tcp"] = len(tupicked)
    ttraces, _ = lc.run_sharded(ctx, "c10", tpicked, shards=12 if q else 14, extra_args=["-mode", "tcp"], tag="_tcp")
    traces = traces + ttraces
    # guided part: the single-request schedules of Scenarios.tla that end a request inside the retry window (an admitted
    # retry that cannot start: deadline passed during the back-off, every host failing its health check meanwhile, timer
    # and reset callbacks racing the retry) - after each run the clusters' books must be back at zero
    # the implementation-shaped model of downstream.go carries the retries resource a request holds (rheld): the intended
    # design returns it on every path (RetriesReturned), the named defect NoCleanUpOnRetryAbort is rejected by TLC
    lc.impl_model_checks(ctx)
    gcases = lc.scenario_cases(ctx, "Scenarios", "Scenarios.cfg")
    gwin = [c for c in gcases if c["hold"] in lc.RETRY_GATES or c["hold2"] in lc.RETRY_GATES or c.get("steps") or c.get("body")]
    # always replayed: abandoned retries, TLC-derived step schedules, requests with a body (the upstream stream is admitted
    # before the request counts as sent)
    gdown = [c for c in gwin if c["during"] == "hostsdown" or c.get("steps") or c.get("body")]
    grest = [c for c in gwin if not (c["during"] == "hostsdown" or c.get("steps") or c.get("body"))]
    gpicked = gdown + (rng.sample(grest, min(len(grest), 240)) if q else grest)
    gtraces, gresults = lc.run_sharded(ctx, "c03", gpicked, shards=8 if q else 14, extra_args=["-books"], tag="_guided")
    lc.validate(ctx, "C10", gtraces, gresults, kinds_for_property=lc.RESOURCE_KINDS,
                sigfn=lambda pid, kind, case, rt: "C10:guided:%s:hold=%s:during=%s" % (
                    kind, "+".join(x[5:] for x in case["steps"] if x.startswith("hold:")) if case.get("steps") else case.get("hold"),
                    ("steps" if case.get("steps") else case.get("during")) + (":body" if case.get("body") else "")))
    ctx.cov["guided_retry_window"] = dict(cases=len(gpicked), hostsdown=len(gdown))
    allp = os.path.join(ctx.tmp, "c10_all.ndjson")
    with open(allp, "w") as fo:
        for t in traces:
            fo.write(open(t).read())
    evs = vlib.read_jsonl(allp)
    v = vlib.validate_trace(ctx, "cluster", "BreakerTrace", "BreakerTrace.cfg", allp, timeout=1200)
    nruns = sum(1 for e in evs if e["ev"] in ("run", "trun"))
    ctx.cov["traces_validated_against_impl"] += nruns
    ctx.cov["evaluations"] += sum(1 for e in evs if e["ev"] in ("sample", "trip", "tsample", "topen"))
    ctx.cov["cluster_updates_with_requests_in_flight"] = sum(1 for i, e in enumerate(evs[:-1]) if e["ev"] in ("update", "tupdate") and (
        evs[i + 1].get("inflight", 0) > 0 or (evs[i + 1]["ev"] == "tsample" and any(x.get("truth", 0) > 0 for x in evs[i + 1:i + 4]))))
    ctx.cov["distinct_nontrivial"] = nruns
    ctx.cov["states"] += v["distinct"]; ctx.cov["transitions"] += v["generated"]
    first_end = next((i for i, e in enumerate(evs) if e["ev"] == "sample" and e.get("why") == "end"), 10)
    ctx.sample({"run": evs[:first_end + 1]})
    mm = lc.mismatches(v["text"])
    if not v["accepted"] and not mm and v["matched"] is None:
        raise vlib.Inconclusive("trace validation did not complete:\n" + v["text"][-1500:])
    run_at, cur, start = {}, None, 0
    for i, e in enumerate(evs, 1):
        if e["ev"] in ("run", "trun"):
            cur, start = e, i
        run_at[i] = (cur, start)
    def fail(line, kind):
        runev, st = run_at.get(line, (None, 0))
        e = evs[line - 1]
        why = e.get("why", e["ev"]).split(":")[-1] if e["ev"] == "sample" else e["ev"]
        thr = "limited" if (runev or {}).get("maxreq", 0) or (runev or {}).get("maxretry", 0) else "unlimited"
        if kind.startswith("retries"):
            thr = "max_retries=%s" % (runev or {}).get("maxretry")
        proto = (runev or {}).get("proto", "http1")
        upd = next((evs[j - 1] for j in range(line, st, -1) if evs[j - 1]["ev"] in ("update", "tupdate")), None)
        after_upd = ":after-update=%s/%s" % (upd["kind"], upd["to"]) if upd else ""
        sig = "C10:%s%s:%s%s" % ("" if proto == "http1" else proto + ":", kind, thr, after_upd)
        if kind.startswith("tcp-"):
            sig = "C10:%s:%s%s" % (kind, e.get("cluster", ""), after_upd)
        sw = switched(evs, st, line, kind)
        if sw:      # input class of its own whatever the protocol and the update entry: the threshold of this resource was switched
                    # off / on by an update of this history (5ab5b615d: the resource did not count while its threshold was 0)
            sig = "C10:threshold-switched-with-admissions-outstanding:%s:%s" % (
                "retries" if "retr" in kind else "connections" if kind.startswith("tcp-") else "requests", sw)
        end = next((j for j in range(line, len(evs) + 1) if evs[j - 1]["ev"] in ("run", "trun") and j > line), min(len(evs), line + 30))
        vlib.report_failure(ctx, sig, dict(event=e, after=why, run=runev, run_trace=evs[st - 1:end]))
    for line, kinds in sorted(mm.items()):
        for k in sorted(kinds):
            fail(line, k)
    if v["matched"] is not None and v["matched"] < len(evs):
        fail(v["matched"] + 1, "trace-rejected:" + evs[v["matched"]]["ev"])
    ctx.cov["exhaustive"] = not q
    ctx.cov["four_request_histories_sampled"] = sampled4
    ctx.cov["rule"] = ("every interleaving of start/finish of 3 concurrent requests x 5 ways to end (ok, retried after 503, upstream "
                       "reset, global timeout, client disconnect) from BreakerOps.tla (%d histories; quick: %d chosen by VERIF_SEED), "
                       "rotated over clusters with (max_requests,max_retries) in {(0,0),(2,0),(2,1),(1,1)}; books sampled after every "
                       "operation; plus %d histories of 2 requests with a cluster configuration update (AddOrUpdatePrimaryCluster / "
                       "AddOrUpdateClusterAndHost x thresholds same/up/down/off/on) at every position (quick: %s chosen by VERIF_SEED), "
                       "books and thresholds read from the cluster snapshot current after every operation"
                       % (len(cases), len(picked) - len(upicked), len(ucases), ctx.cov["update_histories"]))
    ctx.assumptions += ["HTTP/1, HTTP/2 and bolt (multiplex) pools; the `connections` resource is never incremented by any pool (limits on connections are "
                        "enforced on the pools' own counts), so only its non-negativity is checked",
                        "a sample waits up to 600 ms for the books to settle before it is taken"]
