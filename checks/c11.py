"""C11 Graceful shutdown and hot upgrade lose no requests.
   spec/server/Shutdown.tla (+Trace): listener / go-away sweep / drain loop / exit, signal enabled in every state,
   six named defects each rejected by TLC.  spec/server/Upgrade.tla (+Trace): old and new process, listener
   hand-over, connection transfer with the read buffer (thorough tier).
   binding: TLC enumerates every signal point (per connection: completed requests, phase of the current request;
   environment prompt or stalled afterwards); the driver realises each one on an in-process MOSN with HTTP/1.1,
   HTTP/2 and bolt clients, calls what SIGTERM runs at exactly that point and records driver + hook events; TLC
   validates every recorded run against ShutdownTrace.  Thorough tier: the same signal points against the real
   binary with real SIGTERM and SIGHUP (process-level traces validated against UpgradeTrace).
   spec/server/Handover.tla (+Trace): one connection at byte granularity through the hot-upgrade hand-over inside one
   process (two server instances, real TransferServer), incl. the new instance's listener lookup for every way of
   writing the listener address x address family of the client.
   checks/stage_part.py, spec/server/StageManager.tla (+ StageRules, StageManagerTrace): the stage manager's life cycle over
   histories of up to three life-cycle events (failed / successful upgrade, reload with fork failure or a silent new server,
   SIGTERM, SIGINT, repeated and overlapping), one process per history on the real pkg/stagemanager; plus the graceful stop
   after an attempt that did not come off end to end (real stage manager + real Mosn, request in flight)."""
import concurrent.futures, json, os, random, re, shutil, subprocess, tempfile, time
import vlib
import stage_part

LEVEL = "model_checking"
PROTOS = ("http1", "bolt", "http2")
HANDOVER_DEFECTS = ("BufferNotShipped", "NewDropsBuffered", "CloseFlagReset", "LostReplyAfterMove", "ReplyTwice", "ExitBeforeTransfer",
                    "ForwardedResponseConsumesRoute", "LookupOwnFamilyWildcard", "LookupLocalOnly", "PublishedBeforeComplete")
UPGRADE_DEFECTS = ("StopBeforeNewAccepts", "BufferNotShipped", "BufferShippedTwice", "ExitBeforeTransfer", "NewClosesInherited")
DEFECTS = ("PartialNotCounted", "WrittenNotCounted", "WrongGauge", "DrainBeforeClose", "CloseOnGoAway", "NoDrainTimeout")


def mismatches(txt):
    out = {}
    for m in re.finditer(r'<<\s*"MISMATCH",\s*(\d+),\s*"([^"]+)"\s*>>', txt):
        out.setdefault(int(m.group(1)), set()).add(m.group(2))
    return out


def signal_points(ctx, cfg):
    """CASE lines of Shutdown.tla: one per state in which the signal arrives x environment mode."""
    raw = os.path.join(ctx.tmp, "shutdown_cases.jsonl")
    if os.path.exists(raw):
        os.remove(raw)
    r = vlib.run_tlc(ctx, "server", "Shutdown", cfg, workers=1, cases_to=raw)
    ctx.add_tlc(r)
    seen, out = set(), []
    for c in vlib.read_jsonl(raw):
        conns = sorted((json.dumps(v, sort_keys=True) for v in c["conns"].values()), reverse=True)
        busy = any(json.loads(v)["ph"] != "idle" for v in conns)
        if c["mode"] == "hang" and not busy:
            continue        # a stalled environment with nothing in flight is the same run as a prompt one
        key = (c["mode"], tuple(conns))
        if key in seen:     # connections are interchangeable
            continue
        seen.add(key)
        out.append(dict(mode=c["mode"], conns={"c%d" % (i + 1): json.loads(v) for i, v in enumerate(conns)}))
    return out


def run_shards(ctx, binary, mode, cases, shards, extra=None, timeout=1500):
    cpath = os.path.join(ctx.tmp, "c11_%s_cases.jsonl" % mode)
    with open(cpath, "w") as fh:
        for c in cases:
            fh.write(json.dumps(c) + "\n")
    procs = []
    env = vlib.go_env()
    env.update(VERIF_SEED=str(ctx.seed), VERIF_TIER=ctx.tier)
    for s in range(shards):
        t = os.path.join(ctx.tmp, "c11_%s_trace_%d.ndjson" % (mode, s))
        r = os.path.join(ctx.tmp, "c11_%s_res_%d.jsonl" % (mode, s))
        lg = open(os.path.join(ctx.tmp, "c11_%s_drv_%d.log" % (mode, s)), "w")
        p = subprocess.Popen(["timeout", "-k", "10", str(timeout), binary, "-mode", mode, "-cases", cpath, "-trace", t,
                              "-results", r, "-shard", str(s), "-shards", str(shards)] + (extra or []),
                             stdout=lg, stderr=subprocess.STDOUT, env=env, cwd=ctx.tmp)
        procs.append((p, t, r, lg))
    traces, results = [], []
    for s, (p, t, r, lg) in enumerate(procs):
        rc = p.wait()
        lg.close()
        for again in range(2):
            if rc == 0:
                break
            # a shard that died (e.g. a port picked a moment ago was taken meanwhile) is started again: nothing is judged
            vlib.log("[driver] c11 -mode %s shard %d died rc=%s, restarting\n%s" % (mode, s, rc, vlib.tail(lg.name, 6)))
            with open(lg.name, "a") as lg2:
                rc = subprocess.run(["timeout", "-k", "10", str(timeout), binary, "-mode", mode, "-cases", cpath, "-trace", t,
                                     "-results", r, "-shard", str(s), "-shards", str(shards)] + (extra or []),
                                    stdout=lg2, stderr=subprocess.STDOUT, env=env, cwd=ctx.tmp).returncode
        if rc != 0:
            raise vlib.Inconclusive("driver c11 -mode %s shard died rc=%s\n%s" % (mode, rc, vlib.tail(lg.name, 15)))
        traces.append(t)
        results += vlib.read_jsonl(r)
    return traces, results


def check_abandoned(ctx, results, label):
    ab = [r for r in results if r.get("abandoned")]
    if ab:
        ctx.notes.append("%s: %d of %d runs abandoned before the signal (set-up failure, not judged)" % (label, len(ab), len(results)))
    if len(ab) * 10 > len(results):
        raise vlib.Inconclusive("%s: %d of %d signal points could not be set up" % (label, len(ab), len(results)))


def validate(ctx, traces, module, sigfn, label):
    allp = os.path.join(ctx.tmp, "c11_%s_all.ndjson" % label)
    with open(allp, "w") as fo:
        for t in traces:
            fo.write(open(t).read())
    evs = vlib.read_jsonl(allp)
    if not evs:
        raise vlib.Inconclusive("no events recorded (%s)" % label)
    v = vlib.validate_trace(ctx, "server", module, module + ".cfg", allp, timeout=1500)
    nruns = sum(1 for e in evs if e["ev"] == "run")
    ctx.cov["traces_validated_against_impl"] += nruns
    ctx.cov["evaluations"] += sum(1 for e in evs if e["ev"] in ("exit", "c.done", "c.connect", "drain", "quiesce", "p.exit", "c.req", "h.reply", "transfer", "transfer.new", "new", "oldexit"))
    ctx.cov["states"] += v["distinct"]
    ctx.cov["transitions"] += v["generated"]
    ctx.cov.setdefault("trace_events", {})[label] = len(evs)
    mm = mismatches(v["text"])
    if not v["accepted"] and not mm and v["matched"] is None:
        raise vlib.Inconclusive("trace validation of %s did not complete:\n%s" % (module, v["text"][-1500:]))
    run_at, cur, start = {}, None, 0
    for i, e in enumerate(evs, 1):
        if e["ev"] == "run":
            cur, start = e, i
        run_at[i] = (cur, start)
    first_end = next((i for i, e in enumerate(evs) if e["ev"] == "quiesce"), min(len(evs), 30))
    ctx.sample({label: evs[:first_end + 1]})

    def fail(line, kind):
        runev, st = run_at.get(line, (None, 0))
        end = next((j for j in range(line, len(evs) + 1) if evs[j - 1]["ev"] == "quiesce"), line)
        rt = evs[st - 1:end]
        for sig in sigfn(kind, runev or {}, rt, line - st):
            vlib.report_failure(ctx, sig, dict(line=line - st, kind=kind, case=(runev or {}).get("case"), run_trace=rt))
    # a run the driver abandoned (its set-up failed before the signal: a request did not get through in time, a process
    # did not come up) decides nothing, whatever was recorded before the `abandon` event
    abandoned = set()
    cur_start = 0
    for i, e in enumerate(evs, 1):
        if e["ev"] == "run":
            cur_start = i
        elif e["ev"] == "abandon":
            abandoned.add(cur_start)
    def in_abandoned(line):
        return run_at.get(line, (None, 0))[1] in abandoned
    for line, kinds in sorted(mm.items()):
        if in_abandoned(line):
            continue
        for k in sorted(kinds):
            fail(line, k)
    if v["matched"] is not None and v["matched"] < len(evs) and not in_abandoned(v["matched"] + 1):
        fail(v["matched"] + 1, "trace-rejected:" + evs[v["matched"]]["ev"])
    return evs


def inflight_at(rt, upto):
    """phases of the requests that are in flight (begun before the signal) and untouched since the signal, at event index upto"""
    ph, pre, stepped, sig = {}, {}, set(), False
    for e in rt[:upto]:
        ev = e["ev"]
        if ev == "signal":
            sig = True
        elif ev == "c.phase":
            ph[e["c"]] = e["ph"]
            if e["ph"] == "hdr":
                pre[e["c"]] = not sig
        elif ev == "c.done":
            ph[e["c"]] = "idle"
        elif ev == "c.step":
            stepped.add(e["c"])
    return sorted(set(p for c, p in ph.items() if p != "idle" and pre.get(c) and c not in stepped))


def sigterm_sig(kind, runev, rt, idx):
    proto, mode = runev.get("proto"), runev.get("mode")
    if kind == "exit-before-drained":
        # one signature per phase in which a request was left behind: that is the failing input class
        return ["C11:sigterm:%s:exit-before-drained:phase=%s" % (proto, p) for p in inflight_at(rt, idx)] or \
               ["C11:sigterm:%s:exit-before-drained" % proto]
    at_signal = next((i for i, e in enumerate(rt) if e["ev"] == "signal"), len(rt))
    phases = "+".join(inflight_at(rt, at_signal + 1)) or "none"
    return ["C11:sigterm:%s:%s:mode=%s:inflight=%s" % (proto, kind, mode, phases)]


def handover_sig(kind, runev, rt, idx):
    sig = "C11:handover:%s:%s:phase=%s" % (runev.get("proto"), kind, runev.get("phase"))
    if (runev.get("bind", "ip4"), runev.get("via", "ip4")) != ("ip4", "ip4"):
        # how the listener address is written / over which family the client reached it is part of the failing input class
        sig += ":listen=%s:client=%s" % (runev.get("bind"), runev.get("via"))
    return [sig]


def handover_part(ctx, binary, rnd):
    """Hot-upgrade hand-over inside one process: cases enumerated by TLC from Handover.tla, real transfer machinery."""
    ctx.add_tlc(vlib.run_tlc(ctx, "server", "Handover", "Handover.cfg", timeout=600))
    with concurrent.futures.ThreadPoolExecutor(max_workers=len(HANDOVER_DEFECTS)) as ex:
        futs = {d: ex.submit(vlib.run_tlc, ctx, "server", "Handover", "Handover_defect_%s.cfg" % d, workers=2, expect_ok=False) for d in HANDOVER_DEFECTS}
        for d, f in futs.items():
            if f.result()["ok"]:
                raise vlib.Inconclusive("Handover model does not reject defect " + d)
    raw = os.path.join(ctx.tmp, "handover_cases.jsonl")
    ctx.add_tlc(vlib.run_tlc(ctx, "server", "Handover", "Handover_cases.cfg", workers=1, cases_to=raw))
    seen, cases = set(), []
    for c in vlib.read_jsonl(raw):
        if c["inflight"] < 2:
            c["order"] = "fifo"         # the order of the answers only exists with two or more requests in flight
        if c["proto"] != "bolt" or c["inflight"] == 0 or c["resp"]:
            c["release"] = "moved"      # an answer can only wait for a socket on its way if the connection moves and a request waits
        key = json.dumps(c, sort_keys=True)
        if key not in seen:
            seen.add(key)
            cases.append(c)
    rnd.shuffle(cases)
    for i, c in enumerate(cases):
        c["id"] = i + 1
    t0 = time.time()
    traces, results = run_shards(ctx, binary, "handover", cases, 4, timeout=600)
    vlib.log("[c11] %d in-process hand-over runs in %.1fs" % (len(results), time.time() - t0))
    unreachable = sorted(set(r["unreachable"] for r in results if r.get("unreachable")))
    if unreachable:
        ctx.notes.append("hand-over: listener address / client family combinations this machine cannot produce, not driven: %s" % unreachable)
    results = [r for r in results if not r.get("unreachable")]
    if not any(c["bind"] in ("any4", "any6") for c in cases if ("%s/%s" % (c["bind"], c["via"])) not in unreachable):
        raise vlib.Inconclusive("hand-over: no wildcard listener could be driven on this machine")
    check_abandoned(ctx, results, "hand-over")
    evs = validate(ctx, traces, "HandoverTrace", handover_sig, "handover")
    for need in ("stopseen", "transfer", "transfer.new", "new"):
        if not any(e["ev"] == need for e in evs):
            raise vlib.Inconclusive("no %s event recorded: the verif hooks of the connection transfer are missing in %s" % (need, vlib.REPO))
    ctx.cov["handover_cases"] = len(cases)
    ctx.cov["handover_listener_address_x_client"] = sorted(set("%s/%s" % (c["bind"], c["via"]) for c in cases) - set(unreachable))
    ctx.cov["distinct_nontrivial"] = ctx.cov.get("distinct_nontrivial", 0) + sum(1 for c in cases if c["inflight"] or c["cut"])


def run(ctx):
    q = ctx.quick()
    rnd = random.Random(ctx.seed)
    # ---------- 1. design level
    ctx.add_tlc(vlib.run_tlc(ctx, "server", "Shutdown", "Shutdown.cfg" if q else "Shutdown_thorough.cfg", timeout=1500))
    with concurrent.futures.ThreadPoolExecutor(max_workers=6) as ex:
        futs = {d: ex.submit(vlib.run_tlc, ctx, "server", "Shutdown", "Shutdown_defect_%s.cfg" % d, workers=2, expect_ok=False) for d in DEFECTS}
        for d, f in futs.items():
            if f.result()["ok"]:
                raise vlib.Inconclusive("Shutdown model does not reject defect " + d)
    if q:
        ctx.add_tlc(vlib.run_tlc(ctx, "server", "Upgrade", "Upgrade.cfg", timeout=600))
    # ---------- 2. signal points enumerated by TLC
    points = signal_points(ctx, "Shutdown_cases.cfg" if q else "Shutdown_cases_thorough.cfg")
    cases = []
    for proto in PROTOS:
        for p in points:
            cases.append(dict(id=len(cases) + 1, proto=proto, mode=p["mode"], conns=p["conns"]))
    rnd.shuffle(cases)      # the order in which the signal points follow each other on one MOSN varies with the seed
    ctx.cov["signal_points"] = len(points)
    # ---------- 3. real code, in process
    binary = vlib.go_build("c11")
    shards = 8
    t0 = time.time()
    traces, results = run_shards(ctx, binary, "inproc", cases, shards)
    vlib.log("[c11] %d in-process trials in %.1fs" % (len(results), time.time() - t0))
    check_abandoned(ctx, results, "in-process")
    skipped = [r for r in results if r.get("skipped")]
    if skipped:
        ctx.notes.append("in-process driver did not run %d of %d trials after recording failures (%s)" % (
            len(skipped), len(cases), sorted(set(r["skipped"] for r in skipped))))
    evs = validate(ctx, traces, "ShutdownTrace", sigterm_sig, "inproc")
    for need in ("onshutdown", "lstate", "drain", "new", "clean"):
        if not any(e["ev"] == need for e in evs):
            raise vlib.Inconclusive("no %s event recorded: the verif hooks of listener / drain loop / proxy streams are missing in %s" % (need, vlib.REPO))
    ctx.cov["distinct_nontrivial"] = sum(1 for c in cases if any(v["ph"] != "idle" for v in c["conns"].values()))
    # ---------- 4. hot-upgrade hand-over, in process
    handover_part(ctx, binary, rnd)
    # ---------- 5. the stage manager: histories of several life-cycle events (failed upgrade, then SIGTERM ...), one process each
    stage_part.run(ctx, binary, validate)
    ctx.cov["rule"] = ("a case = one signal point of Shutdown.tla (2 connections x up to 2 requests x phase of the current request "
                       "in {idle,hdr,body,wait,resp}, connections interchangeable) x environment mode (prompt / stalled until exit) x "
                       "protocol (HTTP/1.1, bolt, HTTP/2), realised on a live in-process MOSN; plus one hand-over case of Handover.tla = protocol "
                       "(bolt, HTTP/1.1) x requests in flight when the old instance is told to hand over (bolt multiplexed: 0..3 written, answered by the "
                       "upstream only after the move, one at a time, in order or reversed; the first of them also while the socket is on its way "
                       "between the instances) x next request cut {no, inside fixed head / header block / "
                       "body} x response partly written x completed requests 0..1 x what follows {rest + further "
                       "request, client close} x how the listener address is written {127.0.0.1:p, 0.0.0.0:p, [::]:p, [::1]:p} x address family "
                       "the client connects over {IPv4, IPv6} where the listener takes it (6 combinations; wildcard listeners are dual stack), "
                       "realised with two server instances and the real TransferServer in one process; "
                       "non-trivial = at least one request in flight")
    ctx.cov["exhaustive"] = True
    ctx.assumptions += ["in-process tier: process exit is represented by the return of Mosn.Shutdown (the stage manager then only closes and exits); "
                        "a request is owed at that moment if it began before the signal and the environment has not moved it since",
                        "HTTP/2 phases are synchronised with PING so that 'headers sent' means received by the proxy (a HEADERS frame racing GOAWAY "
                        "is refused as retriable by protocol design and is not counted as a loss)",
                        "hand-over part: old and new instance live in one process (two server objects sharing cluster and router managers), the old "
                        "instance's life ends where the driver says; timers shortened (read timeout 100 ms, transfer timeout 200 ms)",
                        "real signals, fork-exec and listener fd passing only in the thorough tier (real binary)"]
    if q:
        return
    proc_tier(ctx, binary, points, rnd)


def build_mosn(ctx):
    """The real binary, built without the verif tag into the scratch dir (removed with it)."""
    out = os.path.join(ctx.tmp, "mosnbin", "mosn")
    os.makedirs(os.path.dirname(out), exist_ok=True)
    t0 = time.time()
    p = subprocess.run(["timeout", "1200", "go", "build", "-o", out, "./cmd/mosn/main"], cwd=vlib.REPO, env=vlib.go_env(),
                       capture_output=True, text=True)
    if p.returncode != 0:
        raise vlib.Inconclusive("go build of cmd/mosn/main failed:\n%s" % (p.stdout + p.stderr)[-3000:])
    vlib.log("[build] mosn binary in %.1fs" % (time.time() - t0))
    return out


def one(ph, done=0):
    return {"open": True, "ph": ph, "done": done}


NONE = {"open": False, "ph": "idle", "done": 0}
PH = ("idle", "hdr", "body", "wait", "resp")


def proc_cases(points, rnd):
    term, hup = [], []
    two = [p for p in points if p["mode"] == "complete" and all(v["open"] for v in p["conns"].values())
           and any(v["ph"] != "idle" for v in p["conns"].values())]
    for proto in PROTOS:
        for done in (0, 1):
            for ph in PH:
                term.append(dict(proto=proto, sig="term", mode="complete", conns={"c1": one(ph, done), "c2": NONE}))
        for ph in ("wait",):      # a stalled environment: the stop must end by its own timeout (15 s); a response stalled
            #                           that long would run into the proxy's 15 s connection write timeout instead
            term.append(dict(proto=proto, sig="term", mode="hang", conns={"c1": one(ph), "c2": NONE}))
        for p in rnd.sample(two, min(6, len(two))):
            term.append(dict(proto=proto, sig="term", mode="complete", conns=p["conns"]))
        # hot upgrade: two long-lived connections, one parked in a phase, one idle after a request
        for ph in PH:
            hup.append(dict(proto=proto, sig="hup", mode="complete", conns={"c1": one(ph, 1), "c2": one("idle", 1)}))
        for ph in ("hdr", "body", "wait"):   # resumed only after the hand-over (resp would run into the 15 s write timeout)
            hup.append(dict(proto=proto, sig="hup", mode="late", conns={"c1": one(ph, 1), "c2": one("idle", 1)}))
    # the address dimension of Handover.tla at process level: every upgrade trial has its listeners written in one of the four
    # forms and its clients connecting over one of the two families; the six combinations rotate through the trials of a
    # protocol, starting at a seed-dependent one (the new process must find the inherited listening socket and the listener
    # of every handed-over connection by address)
    for proto in PROTOS:
        k = rnd.randrange(len(ADDR_COMBOS))
        for i, c in enumerate(c for c in hup if c["proto"] == proto):
            c["bind"], c["via"] = ADDR_COMBOS[(k + i) % len(ADDR_COMBOS)]
    return term, hup


ADDR_COMBOS = (("ip4", "ip4"), ("any4", "ip4"), ("any4", "ip6"), ("any6", "ip4"), ("any6", "ip6"), ("ip6", "ip6"))


def hup_sig(kind, runev, rt, idx):
    case = runev.get("case") or {}
    ph = ((case.get("conns") or {}).get("c1") or {}).get("ph")
    sig = "C11:sighup:%s:%s:mode=%s:phase=%s" % (runev.get("proto"), kind, runev.get("mode"), ph)
    if (runev.get("bind", "ip4"), runev.get("via", "ip4")) != ("ip4", "ip4"):
        sig += ":listen=%s:client=%s" % (runev.get("bind"), runev.get("via"))
    return [sig]


def split_runs(traces, ctx):
    """the shards interleave graceful-stop and upgrade runs: one file per trace spec, whole runs only"""
    outs = {"term": os.path.join(ctx.tmp, "c11_proc_term.ndjson"), "hup": os.path.join(ctx.tmp, "c11_proc_hup.ndjson")}
    fhs = {k: open(v, "w") for k, v in outs.items()}
    for t in traces:
        cur = None
        for line in open(t):
            if not line.strip():
                continue
            e = json.loads(line)
            if e["ev"] == "run":
                cur = "hup" if e.get("sig") == "hup" else "term"
            if cur:
                fhs[cur].write(line)
    for fh in fhs.values():
        fh.close()
    return outs


def proc_tier(ctx, binary, points, rnd):
    ctx.add_tlc(vlib.run_tlc(ctx, "server", "Upgrade", "Upgrade_thorough.cfg", timeout=900))
    for d in UPGRADE_DEFECTS:
        if vlib.run_tlc(ctx, "server", "Upgrade", "Upgrade_defect_%s.cfg" % d, expect_ok=False)["ok"]:
            raise vlib.Inconclusive("Upgrade model does not reject defect " + d)
    mosn = build_mosn(ctx)
    term, hup = proc_cases(points, rnd)
    rnd.shuffle(term)
    rnd.shuffle(hup)
    shards = 14
    # the long trials (upgrades, stalled stops) first in every shard's list, spread evenly
    cases = hup + sorted(term, key=lambda c: c["mode"] != "hang")
    for i, c in enumerate(cases):
        c["id"] = i + 1
    t0 = time.time()
    traces, results = run_shards(ctx, binary, "proc", cases, shards, extra=["-bin", mosn], timeout=1100)
    vlib.log("[c11] %d process-level trials (%d SIGTERM, %d SIGHUP) in %.1fs" % (len(results), len(term), len(hup), time.time() - t0))
    shutil.rmtree(os.path.dirname(mosn), ignore_errors=True)
    check_abandoned(ctx, results, "process-level")
    files = split_runs(traces, ctx)
    validate(ctx, [files["term"]], "ShutdownTrace", sigterm_sig, "proc-sigterm")
    evs = validate(ctx, [files["hup"]], "UpgradeTrace", hup_sig, "proc-sighup")
    codes = sorted(set(e["err"] for e in evs if e["ev"] == "exit"))
    ctx.notes.append("old process after a completed hot upgrade: exit status observed %s, time to exit %s ms" % (
        codes, sorted(e["elapsed_ms"] for e in evs if e["ev"] == "exit")[::max(1, len(hup) // 4)]))
    ctx.cov["process_level"] = dict(sigterm_trials=len(term), sighup_trials=len(hup),
                                    short_lived_requests=sum(1 for e in evs if e["ev"] == "c.req" and e.get("kind") == "short"),
                                    long_lived_requests=sum(1 for e in evs if e["ev"] == "c.req" and e.get("kind") == "long"))
    ctx.cov["process_level"]["sighup_listener_address_x_client"] = sorted(set("%s/%s" % (e.get("bind"), e.get("via")) for e in evs if e["ev"] == "run"))
    ctx.assumptions += ["process tier: graceful_timeout 3 s; 'late' upgrade runs resume the parked request 33 s after SIGHUP (after the transfer "
                        "window, before the old process leaves); the old process's exit status after an upgrade is recorded, not judged"]
