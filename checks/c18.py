"""C18 HTTP/2 wire compatibility (HPACK, framing) and flow control.
   spec/wire/Hpack.tla     (+Trace)  compression context of one encoder and one decoder, table-size signalling
   spec/wire/H2Frames.tla  (+Trace)  frame reader over a buffer that fills in pieces, HEADERS + n CONTINUATION units
   spec/wire/H2Flow.tla    (+Trace)  sender of DATA under stream/connection windows, SETTINGS changes, WINDOW_UPDATEs
   binding: B1 differential (MOSN's hpack <-> golang.org/x/net's, MOSN's MFramer.ReadFrame vs x/net's Framer, on every
   history / unit sequence TLC enumerates) and B2 (a raw-frame peer built on x/net's Framer follows the TLC-enumerated
   window schedules against a real in-process MOSN, as client of its HTTP/2 server and as upstream of its HTTP/2
   client; TLC validates what the peer recorded)."""
import concurrent.futures as cf
import json, os, random, re
import vlib

LEVEL = "model_checking"

HPACK_DEFECTS = ["IgnoreSetting", "NoSizeUpdate", "OnlyFinalUpdate", "NoEvict", "MutedNoInsert"]
FRAME_DEFECTS = ["NoAdvance", "DrainFirstOnly", "PartialBlock"]
FLOW_DEFECTS = ["NoConnCharge", "IgnoreFrameSize", "NoSettingsAdjust", "LostWakeup", "FrameSizeAtBodyStart"]

_MM = re.compile(r'"MISMATCH",\s*(\d+),\s*"([^"]+)"')


def mismatches(txt):
    out = {}
    for m in _MM.finditer(txt):
        out.setdefault(int(m.group(1)), set()).add(m.group(2))
    return out


def frames_class(ev):
    cs = [u["conts"] for u in ev.get("units", []) if u["t"] == "HEADERS"]
    return "no-headers" if not cs else "headers+%d-continuation" % max(cs)


def run(ctx):
    q = ctx.quick()
    pool = cf.ThreadPoolExecutor(max_workers=8)
    T = ctx.tmp

    # ---------- 1. design level: the intended design satisfies the properties, every named defect is rejected
    hp_cases, fr_cases, fl_cases = (os.path.join(T, n) for n in ("hp_cases.jsonl", "fr_cases.jsonl", "fl_cases.jsonl"))
    hl_cases = os.path.join(T, "hp_limit_cases.jsonl")
    sfx = ".cfg" if q else "_thorough.cfg"
    # Hpack_limit: the same module with a receiver in front of the decoder whose header-list limit the histories cross
    # (blocks that are truncated / refused, decoded to their end all the same, and referred to by later blocks)
    jobs = [pool.submit(vlib.run_tlc, ctx, "wire", "H2Flow", "H2Flow" + sfx, workers=1, cases_to=fl_cases, timeout=1700),
            pool.submit(vlib.run_tlc, ctx, "wire", "Hpack", "Hpack" + sfx, workers=1, cases_to=hp_cases, timeout=1200),
            pool.submit(vlib.run_tlc, ctx, "wire", "Hpack", "Hpack_limit" + sfx, workers=1, cases_to=hl_cases, timeout=1200),
            pool.submit(vlib.run_tlc, ctx, "wire", "H2Frames", "H2Frames" + sfx, workers=1, cases_to=fr_cases, timeout=1200)]
    rej = []
    for mod, ds in (("Hpack", HPACK_DEFECTS), ("H2Frames", FRAME_DEFECTS), ("H2Flow", FLOW_DEFECTS)):
        for d in ds:
            rej.append((mod, d, pool.submit(vlib.run_tlc, ctx, "wire", mod, "%s_defect_%s.cfg" % (mod, d), workers=2,
                                            timeout=600, expect_ok=False)))
    build = pool.submit(vlib.go_build, "c18")
    for j in jobs:
        ctx.add_tlc(j.result())
    for mod, d, j in rej:
        r = j.result()
        if r["ok"] or not r["violated"]:
            raise vlib.Inconclusive("%s model does not reject the defect %s: invariants vacuous (%s)" % (mod, d, r["errors"][:2]))
    binary = build.result()

    # ---------- 2. real code: replay / record (the histories with a receiver are replayed and validated next to the others)
    hp_trace, hl_trace, fr_trace = os.path.join(T, "hp.ndjson"), os.path.join(T, "hl.ndjson"), os.path.join(T, "fr.ndjson")
    d_hp = pool.submit(vlib.run_driver, ctx, binary, ["-mode", "hpack", "-cases", hp_cases, "-trace", hp_trace], 900)
    d_hl = pool.submit(vlib.run_driver, ctx, binary, ["-mode", "hpack", "-cases", hl_cases, "-trace", hl_trace], 900)
    d_fr = pool.submit(vlib.run_driver, ctx, binary, ["-mode", "frames", "-cases", fr_cases, "-trace", fr_trace], 1500)
    d_hp.result()
    v_hp = pool.submit(vlib.validate_trace, ctx, "wire", "HpackTrace", "HpackTrace.cfg", hp_trace, 1500)
    d_hl.result()
    v_hl = pool.submit(vlib.validate_trace, ctx, "wire", "HpackTrace", "HpackTrace.cfg", hl_trace, 1500)
    d_fr.result()
    v_fr = pool.submit(vlib.validate_trace, ctx, "wire", "H2FramesTrace", "H2FramesTrace.cfg", fr_trace, 1500)

    def settle(part, v, evs):
        ctx.cov["states"] += v["distinct"]
        ctx.cov["transitions"] += v["generated"]
        mm = mismatches(v["text"])
        if not v["accepted"] and not mm and v["matched"] is None:
            raise vlib.Inconclusive("trace validation of %s did not complete:\n%s" % (part, v["text"][-1500:]))
        return mm

    # hpack: the bare decoders, then the decoders behind a receiver with a header-list limit
    for part, trace, vjob in (("hpack", hp_trace, v_hp), ("hpack_limit", hl_trace, v_hl)):
        judge_hpack(ctx, settle, part, trace, vjob.result())

    # frames
    evs = vlib.read_jsonl(fr_trace)
    mm = settle("frames", v_fr.result(), evs)
    nrep = sum(2 + len(e["cuts"]) + len(e["cerr"]) for e in evs)
    ctx.cov["traces_validated_against_impl"] += len(evs)
    ctx.cov["evaluations"] += nrep
    ctx.cov["parts"]["frames"] = dict(sequences=len(evs), reads=nrep)
    if evs:
        e0 = dict(evs[0]); e0["cuts"] = e0["cuts"][:3]
        ctx.sample({"part": "frames", "trace_head": [e0]})
    for line, kinds in sorted(mm.items()):
        if "reference-differs-from-spec" in kinds:
            raise vlib.Inconclusive("x/net's Framer disagrees with H2Frames on %s: specification or driver error"
                                    % json.dumps(evs[line - 1])[:600])
        for kind in sorted(kinds):
            ev = dict(evs[line - 1]); ev["cuts"] = ev["cuts"][:4]
            vlib.report_failure(ctx, "C18:frames:%s:%s" % (kind, frames_class(ev)), dict(line=line, event=ev))
    hard_reject(ctx, "frames", v_fr.result(), evs)

    # flow: a VERIF_SEED sample of the enumerated schedules per shard (direction x unit size x body mode).
    # A frame reader that never returns would hang the in-process MOSN (and grow without bound): the flow part needs
    # a reader that terminates, so it is skipped when the frames part has just shown that it does not.
    if any(v["signature"].startswith("C18:frames:reader-never-returns") for v in ctx.violations + ctx.known_hits):
        ctx.notes.append("flow part skipped: MFramer.ReadFrame does not terminate on some valid input (see the frames verdict)")
        ctx.cov["distinct_nontrivial"] = ctx.cov["evaluations"]
        finish_cov(ctx, q, 0, 0)
        return
    rng = random.Random(ctx.seed)
    allflow = [l for l in open(fl_cases) if l.strip()]
    per = 2000 if q else 12000
    shards = []
    variants = [("srv", 1, False), ("cli", 1, False), ("srv", 8192, False), ("cli", 8192, False),
                ("srv", 7, True), ("cli", 7, True), ("srv", 8192, True), ("cli", 8192, True)]
    for i, (d, scale, us) in enumerate(variants):
        pick = rng.sample(allflow, min(per, len(allflow)))
        cp = os.path.join(T, "fl_cases_%d.jsonl" % i)
        with open(cp, "w") as fh:
            fh.writelines(pick)
        tp = os.path.join(T, "fl_%d.ndjson" % i)
        sd = os.path.join(T, "mosn-%d" % i)
        os.makedirs(sd, exist_ok=True)
        args = ["-mode", "flow", "-dir", d, "-scale", str(scale), "-cases", cp, "-trace", tp, "-tmp", sd]
        if us:
            args.append("-usestream")
        shards.append(dict(dir=d, scale=scale, usestream=us, trace=tp, ncases=len(pick),
                           job=pool.submit(vlib.run_driver, ctx, binary, args, 1500)))
    died = []
    for s in shards:
        try:
            s["job"].result()
        except vlib.Inconclusive as e:
            # what the peer recorded before the driver gave up still counts; without any evidence the run is inconclusive
            s["died"] = str(e)[:600]
            died.append(s)
        sanitize(s["trace"])
        s["val"] = pool.submit(vlib.validate_trace, ctx, "wire", "H2FlowTrace", "H2FlowTrace.cfg", s["trace"], 1500) \
            if os.path.exists(s["trace"]) and os.path.getsize(s["trace"]) > 0 else None

    # flow
    ncase = nflow = 0
    busy = []
    for s in shards:
        if s["val"] is None:
            continue
        evs = vlib.read_jsonl(s["trace"])
        v = s["val"].result()
        mm = settle("flow", v, evs)
        nq = sum(1 for e in evs if e["ev"] == "quiesce")
        nd = sum(1 for e in evs if e["ev"] in ("data", "sync", "hdr", "end", "quiesce"))
        ncase += nq
        nflow += nd
        tag = "%s/unit=%d%s" % (s["dir"], s["scale"], "/stream" if s["usestream"] else "")
        ctx.cov["parts"].setdefault("flow", {})[tag] = dict(cases_completed=nq, cases_given=s["ncases"], events=len(evs))
        if s is shards[0]:
            ctx.sample({"part": "flow", "variant": tag, "trace_head": evs[:12]})
        for line, kinds in sorted(mm.items()):
            ev = evs[line - 1]
            for kind in sorted(kinds):
                if kind == "harness-settings-while-sender-busy":
                    busy.append("%s line %d: %s" % (tag, line, json.dumps(evs[max(0, line - 10):line])[:1500]))
                    continue
                extra = ""
                if kind == "header-block-rejected":
                    extra = ":" + str(ev.get("why"))
                if kind == "peer-saw-error":
                    extra = ":" + re.sub(r"[0-9]+$", "N", str(ev.get("what")))
                vlib.report_failure(ctx, "C18:flow:%s:%s%s" % (s["dir"], kind, extra),
                                    dict(variant=tag, line=line, event=ev, context=evs[max(0, line - 14):line + 2]))
        hard_reject(ctx, "flow:" + s["dir"], v, evs)
        if nq == 0 and not mm and not s.get("died"):
            raise vlib.Inconclusive("flow shard %s completed no case" % tag)
    if busy and not ctx.violations:
        raise vlib.Inconclusive("the peer changed SETTINGS while the sender was busy (driver error): %s" % busy[0])
    if died and not ctx.violations:
        raise vlib.Inconclusive("flow driver died: %s" % died[0]["died"])
    for s in died:
        ctx.notes.append("flow driver gave up early (%s/unit=%d): %s" % (s["dir"], s["scale"], s["died"][:200]))
    ctx.cov["traces_validated_against_impl"] += ncase
    ctx.cov["evaluations"] += nflow
    ctx.cov["distinct_nontrivial"] = ctx.cov["evaluations"]
    finish_cov(ctx, q, per, len(allflow))


def judge_hpack(ctx, settle, part, trace, v):
    """One recorded HPACK trace (case/set/blk events) against HpackTrace: mismatches, blame, verdicts."""
    evs = vlib.read_jsonl(trace)
    mm = settle(part, v, evs)
    nblk = sum(1 for e in evs if e["ev"] == "blk")
    ctx.cov["traces_validated_against_impl"] += sum(1 for e in evs if e["ev"] == "case")
    ctx.cov["evaluations"] += nblk
    ctx.cov.setdefault("parts", {})[part] = dict(
        histories=sum(1 for e in evs if e["ev"] == "case") // 2, blocks=nblk,
        histories_with_header_list_limit=sum(1 for e in evs if e["ev"] == "case" and e["limit"] < 1000000) // 2,
        blocks_by_receiver_verdict={k: sum(1 for e in evs if e["ev"] == "blk" and e["verdict"] == k)
                                    for k in ("ok", "truncated", "malformed")})
    ctx.sample({"part": part, "trace_head": evs[:3]})
    dirs, cur = {}, None
    for i, e in enumerate(evs, 1):
        if e["ev"] == "case":
            cur = e["dir"]
        dirs[i] = cur
    if any("wire-unreadable" in k for k in mm.values()):
        raise vlib.Inconclusive("the driver's own HPACK reader could not read a block: %s" % sorted(mm.items())[:2])
    # Blame: in m2x the decoder is the reference, in x2m the encoder is.  A block from MOSN's encoder that the
    # specification's decoder accepts (valid for the shared table, means the input list, MOSN's table as specified)
    # but x/net's decoder does not, is a deviation of the reference, and so is a wire from x/net's encoder that the
    # specification rejects: both are recorded in the evidence, neither is a verdict about MOSN.
    WIRE = {"wire-invalid-for-the-shared-table", "wire-means-another-list", "sensitive-field-indexed",
            "table-larger-than-announced-size", "smallest-size-not-signalled"}
    DEC = {"decoder-rejected-block", "decoded-list-differs"}
    refdev = {}
    for line, kinds in sorted(mm.items()):
        d = dirs.get(line)
        if d == "m2x" and "block-verdict-differs" in kinds:
            # in m2x the receiver in front of x/net's decoder is the driver's transcription of the specification's
            raise vlib.Inconclusive("the driver's reference receiver disagrees with Hpack.tla RcvOne/Verdict: %s"
                                    % json.dumps(evs[line - 1])[:600])
        if d == "m2x" and kinds <= DEC:
            refdev.setdefault("x/net decoder rejects a block the specification accepts", []).append(line)
            continue
        if d == "x2m" and kinds & WIRE:
            refdev.setdefault("x/net encoder emits a block the specification rejects", []).append(line)
            continue
        for kind in sorted(kinds):
            vlib.report_failure(ctx, "C18:hpack:%s:%s" % (d, kind),
                                dict(line=line, event=evs[line - 1], context=evs[max(0, line - 4):line]))
    for what, lines in refdev.items():
        ctx.notes.append("reference deviation (not a verdict): %s, %d blocks, e.g. %s" % (
            what, len(lines), json.dumps(evs[lines[0] - 1])[:700]))
    ctx.cov["parts"][part]["reference_deviations"] = {k: len(v) for k, v in refdev.items()}
    hard_reject(ctx, "hpack", v, evs)


def finish_cov(ctx, q, per, nall):
    ctx.cov["exhaustive"] = False
    ctx.cov["rule"] = ("hpack: every history of <=%d field/end-of-block operations and <=2 (thorough 3) SETTINGS changes (field from 8 shapes incl. static full/name match, repeated name, "
                       "sensitive, long huffman value | SETTINGS_HEADER_TABLE_SIZE in {0,36,73,4096}: exact fits of one and two entries | end of block), both "
                       "directions MOSN<->x/net, one evaluation per header block (exhaustive); hpack behind a receiver: every history of <=%d "
                       "operations (5 field shapes incl. a pseudo header and a sensitive field, <=1 SETTINGS change to 73) x header-list limit in "
                       "{50,73,4096} (second field crosses / exact fit of two / never crossed: malformed lists only), blocks as HEADERS+CONTINUATION "
                       "written by x/net's Framer and read by MFramer.ReadFrame with MaxHeaderListSize = limit (x/net side: its decoder behind the "
                       "specification's receiver), verdict ok/truncated/stream error, delivered list and MOSN's table judged after every block "
                       "(exhaustive); frames: every sequence of <=%d units "
                       "(HEADERS x padding x priority x 0..3 (thorough 0..4) CONTINUATION, DATA x padding x length, SETTINGS, WINDOW_UPDATE, PING, "
                       "RST_STREAM, PRIORITY, GOAWAY) written by x/net and read by MFramer whole, cut at every byte offset, and "
                       "byte-wise (exhaustive; one evaluation per read-back); flow: per variant (direction x unit 1|7|8192 bytes x "
                       "buffered|streamed body) a VERIF_SEED sample of %d of the %d schedules TLC enumerated (2 streams, bodies, "
                       "initial windows, connection window, <=%d peer operations WU/WUconn/SETTINGS), one evaluation per DATA frame / "
                       "sync point / header block / end of case" % (4 if q else 5, 5 if q else 6, 2, per, nall, 3 if q else 4))
    ctx.assumptions += ["the peer changes SETTINGS only while the sender is quiet (a DATA frame taken under the old value may "
                        "legitimately follow the acknowledgement otherwise); WINDOW_UPDATEs arrive at any time",
                        "clear-text HTTP/2 with prior knowledge on both sides of MOSN; x/net v0.23.0 is the reference peer",
                        "MOSN never sends frames larger than 16384 bytes, so a larger SETTINGS_MAX_FRAME_SIZE is never binding",
                        "a sender that has not moved %d s after the window opened is judged stalled" % 25,
                        "Huffman coding is covered through the round trips only",
                        "header-list limits are larger than every single string of the histories (MOSN also uses the limit as the "
                        "decoder's maximum string length, beyond which the connection ends); the HEADERS frame of a limited block "
                        "carries at least one byte of it"]



def sanitize(path):
    """A driver that was killed may leave a torn last line: keep the complete events only."""
    if not os.path.exists(path):
        return
    good = []
    with open(path, errors="replace") as fh:
        for line in fh:
            try:
                json.loads(line)
            except Exception:
                break
            good.append(line if line.endswith("\n") else line + "\n")
    with open(path, "w") as fh:
        fh.writelines(good)


def hard_reject(ctx, part, v, evs):
    """A step the trace spec cannot take at all (matched prefix shorter than the trace)."""
    if v["matched"] is not None and v["matched"] < len(evs):
        line = v["matched"] + 1
        vlib.report_failure(ctx, "C18:%s:trace-rejected:%s" % (part, evs[line - 1]["ev"]),
                            dict(line=line, event=evs[line - 1], context=evs[max(0, line - 8):line]))
