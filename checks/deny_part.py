"""The stream filters mosn ships that can deny a request - ipaccess, payloadlimit, faultinject - as functions of
<configuration, request>, and the C14 contract on top of their verdict (spec/lifecycle/DenyFilters.tla +
DenyFiltersTrace.tla), a part of C14.

1. TLC checks the design: for every filter the implementation-shaped scan (ipaccess: walk over the rule list, first
   match decides; payloadlimit: route configuration replaces the listener's, body longer than the limit; faultinject:
   route configuration, upstream cluster, header matchers, delay, abort) equals the reference on the whole bounded
   universe, and the chain contract holds (denied => nothing forwarded, no later filter sees the request, one reply with
   the filter's status; passed => every filter once, forwarded unchanged exactly once).  Ten named deviations must be
   rejected, each by its own cfg.
2. The same run prints every <filter configuration, request, chain layout> case; harness/cmd/c14 -mode deny runs each one
   through an in-process MOSN whose listener carries the REAL filter configured from the case (set through the stream
   filter manager, the path a listener update takes) with recording filters around it as the layout says.
3. TLC validates every recorded case against DenyFiltersTrace (the same Ref / Exec operators as the model)."""
import collections
import concurrent.futures as cf
import json, os, re
import vlib

FAM = "lifecycle"
DEFECTS = {"DenyOverrides": "ScanIsReference", "DefaultActionIgnored": "ScanIsReference", "HeaderTrustedWhenNotConfigured": "ScanIsReference",
           "ExactRuleComparesText": "ScanIsReference", "LimitOffByOne": "ScanIsReference", "RouteLimitIgnored": "ScanIsReference",
           "AbortPercentIgnored": "ScanIsReference", "UpstreamMatchIgnored": "ScanIsReference", "DelaySkipsAbort": "ScanIsReference",
           "DenyStillForwards": "DeniedIsNeverForwarded"}
MM = re.compile(r'<<\s*"MISMATCH",\s*(\d+),\s*"([^"]+)"\s*>>')
LEGEND = {"nets": {"outer": "10.1.0.0/16", "inner": "10.1.2.0/24", "host": "10.1.2.3", "lo": "127.0.0.1", "v6host": "2001:db8::1"},
          "addresses": {"hin": "10.1.2.3", "iin": "10.1.2.9", "oin": "10.1.9.9", "out": "192.168.0.1", "lo": "127.0.0.1", "v6": "2001:db8::1",
                        "v6/alt": "2001:0db8:0:0:0:0:0:1", "hin/port": "10.1.2.3:5555", "garbage": "not-an-address", "-": "(no header: connection 127.0.0.1)"},
          "address header": "x-real-ip", "payloadlimit": "listener limit gmax status 413; route rN: limit N status 499",
          "faultinject": "abort status 555 (route override: 556), fixed_delay 40ms, header matcher x-user=alice"}


def run(ctx, pid="C14"):
    q = ctx.quick()
    raw = os.path.join(ctx.tmp, "deny_cases.jsonl")
    pool = cf.ThreadPoolExecutor(max_workers=6)
    bfut = pool.submit(vlib.go_build, "c14")
    dfut = {d: pool.submit(vlib.run_tlc, ctx, FAM, "DenyFilters", "DenyFilters_defect_%s.cfg" % d, workers=1, timeout=600, expect_ok=False)
            for d in DEFECTS}
    # 1 + 2: the design on the whole universe; the same run prints the cases
    r = vlib.run_tlc(ctx, FAM, "DenyFilters", "DenyFilters.cfg" if q else "DenyFilters_thorough.cfg", workers=max(2, vlib.NCPU // 2),
                     cases_to=raw, timeout=1500)
    ctx.add_tlc(r)
    lines = sorted(set(open(raw).read().splitlines()))
    if len(lines) < 20000:
        raise vlib.Inconclusive("DenyFilters enumerated only %d cases" % len(lines))
    cases = [json.loads(l) for l in lines]
    by_filter = collections.Counter(c["f"] for c in cases)
    binary = bfut.result()
    for d, f in dfut.items():
        rr = f.result()
        ctx.add_tlc(rr)
        if rr["ok"] or rr["violated"] != DEFECTS[d]:
            raise vlib.Inconclusive("DenyFilters does not reject defect %s by %s (got %s)" % (d, DEFECTS[d], rr["violated"]))
    pool.shutdown()

    # every case through the real filters: `shards` MOSN processes x 8 listeners each
    casef = os.path.join(ctx.tmp, "deny_all.jsonl")
    with open(casef, "w") as fo:
        fo.write("\n".join(lines) + "\n")
    shards = 4 if q else 8
    jobs = []
    for s in range(shards):
        t = os.path.join(ctx.tmp, "deny-%d.ndjson" % s)
        jobs.append((t, t + ".wire", ["-mode", "deny", "-cases", casef, "-trace", t, "-results", t + ".wire", "-shard", str(s), "-shards", str(shards)]))
    with cf.ThreadPoolExecutor(max_workers=shards) as ex:
        for f in [ex.submit(vlib.run_driver, ctx, binary, j[2], 1500) for j in jobs]:
            f.result()

    def validate(j):
        return vlib.validate_trace(ctx, FAM, "DenyFiltersTrace", "DenyFiltersTrace.cfg", j[0], timeout=1200)
    with cf.ThreadPoolExecutor(max_workers=shards) as ex:
        results = list(ex.map(validate, jobs))

    ncases = nskip = 0
    outcomes = collections.Counter()
    for j, v in zip(jobs, results):
        evs = vlib.read_jsonl(j[0])
        wire = vlib.read_jsonl(j[1])
        ctx.cov["states"] += v["distinct"]; ctx.cov["transitions"] += v["generated"]
        mm = {}
        for m in MM.finditer(v["text"]):
            mm.setdefault(int(m.group(1)), set()).add(m.group(2))
        if not v["accepted"] and not mm and v["matched"] is None:
            raise vlib.Inconclusive("DenyFiltersTrace validation did not complete:\n%s" % v["text"][-1500:])
        for e in evs:
            if e["ev"] == "case":
                ncases += 1
                o = e["obs"]
                outcomes["%s:%s" % (e["f"], o["status"] if o["kind"] == "response" else o["kind"])] += 1
            else:
                nskip += 1
        if v["matched"] is not None and v["matched"] < len(evs):
            mm.setdefault(v["matched"] + 1, set()).add("trace-rejected")
        for line, kinds in sorted(mm.items()):
            e = evs[line - 1]
            for k in sorted(kinds):
                sig = "%s:deny:%s:%s" % (pid, e.get("f", "-"), k)
                vlib.report_failure(ctx, sig, dict(kind=k, filter=e.get("f"), configuration=e.get("cfg"), request=e.get("req"), layout=e.get("layout"),
                                                  observed=e.get("obs"), on_the_wire=wire[line - 1] if line - 1 < len(wire) else None,
                                                  legend=LEGEND, seed=ctx.seed))
    if ncases + nskip != len(cases):
        raise vlib.Inconclusive("deny driver recorded %d of %d cases" % (ncases + nskip, len(cases)))
    if nskip * 20 > len(cases):
        raise vlib.Inconclusive("%d of %d deny cases were disturbed by foreign traffic on the listeners" % (nskip, len(cases)))
    ctx.cov["deny_filters"] = dict(cases=ncases, skipped=nskip, universe=len(cases), by_filter=dict(by_filter), replies=dict(outcomes),
                                   layouts=["solo", "front", "behind", "between"], defects_rejected=sorted(DEFECTS))
    ctx.cov["traces_validated_against_impl"] += ncases
    ctx.cov["evaluations"] += ncases
    ctx.assumptions += [
        "deny part: HTTP/1 requests, one at a time per listener (8 listeners x %d MOSN processes); percentages 0 and 100 only; a reply counts "
        "as delayed when it took >= fixed_delay (40 ms) twice in a row; 'never forwarded' is read off the upstreams' arrival log at the end of "
        "the whole run" % shards,
        "observed, not judged: v2.StreamPayloadLimit spells the limit's JSON key 'max_entity_size ' (trailing blank; parser_test.go pins it), a "
        "payload_limit configured with the natural spelling only has no limit; the driver writes both spellings",
        "observed, not judged: ipaccess gives a request whose address cannot be parsed the default action (stream_filter_test.go), so default "
        "allow + 'deny 0.0.0.0/0' passes a request with a garbage value in the trusted header"]
    ctx.sample("deny filters: %d cases (%s) through the real filters, replies %s" % (ncases, dict(by_filter), dict(outcomes)))
    vlib.log("[deny] %d cases validated (%d skipped), replies %s" % (ncases, nskip, dict(outcomes)))
