"""C12 Runtime updates are coherent and reproducible from the dumped configuration.
   spec/config/ConfigStore.tla: live objects (route tables, clusters + host sets, listeners) and the stored
   (effective) configuration, one action per mutator of routers_manager / cluster_manager / xDS endpoint update /
   listener adapter; invariants Coherent (live == rebuilt from stored), LastUpdateWins (incl. the attributes
   weight/metadata of a host address named again), RemovedGone, EndpointsUnion, ErrorsChangeNothing, FrameCondition; eight defect switches that TLC must reject.
   The storage mode of the dump is part of the enumerated space (cMode / rMode: inline, or one file per cluster in
   the clusters_configs directory / per virtual host in a router_configs directory, with the stale-file sweep;
   names with a path separator and names that are prefixes of others); cDir / rDir model the directories and
   defect switch SweepUsesRawName must be rejected.
   B1: every operation history enumerated by TLC is replayed into the real managers; after every operation the
       effective configuration is dumped (transferConfig), parsed again and fresh objects are built from it; live
       and fresh answers (MatchRoute on probe requests, host sets, ChooseHost support, listener variant) are
       recorded, at the end of a history the managers are torn down and re-created from the dump.  TLC validates
       the trace against ConfigStoreTrace (spec vs live, spec vs dump, live vs dump).
   B2: spec/config/ConfigSwap.tla (publication vs concurrent lookups, two defect switches) and real lookups
       concurrent with real updates, validated by ConfigSwapTrace with call/return windows."""
import json, os, random, re
from concurrent.futures import ThreadPoolExecutor
import vlib

LEVEL = "model_checking"
FAM = "config"
DEFECT_CFGS = ["ConfigStore_defect%d.cfg" % i for i in range(1, 12)]
SWAP_DEFECT_CFGS = ["ConfigSwap_defect1.cfg", "ConfigSwap_defect2.cfg"]
API_OPS = {"routers", "addroute", "rmroutes", "clusterhosts", "listener"}   # operations the admin debug API offers


def mismatches(txt):
    out = {}
    for m in re.finditer(r'<<\s*"MISMATCH",\s*(\d+),\s*"([^"]+)"\s*>>', txt):
        out.setdefault(int(m.group(1)), set()).add(m.group(2))
    return out


def gen_cases(ctx, cfg, cap, rng):
    """Model-check cfg and collect its histories; returns (tlc result, list of case lines, sampled?)."""
    raw = os.path.join(ctx.tmp, "raw_" + cfg + ".jsonl")
    r = vlib.run_tlc(ctx, FAM, "ConfigStore", cfg, workers=1, cases_to=raw, timeout=1500)
    lines = sorted(set(open(raw).read().splitlines()))
    os.remove(raw)
    sampled = False
    if cap is not None and len(lines) > cap:
        lines = rng.sample(lines, cap)
        sampled = True
    return r, lines, sampled


def chunks(lines, n):
    for i in range(0, len(lines), n):
        yield lines[i:i + n]


def run(ctx):
    q = ctx.quick()
    rng = random.Random(ctx.seed)
    # (cfg, cap on the number of histories replayed; None = all)
    if q:
        plan = [("ConfigStore_r.cfg", 5000), ("ConfigStore_c.cfg", 6000), ("ConfigStore_ca.cfg", 4500), ("ConfigStore_cc.cfg", 3000),
                ("ConfigStore_mix.cfg", 4000),
                # storage of the dump: clusters_configs / router_configs directories, names with '/' and prefixes
                ("ConfigStore_cs.cfg", 4000), ("ConfigStore_rs.cfg", None), ("ConfigStore_ms.cfg", 2500)]
        api_cap, rounds, lookers = 1500, 300, 6
    else:
        plan = [("ConfigStore_r.cfg", None), ("ConfigStore_c.cfg", None), ("ConfigStore_ca.cfg", None), ("ConfigStore_cc.cfg", None),
                ("ConfigStore_mix.cfg", None), ("ConfigStore_ca4.cfg", 40000),
                ("ConfigStore_cs.cfg", None), ("ConfigStore_rs.cfg", None), ("ConfigStore_ms.cfg", None),
                ("ConfigStore_cs4.cfg", 30000), ("ConfigStore_rs4.cfg", None),
                ("ConfigStore_r4.cfg", None), ("ConfigStore_r5.cfg", 30000), ("ConfigStore_c4.cfg", 40000),
                ("ConfigStore_cc4.cfg", 30000), ("ConfigStore_mix5.cfg", 40000)]
        api_cap, rounds, lookers = 20000, 3000, 8
    par = 4 if q else 6

    # ---- 1. model checking: the design, the defect switches, case generation (independent TLC runs in parallel)
    rngs = {cfg: random.Random("%s/%s" % (ctx.seed, cfg)) for cfg, _ in plan}
    with ThreadPoolExecutor(max_workers=par) as ex:
        f_cases = [ex.submit(gen_cases, ctx, cfg, cap, rngs[cfg]) for cfg, cap in plan]
        f_swap = ex.submit(vlib.run_tlc, ctx, FAM, "ConfigSwap", "ConfigSwap.cfg", workers=2)
        f_def = [(d, ex.submit(vlib.run_tlc, ctx, FAM, "ConfigStore", d, workers=2, expect_ok=False)) for d in DEFECT_CFGS]
        f_def += [(d, ex.submit(vlib.run_tlc, ctx, FAM, "ConfigSwap", d, workers=2, expect_ok=False)) for d in SWAP_DEFECT_CFGS]
        gen = [f.result() for f in f_cases]
        ctx.add_tlc(f_swap.result())
        for d, f in f_def:
            r = f.result()
            if r["ok"] or not r["violated"]:
                raise vlib.Inconclusive("model does not reject %s (ok=%s violated=%s)" % (d, r["ok"], r["violated"]))
    sampled = False
    parts = []          # (part name, cases path, via)
    nhist = 0
    mixlines = []
    for (cfg, cap), (r, lines, smp) in zip(plan, gen):
        ctx.add_tlc(r)
        sampled = sampled or smp
        nhist += len(lines)
        if "mix" in cfg or "_ca" in cfg:     # the families whose operations the admin debug API offers
            mixlines += lines
        name = cfg[len("ConfigStore_"):-len(".cfg")]
        for k, ch in enumerate(chunks(lines, 12000)):
            p = os.path.join(ctx.tmp, "cases_%s_%d.jsonl" % (name, k))
            open(p, "w").write("\n".join(ch) + "\n")
            parts.append(("hist", "%s.%d" % (name, k), p, "direct"))
    # the same histories through the admin debug API handlers (update_config / update_route) where one exists
    api_lines = mixlines if len(mixlines) <= api_cap else rng.sample(mixlines, api_cap)
    for k, ch in enumerate(chunks(api_lines, 12000)):
        p = os.path.join(ctx.tmp, "cases_api_%d.jsonl" % k)
        open(p, "w").write("\n".join(ch) + "\n")
        parts.append(("api", "api.%d" % k, p, "api"))
    nhist += len(api_lines)

    # ---- 2. real executions
    binary = vlib.go_build("c12", tags="verif,mosn_debug")
    jobs = []           # (kind, name, module, trace path)
    for kind, name, cases, via in parts:
        t = os.path.join(ctx.tmp, "trace_%s.ndjson" % name)
        vlib.run_driver(ctx, binary, ["-mode", "hist", "-cases", cases, "-trace", t, "-via", via], timeout=1800)
        jobs.append((kind, name, "ConfigStoreTrace", t))
    st = os.path.join(ctx.tmp, "trace_swap.ndjson")
    vlib.run_driver(ctx, binary, ["-mode", "swap", "-trace", st, "-rounds", str(rounds), "-lookers", str(lookers)], timeout=1800)
    jobs.append(("swap", "swap", "ConfigSwapTrace", st))

    # ---- 3. trace validation by TLC (parallel, one TLC per trace chunk)
    with ThreadPoolExecutor(max_workers=par) as ex:
        futs = [ex.submit(vlib.validate_trace, ctx, FAM, mod, mod + ".cfg", t, 2400) for _, _, mod, t in jobs]
        results = [f.result() for f in futs]

    ntr = nev = 0
    for (kind, name, mod, t), v in zip(jobs, results):
        evs = vlib.read_jsonl(t)
        mm = mismatches(v["text"])
        if not v["accepted"] and not mm and v["matched"] is None:
            raise vlib.Inconclusive("trace validation of %s (%s) did not complete:\n%s" % (mod, name, v["text"][-1500:]))
        ctx.cov["states"] += v["distinct"]; ctx.cov["transitions"] += v["generated"]
        ctx.cov.setdefault("trace_events", {})[name] = len(evs)
        ntr += sum(1 for e in evs if e["ev"] == "new")
        nev += sum(1 for e in evs if e["ev"] in ("obs", "restart", "lend"))
        if len(ctx.cov["samples"]) < 3 or kind == "swap":
            ctx.sample({"part": name, "trace_head": evs[:5] if kind != "swap" else evs[:8]}, cap=8)
        # position -> (start of its history / scenario, last operation)
        start = 0; lastop = None; scn = None
        ctxt = {}
        store = {}          # start line of a history -> (cluster storage mode, router storage mode)
        for i, e in enumerate(evs, 1):
            if e["ev"] == "new":
                start = i; lastop = None; scn = e.get("scn")
                store[i] = (e.get("cm", "inline"), e.get("rm", "inline"))
            elif e["ev"] == "op":
                lastop = e["kind"]
            elif e["ev"] == "ubegin":
                lastop = "update"
            ctxt[i] = (start, lastop, scn)
        reported = set()    # one report per history: its first divergence (later ones are consequences)

        def dump_side(what):
            return what.endswith(("-dump-differs-from-spec", "-live-differs-from-dump", "-after-restart-differs")) or "attributes-dump" in what

        def fail(line, what, kinds=()):
            s, lo, sc = ctxt.get(line, (0, None, None))
            cm, rm = store.get(s, ("inline", "inline"))
            fam = "clusters" if what.startswith(("cluster-", "host-")) else "routers" if what.startswith("router-") else None
            mode = cm if fam == "clusters" else rm if fam == "routers" else "inline"
            if kind == "swap":
                sig = "C12:swap:%s:%s" % (sc, what)
                hist = evs[max(s - 1, line - 12):line]
            elif mode == "dir" and dump_side(what) and all(dump_side(k) for k in kinds):
                # the live objects are right, only what the directory-mode dump gives back is wrong: the failing class
                # is the storage of that family (whatever operation triggered the dump), not the operation
                sig = "C12:store:%s-dir:%s" % (fam, what)
                hist = evs[s - 1:line]
            else:
                sig = "C12:%s:%s:%s" % (kind if (kind != "api" or lo in API_OPS) else "hist", lo, what)
                hist = evs[s - 1:line]
            vlib.report_failure(ctx, sig, dict(part=name, line=line, history=hist))

        for line in sorted(mm):
            s = ctxt.get(line, (0,))[0]
            if kind != "swap" and s in reported:
                continue
            reported.add(s)
            for k in sorted(mm[line]):
                fail(line, k, mm[line])
        if v["matched"] is not None and v["matched"] < len(evs):
            fail(v["matched"] + 1, "trace-rejected:" + evs[v["matched"]]["ev"])

    ctx.cov["traces_validated_against_impl"] = ntr
    ctx.cov["evaluations"] = nev
    ctx.cov["distinct_nontrivial"] = nhist
    ctx.cov["exhaustive"] = not sampled
    ctx.cov["rule"] = ("every operation history of length MaxOps that TLC enumerates from ConfigStore.Next (13 operation kinds over "
                       "2 routers / 5 router configurations incl. invalid and empty ones, 2 clusters x 2 lb types x 4 host sets x 2 host attribute classes (weight+metadata), "
                       "5 locality lists, 1 listener x 2 variants; dump stored inline or in clusters_configs / router_configs directories) is replayed into the real router manager, cluster manager, xDS "
                       "converter and listener adapter; after EVERY operation the dumped configuration is re-parsed and fresh objects "
                       "are built from it, at the end the managers are re-created from the dump; a sample is replayed through the "
                       "admin debug API handlers; distinct = histories replayed (quick: VERIF_SEED-chosen subset of each family)")
    ctx.assumptions += ["probe requests: Host in {a.com, zz.com} x path in {/x, /y}; routes are prefix routes to a single cluster",
                        "host attribute classes a1 = (weight 1, metadata version v1), a2 = (weight 2, version v2), one class per operation argument",
                        "hosts without health checking (all healthy); listener configured with bind_port=false (no socket), variants differ in use_original_dst",
                        "directory storage: one fresh directory per history; cluster names {c1, c12, g/c1}, virtual host names {web, web2, web/a}; "
                        "names whose sanitised file names collide (g/c1 vs g_c1) or exceed 128 bytes are outside the enumerated menu",
                        "router names carry a per-history suffix because the router manager has no removal operation",
                        "fresh objects are built in-process with the constructors pkg/mosn uses at start-up (NewRouters, NewCluster + host handler, "
                        "NewClusterManagerSingleton, ParseListenerConfig + AddListener), not by a second MOSN process",
                        "concurrent lookups: one updater goroutine per scenario (xDS and the admin API serialise updates), windows from call/return order"]
    # system-level part: real traffic through the in-process MOSN while route table and host sets are replaced
    import sys_part
    sys_part.run(ctx, "C12")
    ctx.assumptions += ["system part (spec/system/Mosn.tla): HTTP/1 traffic of 3-6 clients for 1.2 s per round while one goroutine "
                        "replaces the route table (A<->B) and one the host sets; every request must be routed by one live table version, "
                        "sent to a member of one live host-set version and answered 200"]
