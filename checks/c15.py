"""C15 Subset load balancing honours metadata and its fallback policy.
   spec/cluster/Subset.tla: declarative Candidates(criteria) + the implementation-shaped trie of both builders,
   TLC proves them equal for every configuration/criteria in the bounds (3 defect switches must be rejected).
   Binding (B1 replay + TLC trace validation): every configuration TLC enumerates is built by the real
   NewSubsetLoadBalancer and NewSubsetLoadBalancerPreIndex (through simpleCluster.UpdateHosts), asked HostNum /
   IsExistsHosts / ChooseHost for every criteria map of the universe, under health patterns and host orders;
   SubsetTrace.tla evaluates the declarative expectation on every recorded answer.
   spec/cluster/SubsetRoute.tla: the criteria of a request = route metadata_match overridden by the request's own
   metadata, a pure function of (route, request); histories of requests on one route are replayed on real route rules
   through the proxy's downStream.MetadataMatchCriteria and as real requests through an in-process MOSN."""
import json, os, random, re, threading
import vlib

LEVEL = "model_checking"
DEFECTS = ("Subset_defect1.cfg", "Subset_defect2.cfg", "Subset_defect3.cfg", "Subset_defect4.cfg", "Subset_defect5.cfg")


def mismatches(txt):
    out = {}
    for m in re.finditer(r'<<\s*"MISMATCH",\s*(\d+),\s*"([^"]+)"\s*>>', txt):
        out.setdefault(int(m.group(1)), set()).add(m.group(2))
    return out


def crit_class(lb, q, width=True):
    """Input class of a query relative to the configuration (for the failure signature).
    width: name selectors of >= 4 keys as their own class (slice growth / deep trie effects show only there)."""
    if q.get("k") != "map":
        return "no-criteria"
    keys = set(q.get("c", {}).keys())
    sels = [set(s) for s in lb["sel"]]
    if not keys:
        return "empty-criteria"
    if keys in sels:
        hit = any(all(h.get(k) == v for k, v in q["c"].items()) for h in lb["hosts"])
        wide = "wide-selector-%d-keys:" % len(keys) if (width and len(keys) >= 4) else "selector-keys:"
        return wide + ("hosts-match" if hit else "no-host-matches")
    for s in sels:
        if keys < s:
            pref = sorted(s)[:len(keys)] == sorted(keys)
            return "strict-prefix-of-selector" if pref else "strict-subset-of-selector"
    if any(s < keys for s in sels):
        return "superset-of-selector"
    return "no-selector-for-keys"


def match_sets(c):
    """Position sets of the subsets (and of the default subset) of a configuration, size >= 2."""
    hosts = c["hosts"]
    hosts = [h if isinstance(h, dict) else {} for h in hosts]
    out = set()
    kvs = []
    for s in c["sel"]:
        if not s:
            continue
        for h in hosts:
            if all(k in h for k in s):
                kvs.append(tuple((k, h[k]) for k in s))
    if c["pol"] == "default" and isinstance(c["dflt"], dict) and c["dflt"]:
        kvs.append(tuple(sorted(c["dflt"].items())))
    for kv in set(kvs):
        m = frozenset(i for i, h in enumerate(hosts) if all(h.get(k) == v for k, v in kv))
        if len(m) >= 2:
            out.add(m)
    return out


def collision_perm(ln):
    """A host order under which two different subsets have position sets with equal (min, max, size), or None."""
    import itertools
    c = json.loads(ln)
    n = len(c["hosts"])
    ms = match_sets(c)
    if not any(a != b and len(a) == len(b) and len(a) >= 3 for a in ms for b in ms):
        return None
    for perm in itertools.permutations(range(n)):      # perm[new position] = old position
        pos = {old: new for new, old in enumerate(perm)}
        keys = {}
        for m in ms:
            p = sorted(pos[i] for i in m)
            keys.setdefault((p[0], p[-1], len(p)), set()).add(tuple(p))
        if any(len(v) > 1 for v in keys.values()):
            c["perm"] = list(perm)
            return json.dumps(c, separators=(",", ":"))
    return None


def wide_pick(cfgs, rng, nwide, nrest):
    """Wide-selector universe (5 keys, hosts agree on the first three): VERIF_SEED sample, weighted towards configurations
    with a selector of >= 4 keys and hosts that differ on one of its last keys."""
    def interesting(ln):
        c = json.loads(ln)
        hs = [h for h in c["hosts"] if isinstance(h, dict)]
        for s in c["sel"]:
            if len(s) >= 4 and any(len({h.get(k) for h in hs if all(x in h for x in s)}) >= 2 for k in s[3:]):
                return True
        return False
    a = [c for c in cfgs if interesting(c)]
    sa = set(a)
    b = [c for c in cfgs if c not in sa]
    return rng.sample(a, min(nwide, len(a))) + rng.sample(b, min(nrest, len(b)))


def rq_class(evs, lb_line, line):
    """Input class of a request event: which merge case its criteria are, and whether an earlier request of the same
    route (same history for the direct replay, same route of the running MOSN) carried request-level metadata."""
    e = evs[line - 1]
    rm, q = e.get("rm", []), e.get("q", [])
    if not rm and not q:
        case = "no-criteria"
    elif not q:
        case = "route-only"
    elif not q[0]:
        case = "empty-request-map"
    elif not rm:
        case = "request-only"
    elif set(rm[0]) & set(q[0]):
        case = "both-same-key"
    else:
        case = "both-disjoint-keys"
    earlier = False
    if e.get("e2e"):
        for j in range(line - 1, lb_line, -1):
            p = evs[j - 1]
            if p["ev"] == "rq" and p.get("route") == e.get("route") and p.get("q"):
                earlier = True
                break
    else:
        for j in range(line - 1, max(lb_line, line - e.get("i", 1)), -1):
            if evs[j - 1].get("q"):
                earlier = True
                break
    return "merge-%s:%s" % (case, "after-request-with-metadata" if earlier else "route-not-yet-used-with-metadata")


def route_cases(ctx, q, rng):
    """Histories of requests on one route (SubsetRoute.tla): model check = case generation; defect switch rejected."""
    cfg = "SubsetRoute.cfg" if q else "SubsetRoute_thorough.cfg"
    raw = os.path.join(ctx.tmp, "raw_%s.jsonl" % cfg)
    r = vlib.run_tlc(ctx, "cluster", "SubsetRoute", cfg, workers=1, cases_to=raw, timeout=900)
    ctx.add_tlc(r)
    if vlib.run_tlc(ctx, "cluster", "SubsetRoute", "SubsetRoute_defect.cfg", workers=1, expect_ok=False)["ok"]:
        raise vlib.Inconclusive("SubsetRoute model does not reject RouteCriteriaMutatedByRequest: invariants vacuous")
    menu, hist = None, []
    for ln in open(raw):
        ln = ln.strip()
        if ln.startswith('{"t":"menu"'):
            menu = ln
        elif ln.startswith('{"t":"hist"'):
            hist.append(ln)
    if menu is None or not hist:
        raise vlib.Inconclusive("no cases from %s" % cfg)
    hist.sort()
    # through MOSN: a VERIF_SEED sample (header_to_metadata cannot publish an empty map: those stay direct only)
    expressible = [h for h in hist if "[[]]" not in h.split('"reqs":')[1]]
    n = 240 if q else 3000
    through = []
    for h in rng.sample(expressible, min(n, len(expressible))):
        d = json.loads(h)
        d["e2e"] = True
        through.append(json.dumps(d, separators=(",", ":")))
    p = os.path.join(ctx.tmp, "cases_route.jsonl")
    with open(p, "w") as fh:
        fh.write(menu + "\n" + "\n".join(hist) + "\n" + "\n".join(through) + "\n")
    ctx.cov.setdefault("configs", {})[cfg] = {"histories": len(hist), "replayed_direct": len(hist), "replayed_through_mosn": len(through)}
    return p, len(hist)


def gen_cases(ctx, cfg, timeout=900):
    raw = os.path.join(ctx.tmp, "raw_%s.jsonl" % cfg)
    r = vlib.run_tlc(ctx, "cluster", "Subset", cfg, workers=1, cases_to=raw, timeout=timeout)
    crits, cfgs = None, []
    for ln in open(raw):
        ln = ln.strip()
        if not ln:
            continue
        if ln.startswith('{"t":"crits"'):
            crits = ln
        else:
            cfgs.append(ln)
    if crits is None or not cfgs:
        raise vlib.Inconclusive("no cases from %s" % cfg)
    return crits, sorted(cfgs), r


def nhosts(ln):
    return len(json.loads(ln)["hosts"])


def validate_parallel(ctx, trace, nchunks):
    """Split the trace at balancer boundaries and let TLC validate the chunks concurrently.
    Returns (events, list of (offset, chunk_events, validation result))."""
    evs = vlib.read_jsonl(trace)
    starts = [i for i, e in enumerate(evs) if e["ev"] == "lb"]
    if not starts or starts[0] != 0:
        raise vlib.Inconclusive("trace does not start with an lb event")
    per = max(1, len(evs) // nchunks)
    cuts = [0]
    for s in starts:
        if s - cuts[-1] >= per:
            cuts.append(s)
    cuts.append(len(evs))
    lines = open(trace).read().splitlines()
    results = [None] * (len(cuts) - 1)
    errors = []

    def work(i):
        try:
            p = os.path.join(ctx.tmp, "%s.chunk%d" % (os.path.basename(trace), i))
            with open(p, "w") as fh:
                fh.write("\n".join(lines[cuts[i]:cuts[i + 1]]) + "\n")
            results[i] = vlib.validate_trace(ctx, "cluster", "SubsetTrace", "SubsetTrace.cfg", p, timeout=1500)
        except Exception as e:  # noqa
            errors.append(e)

    ths = [threading.Thread(target=work, args=(i,)) for i in range(len(cuts) - 1)]
    for t in ths:
        t.start()
    for t in ths:
        t.join()
    if errors:
        raise errors[0] if isinstance(errors[0], vlib.Inconclusive) else vlib.Inconclusive("trace validation: %r" % errors[0])
    return evs, [(cuts[i], cuts[i + 1] - cuts[i], results[i]) for i in range(len(results))]


def run(ctx):
    q = ctx.quick()
    rng = random.Random(ctx.seed)
    par = max(2, min(6, vlib.NCPU // 3))

    # ---------- 1. design level: both tries = declarative candidates, for every configuration and criteria map
    universes = [("Subset.cfg", "Subset_cases.cfg"), ("Subset_empty.cfg", "Subset_empty_cases.cfg"),
                 (None, "Subset_thorough_cases.cfg"), ("Subset_wide.cfg", "Subset_wide_cases.cfg")] if q else \
                [("Subset_thorough.cfg", "Subset_thorough_cases.cfg"), ("Subset_empty.cfg", "Subset_empty_cases.cfg"),
                 ("Subset_3key.cfg", "Subset_3key_cases.cfg"), ("Subset_wide_thorough.cfg", "Subset_wide_thorough_cases.cfg")]
    mc_err = []

    def model_check():
        try:
            for mc, _ in universes:
                if mc is None:
                    continue
                ctx.add_tlc(vlib.run_tlc(ctx, "cluster", "Subset", mc, workers=max(2, vlib.NCPU // 2), timeout=1700))
            for d in DEFECTS:
                if vlib.run_tlc(ctx, "cluster", "Subset", d, workers=2, expect_ok=False)["ok"]:
                    raise vlib.Inconclusive("Subset model does not reject %s: invariants vacuous" % d)
        except Exception as e:  # noqa
            mc_err.append(e)

    mc_thread = threading.Thread(target=model_check)   # runs while the real code is replayed
    mc_thread.start()
    try:
        replay(ctx, q, rng, par, universes)
    finally:
        mc_thread.join()
    if mc_err:
        e = mc_err[0]
        raise e if isinstance(e, vlib.Inconclusive) else vlib.Inconclusive("model check failed: %r" % e)


def replay(ctx, q, rng, par, universes):
    # ---------- 2. cases: which configurations are replayed
    sampled = False
    jobs = []   # (name, cases file, health mode, orders)
    total_cfgs = 0
    for mc, cc in universes:
        crits, cfgs, r = gen_cases(ctx, cc)
        ctx.add_tlc(r)
        if q:
            if cc == "Subset_cases.cfg":
                # every configuration with <= 2 hosts whose selectors all have keys, every one with <= 1 host;
                # VERIF_SEED samples of the 2-host ones with a key-less selector and of the 3-host ones
                def nokeys(c):
                    return any(len(x) == 0 for x in json.loads(c)["sel"])
                small = [c for c in cfgs if nhosts(c) <= 1 or (nhosts(c) == 2 and not nokeys(c))]
                mid = [c for c in cfgs if nhosts(c) == 2 and nokeys(c)]
                big = [c for c in cfgs if nhosts(c) > 2]
                pick = small + rng.sample(mid, min(250, len(mid))) + rng.sample(big, min(500, len(big)))
                sampled = True
            elif cc == "Subset_thorough_cases.cfg":
                # 4 hosts: position sets that differ only in the middle (index cache, sparse sets)
                four = [c for c in cfgs if nhosts(c) == 4]
                coll = [x for x in (collision_perm(c) for c in four) if x]
                pick = rng.sample(coll, min(150, len(coll))) + rng.sample(four, min(150, len(four)))
                ctx.cov["cache_collision_configs"] = len(coll)
            elif cc == "Subset_wide_cases.cfg":
                pick = wide_pick(cfgs, rng, 220, 100)
            else:
                pick = rng.sample(cfgs, min(400, len(cfgs)))
        elif cc == "Subset_wide_thorough_cases.cfg":
            pick = wide_pick(cfgs, rng, 1500, 1000)
            sampled = True
        elif cc == "Subset_thorough_cases.cfg":
            # every configuration with <= 2 hosts, every 4-host one that can collide in the index cache, VERIF_SEED sample of the rest
            keep = [c for c in cfgs if nhosts(c) <= 2]
            rest = [c for c in cfgs if nhosts(c) > 2]
            coll = [x for x in (collision_perm(c) for c in rest if nhosts(c) == 4) if x]
            ctx.cov["cache_collision_configs"] = len(coll)
            pick = keep + coll + rng.sample(rest, min(4000, len(rest)))
            sampled = True
        else:
            cap = {"Subset_empty_cases.cfg": 3000, "Subset_3key_cases.cfg": 1200}[cc]
            pick = cfgs
            if len(cfgs) > cap:
                pick = rng.sample(cfgs, cap)
                sampled = True
        p = os.path.join(ctx.tmp, "cases_" + cc + ".jsonl")
        with open(p, "w") as fh:
            fh.write(crits + "\n")
            fh.write("\n".join(pick) + "\n")
        total_cfgs += len(pick)
        ctx.cov.setdefault("configs", {})[cc] = {"enumerated": len(cfgs), "replayed": len(pick),
                                                 "criteria": len(json.loads(crits)["crits"])}
        jobs.append((cc, p, "lb"))
    rp, nhist = route_cases(ctx, q, rng)
    jobs.append(("SubsetRoute", rp, "route"))

    # ---------- 3. real code: record
    binary = vlib.go_build("c15")
    reps = "8" if q else "24"
    for name, cases, mode in jobs:
        trace = os.path.join(ctx.tmp, name + ".ndjson")
        vlib.run_driver(ctx, binary, ["-mode", mode, "-cases", cases, "-trace", trace, "-reps", reps,
                                      "-health", "1" if q else "7", "-full=false" if q else "-full=true"], timeout=1700)
        # ---------- 4. TLC decides
        nlines = sum(1 for _ in open(trace))
        evs, parts = validate_parallel(ctx, trace, max(1, min(par if q else par * 2, nlines // 60000)))
        nq = sum(1 for e in evs if e["ev"] == "q")
        ctx.cov["traces_validated_against_impl"] += sum(1 for e in evs if e["ev"] == "lb")
        ctx.cov["evaluations"] += nq * 3 + sum(1 if e.get("e2e") else 4 for e in evs if e["ev"] == "rq")
        if mode == "route":
            ctx.cov["requests_through_mosn"] = sum(1 for e in evs if e.get("e2e"))
        ctx.cov.setdefault("trace_events", {})[name] = len(evs)
        lb_at = {}
        cur = None
        for i, e in enumerate(evs, 1):
            if e["ev"] == "lb":
                cur = i
            lb_at[i] = cur
        ctx.sample({"universe": name, "trace_head": evs[:4]}, cap=3)

        def fail(line, kind):
            e = evs[line - 1]
            lb = evs[lb_at[line] - 1]
            if e["ev"] == "q":
                # the all-unhealthy fall-through is independent of the selector width: one class for it
                cls = crit_class(lb, e, width=not kind.startswith("subset-all-unhealthy"))
            elif e["ev"] == "lb":
                cls = "selector-without-keys" if any(len(x) == 0 for x in e["sel"]) else "build"
            elif e["ev"] == "rq":
                cls = rq_class(evs, lb_at[line], line)
            else:
                cls = e["ev"]
            sig = "C15:%s:%s:%s" % (lb.get("b"), cls, kind)
            hl = None
            for j in range(line - 1, lb_at[line] - 1, -1):
                if evs[j - 1]["ev"] == "health":
                    hl = evs[j - 1]["hl"]
                    break
            detail = dict(line=line, config=lb, healthy=hl if hl is not None else "all", query=e)
            if e["ev"] == "rq":   # the requests of the same route that came before
                detail["earlier_requests"] = [x for x in evs[max(lb_at[line], line - 12):line - 1]
                                              if x["ev"] == "rq" and x.get("route") == e.get("route")][-6:]
            vlib.report_failure(ctx, sig, detail)

        for off, n, v in parts:
            ctx.cov["states"] += v["distinct"]
            ctx.cov["transitions"] += v["generated"]
            mm = mismatches(v["text"])
            if not v["accepted"] and not mm and v["matched"] is None:
                raise vlib.Inconclusive("trace validation did not complete:\n%s" % v["text"][-1500:])
            for line, kinds in sorted(mm.items()):
                for k in sorted(kinds):
                    fail(off + line, k)
            if v["matched"] is not None and v["matched"] < n:
                line = off + v["matched"] + 1
                fail(line, "trace-rejected:" + evs[line - 1]["ev"])

    ctx.cov["distinct_nontrivial"] = total_cfgs + nhist
    ctx.cov["rule"] = ("every configuration TLC enumerates from Subset.tla (host multisets with partial metadata x selector sets x "
                       "fallback policy x default subset) is built by both real builders through UpdateHosts (pre-index also with "
                       "hosts/selectors reversed); each balancer answers HostNum, IsExistsHosts and %s+ ChooseHost calls for every "
                       "criteria map of the universe (known/unknown keys and values, empty string, empty map, nil, typed nil), "
                       "again under health patterns; quick: all configurations with <=2 hosts, VERIF_SEED sample of the rest; "
                       "request criteria: every history of %d requests on one route TLC enumerates from SubsetRoute.tla (6 configurations "
                       "x 9 route metadata_match x 12 request metadata each) replayed on a fresh real route rule through the real "
                       "header_to_metadata filter and the proxy's downStream.MetadataMatchCriteria into both builders' balancers, and a "
                       "VERIF_SEED sample of them as HTTP/1 requests through an in-process MOSN (answering host recorded); "
                       "distinct = configurations + histories replayed, evaluations = recorded answers checked by TLC"
                       % (reps, 2 if q else 3))
    ctx.cov["exhaustive"] = not sampled
    ctx.assumptions += [
        "health: the inner balancer of a host set may answer any healthy member, or, when none is healthy, any member or "
        "nothing (C05 contract); the selected subset decides alone, also when all its members are unhealthy",
        "balancer part: criteria are built by router.NewMetadataMatchCriteriaImpl (sorted by key); request part: by the proxy's "
        "own downStream.MetadataMatchCriteria (accessor VerifLoadBalancerContext) resp. by a real request through MOSN",
        "request-level metadata comes from the header_to_metadata stream filter (header x-<key> -> metadata <key>); all hosts healthy there",
        "host addresses are distinct (HostSet de-duplicates by address); every selector has at least one key",
        "the inner policy rotates over the 8 balancer types by configuration index and VERIF_SEED; maglev gets a route with a hash policy",
    ]
