"""HTTP/1 message framing through the proxy (spec/wire/H1Framing.tla + H1FramingMC.tla + H1FramingTrace.tla), a part of C01:
how the END of a message is determined on each hop - request: Content-Length / chunked / no body (+ Expect: 100-continue,
HTTP/1.0, Connection: close, pipelining); response: Content-Length / chunked / delimited by the close of the upstream
connection / bodiless by status (204, 304, interim 1xx before the final response) / bodiless because the request was HEAD -
and what it means for the exchange that follows on the same connections (nothing of exchange k reaches exchange k+1).

1. TLC checks the design (H1Framing.cfg: ReqFidelity, RespFidelity, TruncationNotDelivered, NoLeak, NoRequestAfterClose,
   EndExact over the whole universe of cases) and must reject the nine defect switches.
2. TLC enumerates the cases (star design: every request shape x 2 responses, every response shape x 3 requests; alone, with
   a plain second exchange after / before it, or pipelined); harness/cmd/h1framing replays them through an in-process MOSN
   with a RAW TCP client and RAW TCP scripted upstreams (every framing octet written by hand, nothing of net/http).
3. TLC validates every recorded case against H1FramingTrace (the same Exchange function as the model)."""
import collections
import concurrent.futures as cf
import json, os, random, re, time
import vlib

FAM = "wire"
DEFECTS = ("CloseDelimitedTreatedAsReset", "HeadResponseBodyAwaited", "ChunkBoundaryAsEnd", "FixedLengthShortAccepted",
           "LeftoverBytesToNextExchange", "OnlyContinueSkipped", "EmptyChunkedAnnounced", "ReuseAfterCloseAnnounced",
           "RequestLengthOffByOne")
EXPECT_VIOLATED = {"CloseDelimitedTreatedAsReset": "RespFidelity", "HeadResponseBodyAwaited": "RespFidelity",
                   "ChunkBoundaryAsEnd": "TruncationNotDelivered", "FixedLengthShortAccepted": "TruncationNotDelivered",
                   "LeftoverBytesToNextExchange": "NoLeak", "OnlyContinueSkipped": "RespFidelity",
                   "EmptyChunkedAnnounced": "ReqFidelity", "ReuseAfterCloseAnnounced": "NoRequestAfterClose",
                   "RequestLengthOffByOne": "ReqFidelity"}
MM = re.compile(r'<<\s*"MISMATCH",\s*(\d+),\s*"([^"]+)"\s*>>')


def _main(c):
    """the exchange of a case that is not the probe"""
    for e in c["ex"]:
        if not (e["m"] == "POST" and e["qf"] == "cl" and e["qz"] == "s" and e["sf"] == "cl" and e["sz"] == "s" and e["uc"] == "keep"
                and not e["cc"] and not e["exp"] and e["pre"] == 0 and not e["sclose"] and e["extra"] == "" and e["ver"] == "11" and e["qk"] == 1 and e["sk"] == 1):
            return e
    return c["ex"][0]


def _costly(c):
    """classes whose cases take seconds each while a defect of their class is open (a response that never comes is awaited):
    they are capped, never dropped"""
    e = _main(c)
    if e["pre"] == 103:
        return "interim-103"
    if e["qf"] == "ch" and e["qk"] == 0 and e["m"] in ("GET", "HEAD"):
        return "chunked-empty-bodyless-method"
    if e["extra"]:
        return "octets-beyond-the-message-" + e["extra"]
    return None


def req_class(e, pipe, full=True):
    """the class of a request: method, framing, empty or not (+ version, Expect, Connection: close, pipelined)"""
    s = "%s.%s.%s" % (e["m"], e["qf"], "empty" if e["qk"] == 0 else "body")
    if full:
        s += "%s%s%s%s" % (".http" + e["ver"] if e["ver"] != "11" else "", ".expect" if e["exp"] else "", ".connclose" if e["cc"] else "",
                           ".pipelined" if pipe else "")
    return s


def resp_class(e, prev):
    """the class of a response: framing on the upstream hop, status (+ interim response, how the upstream ended the connection)"""
    return "%s.%d%s%s%s%s%s" % (e["sf"], e["st"], ".after%d" % e["pre"] if e["pre"] else "", "." + e["uc"] if e["uc"] != "keep" else "",
                                ".connclose" if e["sclose"] else "", ".head" if e["m"] == "HEAD" else "",
                                ".following-" + prev["extra"] if prev is not None and prev["extra"] else "")


def sig_class(kind, c, n, at_end):
    """the input class a failure is named by: the class of the case's main exchange, as coarse as the kind of failure
    allows; n = index of the exchange the failure showed at"""
    e = _main(c)
    k = c["ex"].index(e)
    where = "" if (n == k or at_end) else ":shows-at-the-%s-exchange" % ("following" if n > k else "preceding")
    rare = _costly(c)
    if kind == "request-not-forwarded":
        return req_class(e, c["pipe"], full=False) + where
    if rare == "interim-103":
        return "after%d%s" % (e["pre"], where)
    if rare and rare.startswith("octets-beyond"):
        return "following-%s%s" % (e["extra"], where)
    if rare:
        return req_class(e, c["pipe"], full=False) + where
    if kind.startswith("request-") or kind.startswith("expect-") or at_end:
        return req_class(e, c["pipe"]) + where
    return resp_class(e, None) + where


ORDER = ["response-of-another-exchange", "response-body-holds-octets-of-another-exchange", "interim-response-not-followed-by-final",
         "request-not-forwarded", "expect-100-continue-not-answered"]


def _replay(ctx, pid, binary, cases, tag, shards, workers, stat):
    """drivers (one MOSN each) replay the cases, TLC validates what they recorded; failures are reported, the costly
    classes that had one are returned"""
    casef = os.path.join(ctx.tmp, "h1f_cases_%s.jsonl" % tag)
    with open(casef, "w") as fo:
        for c in cases:
            fo.write(json.dumps(c) + "\n")
    jobs = []
    for s in range(shards):
        t = os.path.join(ctx.tmp, "h1f-%s-%d.ndjson" % (tag, s))
        jobs.append((t, ["-cases", casef, "-trace", t, "-shard", str(s), "-shards", str(shards), "-workers", str(workers)]))
    t0 = time.time()
    with cf.ThreadPoolExecutor(max_workers=shards) as ex:
        for f in [ex.submit(vlib.run_driver, ctx, binary, j[1], 1700) for j in jobs]:
            f.result()
    vlib.log("[h1f] %s: drivers done in %.1fs" % (tag, time.time() - t0))
    traces = []        # one per shard: the cases of its workers one after the other (every case starts with its own reset event)
    for j in jobs:
        with open(j[0], "w") as fo:
            for w in range(workers):
                p = j[0] + ".%d" % w
                if os.path.exists(p):
                    fo.write(open(p).read())
        if os.path.getsize(j[0]) > 0:
            traces.append(j[0])

    def validate(t):
        return vlib.validate_trace(ctx, FAM, "H1FramingTrace", "H1FramingTrace.cfg", t, timeout=1500)
    with cf.ThreadPoolExecutor(max_workers=max(2, vlib.NCPU // 2)) as ex:
        results = list(ex.map(validate, traces))

    ncases = 0
    failed = set()
    for t, v in zip(traces, results):
        evs = vlib.read_jsonl(t)
        ctx.cov["states"] += v["distinct"]; ctx.cov["transitions"] += v["generated"]
        mm = {}
        for m in MM.finditer(v["text"]):
            mm.setdefault(int(m.group(1)), set()).add(m.group(2))
        if not v["accepted"] and not mm and v["matched"] is None:
            raise vlib.Inconclusive("H1FramingTrace validation did not complete:\n%s" % v["text"][-1500:])
        starts = [n for n, e in enumerate(evs) if e["ev"] == "case"]
        run_of = {}
        for a, b in zip(starts, starts[1:] + [len(evs)]):
            for n in range(a, b):
                run_of[n] = (a, b)
            ncases += 1
            spec = evs[a]["spec"]
            e = _main(spec)
            stat["classes"]["%s | %s" % (req_class(e, spec["pipe"]), resp_class(e, None))] += 1
        stat["exchanges"] += sum(1 for e in evs if e["ev"] == "x")
        stat["undrained"] += sum(1 for e in evs if e["ev"] == "end" and not e["drained"])
        if v["matched"] is not None and v["matched"] < len(evs):
            mm.setdefault(v["matched"] + 1, set()).add("trace-rejected-at-" + evs[v["matched"]]["ev"])
        # one signature per case: the first thing that went wrong in it names it (what follows is its consequence)
        seen_case = set()
        abandon_from = {}
        for a, b in zip(starts, starts[1:] + [len(evs)]):
            for e in evs[a:b]:
                if e["ev"] == "end" and e.get("abandon", -1) >= 0:
                    abandon_from[a] = e["abandon"]    # the driver could not keep the schedule from this exchange on: not judged
                    stat["abandoned"] += 1
        for line, kinds in sorted(mm.items()):
            a, b = run_of.get(line - 1, (0, len(evs)))
            if a in seen_case:
                continue
            if a in abandon_from and (evs[line - 1]["ev"] != "x" or evs[line - 1]["i"] >= abandon_from[a]):
                continue
            seen_case.add(a)
            kind = sorted(kinds, key=lambda k: (ORDER.index(k) if k in ORDER else len(ORDER), k))[0]
            spec = evs[a]["spec"]
            ev = evs[line - 1]
            n = ev["i"] if ev["ev"] == "x" else len(spec["ex"]) - 1
            sig = "%s:h1framing:%s:%s" % (pid, kind, sig_class(kind, spec, n, ev["ev"] == "end"))
            vlib.report_failure(ctx, sig, dict(kind=kind, case=spec, exchange=n, line=line, event=ev, seed=ctx.seed,
                                              exchanges=[e for e in evs[a:b] if e["ev"] == "x"], end=[e for e in evs[a:b] if e["ev"] == "end"]))
            failed.add(_costly(spec))
    stat["cases"] += ncases
    if ncases != len(cases) and not ctx.violations and not ctx.known_hits:
        raise vlib.Inconclusive("h1framing driver replayed %d of %d cases" % (ncases, len(cases)))
    return failed


def run_part(ctx, pid="C01"):
    q = ctx.quick()
    rng = random.Random(ctx.seed * 7919 + 31)
    raw = os.path.join(ctx.tmp, "h1f_raw.jsonl")
    r = vlib.run_tlc(ctx, FAM, "H1FramingMC", "H1Framing.cfg" if q else "H1Framing_thorough.cfg", workers=4 if q else 8, cases_to=raw, timeout=1500)
    ctx.add_tlc(r)
    pool = cf.ThreadPoolExecutor(max_workers=6)
    bfut = pool.submit(vlib.go_build, "h1framing")
    dfut = {d: pool.submit(vlib.run_tlc, ctx, FAM, "H1FramingMC", "H1Framing_defect_%s.cfg" % d, workers=1, timeout=600, expect_ok=False)
            for d in DEFECTS}

    lines = sorted(set(open(raw).read().splitlines()))
    universe = len(lines)
    allc = [json.loads(l) for l in lines]
    # first pass: everything except the costly classes, and a few cases of each of those (the seed chooses which; it also
    # chooses sizes, contents and split points of every case).  Second pass: the rest of every costly class whose first
    # cases all passed (so they are not costly).
    caps = {"interim-103": 4 if q else 64, "chunked-empty-bodyless-method": 4 if q else 16,
            "octets-beyond-the-message-junk": 4 if q else 64, "octets-beyond-the-message-resp": 4 if q else 64}
    costly = collections.defaultdict(list)
    plain, first = [], []
    for c in allc:
        k = _costly(c)
        (costly[k] if k else plain).append(c)
    later = {}
    ncost = {}
    for k, cs in sorted(costly.items()):
        # round-robin over the kinds of second exchange (alone / probe after / probe before / pipelined): each stays present
        by = collections.defaultdict(list)
        for c in cs:
            if k == "chunked-empty-bodyless-method":
                by[_main(c)["m"]].append(c)        # ... here over the methods
            else:
                by[(len(c["ex"]), c["pipe"], c["ex"].index(_main(c)))].append(c)
        for v in by.values():
            rng.shuffle(v)
        take, keys = [], sorted(by)
        while len(take) < min(caps[k], len(cs)):
            for kk in keys:
                if by[kk] and len(take) < caps[k]:
                    take.append(by[kk].pop())
        later[k] = [c for v in by.values() for c in v]
        ncost[k] = [len(take), len(cs)]
        first += take
    rng.shuffle(first)
    rng.shuffle(plain)
    first += plain          # the costly ones go out first: one per worker, the others fill the time they wait
    vlib.log("[h1f] cases: %d enumerated, first pass %d (costly classes: %s)" % (universe, len(first), ncost))

    binary = bfut.result()
    shards, workers = (4 if q else 8), 4
    stat = dict(cases=0, exchanges=0, undrained=0, abandoned=0, classes=collections.Counter())
    failed = _replay(ctx, pid, binary, first, "first", shards, workers, stat)
    for d, f in dfut.items():
        rr = f.result()
        ctx.add_tlc(rr)
        if rr["ok"] or rr["violated"] != EXPECT_VIOLATED[d]:
            raise vlib.Inconclusive("H1Framing does not reject defect %s by %s (got %s)" % (d, EXPECT_VIOLATED[d], rr["violated"]))
    pool.shutdown()
    second = []
    for k, cs in sorted(later.items()):
        if k not in failed:
            second += cs
            ncost[k][0] += len(cs)
    if second:
        rng.shuffle(second)
        vlib.log("[h1f] second pass: %d cases of the costly classes without a failure" % len(second))
        _replay(ctx, pid, binary, second, "second", shards, workers, stat)
    if stat["abandoned"] * 50 > stat["cases"]:
        raise vlib.Inconclusive("h1framing: %d of %d cases could not keep their schedule" % (stat["abandoned"], stat["cases"]))
    ctx.cov["h1framing"] = dict(abandoned=stat["abandoned"], universe=universe, cases=stat["cases"], exchanges=stat["exchanges"],
                                costly_classes={k: "%d of %d" % tuple(v) for k, v in ncost.items()},
                                request_x_response_classes=len(stat["classes"]), upstream_connections_not_released=stat["undrained"],
                                defects_rejected=list(DEFECTS))
    ctx.cov["traces_validated_against_impl"] += stat["cases"]
    ctx.cov["evaluations"] += stat["exchanges"]
    ctx.cov["exhaustive"] = ctx.cov.get("exhaustive", False) or stat["cases"] == universe
    ctx.sample("h1framing: %d cases / %d exchanges of %d enumerated, %d request x response classes" % (
        stat["cases"], stat["exchanges"], universe, len(stat["classes"])))
    vlib.log("[h1f] %d cases, %d exchanges validated; %d classes" % (stat["cases"], stat["exchanges"], len(stat["classes"])))
