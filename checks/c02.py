"""C02 Request/response correlation: nobody ever receives someone else's answer.
   spec/stream/XStreamConn.tla (+Trace): the client stream table of a multiplexed xprotocol connection (id allocation at
     the 32-bit wrap, lookup/delete on response, local reset, connection reset) with three defect switches; every
     operation history enumerated by TLC is replayed into the real stream.NewStreamClient (bolt) and validated by TLC.
   spec/stream/XHop.tla + XJudge.tla (+XHopTrace): the proxy hop (downstream id kept, fresh upstream id, id restored on
     the way back, error replies built from the shared request frame) with three defect switches; every schedule
     enumerated by TLC (requests on shared downstream connections with ids that collide with the proxy's upstream ids,
     answers in any order, late, duplicate, unknown ids, timeouts, upstream close) is realised on an in-process MOSN
     (bolt proxy) with a scripted bolt upstream and raw bolt clients; plus randomised concurrent storms. Every frame a
     client received is judged by TLC with XJudge!Verdict; the same judgement is applied to HTTP/1.1 clients over pooled
     ping-pong upstream connections whose exchanges are abandoned by timeouts."""
import json, os, random, re, subprocess
from concurrent.futures import ThreadPoolExecutor
import vlib

LEVEL = "model_checking"
FAM = "stream"


def mismatches(txt):
    out = {}
    for m in re.finditer(r'<<\s*"MISMATCH",\s*(\d+),\s*"([^"]+)"\s*>>', txt):
        out.setdefault(int(m.group(1)), set()).add(m.group(2))
    return out


def model_checks(ctx):
    for mod in ("XStreamConn", "XHop"):
        r = vlib.run_tlc(ctx, FAM, mod, mod + ".cfg")
        ctx.add_tlc(r)
    for mod, defects in (("XStreamConn", ("NoDelete", "ResetKeepsEntry", "ArrivalOrder")),
                         ("XHop", ("HijackIdFromFrame", "NoDelete", "ArrivalOrder", "RecycleWhileReferenced", "BodyAliasesReadBuffer", "LocalReplyKeepsOldBody", "DroppedResponseKeepsDecodeContext"))):
        for d in defects:
            cfg = "%s_defect_%s.cfg" % (mod, d)
            if vlib.run_tlc(ctx, FAM, mod, cfg, expect_ok=False)["ok"]:
                raise vlib.Inconclusive("%s model does not reject %s" % (mod, cfg))


def emit(ctx, mod, cfg):
    raw = os.path.join(ctx.tmp, "%s_%s.jsonl" % (mod, cfg))
    r = vlib.run_tlc(ctx, FAM, mod, cfg, workers=1, cases_to=raw, timeout=1500)
    ctx.add_tlc(r)
    return sorted(set(open(raw).read().splitlines()))


def features(case):
    """What makes a schedule interesting for correlation: id collisions, timeouts, late/duplicate/unknown replies, close."""
    f = set()
    late = set()
    for s in case["steps"]:
        if s["op"] == "send" and s.get("mode", 0) != 0:
            f.add("collision")
        if s["op"] == "send" and s.get("bare"):
            f.add("bare")
        if s["op"] == "tmo":
            f.add("tmo"); late.add(s["r"])
        if s["op"] == "ans" and s["r"] in late:
            f.add("late")
        if s["op"] in ("dup", "ghost", "close", "race", "racegone", "inter", "uerr"):
            f.add(s["op"])
    return f


def run_shards(ctx, binary, mode, shards, extra, timeout):
    procs = []
    env = vlib.go_env()
    env.update(VERIF_SEED=str(ctx.seed), VERIF_TIER=ctx.tier)
    for s in range(shards):
        t = os.path.join(ctx.tmp, "c02_%s_trace_%d.ndjson" % (mode, s))
        r = os.path.join(ctx.tmp, "c02_%s_res_%d.jsonl" % (mode, s))
        lg = open(os.path.join(ctx.tmp, "c02_%s_drv_%d.log" % (mode, s)), "w")
        p = subprocess.Popen(["timeout", "-k", "10", str(timeout), binary, "-mode", mode, "-trace", t, "-results", r,
                              "-shard", str(s), "-shards", str(shards)] + extra,
                             stdout=lg, stderr=subprocess.STDOUT, env=env, cwd=ctx.tmp)
        procs.append((p, t, r, lg))
    traces, results = [], []
    for p, t, r, lg in procs:
        rc = p.wait()
        lg.close()
        if rc != 0:
            raise vlib.Inconclusive("driver c02 -mode %s shard died rc=%s\n%s" % (mode, rc, vlib.tail(lg.name)))
        traces.append(t)
        results += vlib.read_jsonl(r)
    return traces, results


def validate(ctx, part, module, trace, reset_ev):
    """TLC trace validation of one trace file; every MISMATCH / rejection becomes a failure of the run it lies in."""
    evs = vlib.read_jsonl(trace)
    if not evs:
        raise vlib.Inconclusive("empty trace %s" % trace)
    v = vlib.validate_trace(ctx, FAM, module, module + ".cfg", trace, timeout=1500)
    mm = mismatches(v["text"])
    if not v["accepted"] and not mm and v["matched"] is None:
        raise vlib.Inconclusive("trace validation of %s did not complete:\n%s" % (module, v["text"][-1500:]))
    fails = []
    starts = [i for i, e in enumerate(evs) if e["ev"] == reset_ev] + [len(evs)]
    def run_of(line):   # 1-based trace line -> slice of its run
        k = max(j for j in range(len(starts) - 1) if starts[j] < line) if line > starts[0] else 0
        return evs[starts[k]:starts[k + 1]], line - starts[k]
    for line, kinds in sorted(mm.items()):
        for k in sorted(kinds):
            fails.append((k, line))
    if v["matched"] is not None and v["matched"] < len(evs):
        fails.append(("trace-rejected:" + evs[v["matched"]]["ev"], v["matched"] + 1))
    out = []
    for kind, line in fails:
        rt, off = run_of(line)
        out.append(dict(part=part, kind=kind, at=off, event=evs[line - 1], run=rt[:400]))
    return dict(events=len(evs), runs=len(starts) - 1, states=v["distinct"], generated=v["generated"], fails=out, head=evs[:starts[1]] if len(starts) > 1 else evs[:12])


def run(ctx):
    q = ctx.quick()
    rng = random.Random(ctx.seed)
    model_checks(ctx)

    # ---- case streams
    tcases = emit(ctx, "XStreamConn", "XStreamConn_emit.cfg" if q else "XStreamConn_emit_thorough.cfg")
    hall = [json.loads(x) for x in emit(ctx, "XHop", "XHop_emit.cfg")]
    deep = 0
    if not q:
        h6 = emit(ctx, "XHop", "XHop_emit_thorough.cfg")
        deep = len(h6)
        hall6 = [json.loads(x) for x in rng.sample(h6, min(len(h6), 3000))]
    if q:
        # classes that are always represented (VERIF_SEED sample of each), plus a sample of the rest:
        #  A colliding id meets a proxy-made error reply or a late/duplicate answer;  B an answer races the end of its request;
        #  C decode A / read B / encode A on the re-encoding route;  D an upstream error answer is retried (retry_on route)
        #  E a body-less answer in a schedule that also has a dropped (late, duplicate, unknown-id) response
        def cls(c):
            f = features(c)
            if "bare" in f and f & {"dup", "ghost", "late", "tmo"}:
                return "E"
            if "uerr" in f:
                return "D"
            if "inter" in f and c.get("reenc"):
                return "C"
            if "race" in f or "racegone" in f:
                return "B"
            if "collision" in f and ("late" in f or "dup" in f) and "tmo" in f:
                return "A"
            return "rest"
        by = {}
        for c in hall:
            by.setdefault(cls(c), []).append(c)
        hcases = []
        for k, n in (("A", 400), ("B", 600), ("C", 450), ("D", 450), ("E", 500), ("rest", 600)):
            hcases += rng.sample(by.get(k, []), min(n, len(by.get(k, []))))
    else:
        hcases = hall + hall6
    rng.shuffle(hcases)
    tpath = os.path.join(ctx.tmp, "c02_table_cases.jsonl")
    open(tpath, "w").write("\n".join(tcases) + "\n")
    hpath = os.path.join(ctx.tmp, "c02_hop_cases.jsonl")
    with open(hpath, "w") as fh:
        for c in hcases:
            fh.write(json.dumps(c) + "\n")

    # ---- real executions
    binary = vlib.go_build("c02")
    ttraces, tres = run_shards(ctx, binary, "table", 2 if q else 6, ["-cases", tpath], 900)
    htraces, hres = run_shards(ctx, binary, "hop", 12 if q else 14, ["-cases", hpath], 1700)
    straces, sres = run_shards(ctx, binary, "storm", 4 if q else 12, ["-rounds", "25" if q else "120"], 1700)
    ptraces, pres = run_shards(ctx, binary, "h1", 2 if q else 6, ["-rounds", "12" if q else "80"], 1700)

    jobs = [("table", "XStreamConnTrace", t, "tnew") for t in ttraces] + \
           [("hop", "XHopTrace", t, "run") for t in htraces] + [("storm", "XHopTrace", t, "run") for t in straces] + \
           [("h1", "XHopTrace", t, "run") for t in ptraces]
    with ThreadPoolExecutor(max_workers=6) as ex:
        outs = list(ex.map(lambda j: validate(ctx, *j), jobs))

    parts = {}
    sampled = set()
    for (part, _, _, _), o in zip(jobs, outs):
        p = parts.setdefault(part, dict(events=0, runs=0))
        p["events"] += o["events"]; p["runs"] += o["runs"]
        ctx.cov["states"] += o["states"]; ctx.cov["transitions"] += o["generated"]
        ctx.cov["traces_validated_against_impl"] += o["runs"]
        if part not in sampled:
            sampled.add(part)
            ctx.sample({"part": part, "first_run": o["head"][:14]})
        for f in o["fails"]:
            if part == "table":
                sig = "C02:table:bolt:%s:%s" % (f["kind"], f["event"].get("ev"))
            else:
                sig = "C02:%s:%s" % (part, f["kind"])
            vlib.report_failure(ctx, sig, f)

    summ = [r for r in hres + sres + pres if r.get("summary")]
    skipped = sum(r.get("skipped", 0) for r in summ)
    lost = sum(r.get("lost", 0) for r in summ)
    runs = [r for r in hres if not r.get("summary")]
    storms = [r for r in sres if not r.get("summary")]
    coll = sum(r.get("collisions", 0) for r in runs)
    div = sum(1 for r in runs if r.get("diverged", 0))
    ctx.cov["hop"] = dict(schedules_enumerated=len(hall), schedules_enumerated_depth6=deep, schedules_run=len(runs), id_collisions_realised=coll,
                          schedules_with_unrealisable_step=div, response_vs_timeout_races_forced=sum(r.get("races", 0) for r in runs),
                          decode_read_encode_interleavings_forced=sum(r.get("inters", 0) for r in runs),
                          schedules_on_reencoding_route=sum(1 for r in runs if r.get("reenc")),
                          upstream_error_answers_retried=sum(r.get("retried_error_answers", 0) for r in runs),
                          schedules_on_retry_route=sum(1 for r in runs if r.get("svc") == "c02r"), skipped_after_lost_waits=skipped, lost_waits=lost)
    ctx.cov["storm"] = dict(rounds=len(storms), requests=sum(r.get("requests", 0) for r in storms),
                            error_replies=sum(r.get("errors", 0) for r in storms),
                            id_collisions=sum(r.get("collisions", 0) for r in storms), connections_on_reencoding_route=sum(r.get("reenc_conns", 0) for r in storms),
                            error_answers_retried=sum(r.get("error_answers_retried", 0) for r in storms), upstream_closes=sum(r.get("closed", 0) for r in storms))
    h1s = [r for r in pres if not r.get("summary")]
    ctx.cov["h1"] = dict(rounds=len(h1s), requests=sum(r.get("requests", 0) for r in h1s), error_replies=sum(r.get("errors", 0) for r in h1s),
                         broken_connections=sum(r.get("noreply", 0) for r in h1s))
    ctx.cov["table"] = dict(histories=len(tcases))
    ctx.cov["trace_events"] = {k: v["events"] for k, v in parts.items()}
    ctx.cov["evaluations"] = len(tcases) + len(runs) + ctx.cov["storm"]["requests"] + ctx.cov["h1"]["requests"]
    ctx.cov["distinct_nontrivial"] = len(tcases) + len([c for c in hcases if features(c)])
    ctx.cov["exhaustive"] = not q
    ctx.cov["rule"] = ("table: every history of <=%d ops (new/resp for any waiter's latest id/ghost id/reset/connreset) over 3 waiters, id counter "
                       "seeded at 2^32-2, replayed into the real bolt client stream connection; hop: every schedule of 5 steps (thorough: plus a VERIF_SEED sample of 3000 of the 6-step schedules) over 3 requests "
                       "on <=2 downstream connections (send with fresh or colliding id, long or short timeout, and for at most one request the instruction that the upstream answers it without a body / ans / dup / ghost / tmo / race, racegone = answer held in its handler while the timeout / the client's disconnect ends the request / inter = answer A decoded, answer B read and delivered on the same upstream connection, then A encoded / uerr = the upstream answers the current attempt with an error status and a body, which a retry_on route retries / close), "
                       "each on the plain route, on the route that adds headers both ways (proxy re-encodes from fields) and on the retry_on route "
                       "from XHop.tla (%d), quick = VERIF_SEED samples of the collision+timeout+late/dup, answer-races-end, decode/read/encode, retried-error-answer and body-less-answer-next-to-dropped-response classes and of the rest; storm: VERIF_SEED-randomised "
                       "pipelined clients on shared connections; h1: sequential HTTP/1.1 clients over pooled ping-pong upstream connections, 30%% of the "
                       "requests time out in the proxy before the upstream answers" % (5 if q else 6, len(hall)))
    if any(r.get("warm_failed") for r in summ) and not ctx.violations and not ctx.known_hits:
        raise vlib.Inconclusive("no request got through the proxy in the warm-up of a driver, and no mismatch was recorded")
    if skipped and not ctx.violations and not ctx.known_hits:
        raise vlib.Inconclusive("drivers skipped %d schedules after %d lost waits although no mismatch was found" % (skipped, lost))
    if runs and div * 2 > len(runs):
        raise vlib.Inconclusive("more than half of the schedules had an unrealisable step (%d/%d)" % (div, len(runs)))
    ctx.assumptions += ["bolt v1 on both sides of the proxy; one upstream host, one multiplexed upstream connection per pool",
                        "requests meant to be answered carry a 20 s timeout, requests meant to time out 120 ms (storm: 40-80 ms) and the upstream answers those only after the client saw the error",
                        "an error reply is accepted as 'produced for the request' when the request had a short timeout, was outstanding during an upstream close, or was sent while the pool was reconnecting after a close",
                        "table layer: responses are dispatched through stream.Client.OnData on the driver's goroutine (no concurrent Dispatch)",
                        "the harness peers use their own bolt v1 codec (harness/xc02), not the proxy's",
                        "a request without any reply is judged only in runs where the driver waited 30 s for it (first 3 such runs per driver process)"]
