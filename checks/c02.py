"""C02 Request/response correlation: nobody ever receives someone else's answer.
   spec/stream/XStreamConn.tla (+Trace): the client stream table of a multiplexed xprotocol connection (id allocation with
     the width and signedness of the protocol's id field as constants, key -> frame field -> key round trip, lookup/delete on
     response, local reset, connection reset) with five defect switches; every operation history enumerated by TLC is
     replayed into the real stream.NewStreamClient of bolt, boltv2, tars and dubbo, the id counter seeded next to every
     boundary of the protocol's id type (TABLE below), and validated by TLC.
   spec/stream/XHop.tla + XJudge.tla (+XHopTrace): the proxy hop (downstream id kept, fresh upstream id, id restored on
     the way back, error replies built from the shared request frame) with three defect switches; every schedule
     enumerated by TLC (requests on shared downstream connections with ids that collide with the proxy's upstream ids,
     answers in any order, late, duplicate, unknown ids, timeouts, upstream close) is realised on an in-process MOSN
     (bolt proxy) with a scripted bolt upstream and raw bolt clients, a VERIF_SEED sample of them a second time with
     bolt v2 on both sides (own codec package, buffers, id stamping); plus randomised concurrent storms. Every frame a
     client received is judged by TLC with XJudge!Verdict; the same judgement is applied to HTTP/1.1 clients over pooled
     ping-pong upstream connections whose exchanges are abandoned by timeouts."""
import json, os, random, re, subprocess, time
from concurrent.futures import ThreadPoolExecutor
import vlib

LEVEL = "model_checking"
FAM = "stream"

# table layer: protocol, name of the seeding point, value the 64-bit stream counter is seeded with (the first ids are
# base+1, base+2, ... in the protocol's id type), shift that puts this real boundary on the model's (see XStreamConnTrace),
# trace cfg (Start / Signed of the model's id type: wrap of an unsigned type, no boundary of the type, sign flip, -1 -> 0)
TABLE = [
    ("bolt",   "wrap32", 2**32 - 2, 0, "XStreamConnTrace.cfg"),              # uint32: 2^32-1, 0, 1
    ("bolt",   "sign31", 2**31 - 2, 8, "XStreamConnTrace_mid.cfg"),          # no boundary of uint32 (one of int32)
    ("boltv2", "wrap32", 2**32 - 2, 0, "XStreamConnTrace.cfg"),
    ("boltv2", "sign31", 2**31 - 2, 8, "XStreamConnTrace_mid.cfg"),
    ("tars",   "sign31", 2**31 - 2, 8, "XStreamConnTrace_signed.cfg"),       # int32: 2^31-1, -2^31, -2^31+1
    ("tars",   "wrap32", 2**32 - 2, 0, "XStreamConnTrace_signed_wrap.cfg"),  # int32: -1, 0, 1
    ("dubbo",  "wrap64", 2**64 - 2, 0, "XStreamConnTrace.cfg"),              # uint64 (the counter itself wraps): 2^64-1, 0, 1
    ("dubbo",  "sign63", 2**63 - 2, 8, "XStreamConnTrace_mid.cfg"),          # no boundary of uint64 (one of int64)
    ("dubbo",  "wrap32", 2**32 - 2, 8, "XStreamConnTrace_mid.cfg"),          # no boundary of uint64 (one of a 32-bit type)
]


def mismatches(txt):
    out = {}
    for m in re.finditer(r'<<\s*"MISMATCH",\s*(\d+),\s*"([^"]+)"\s*>>', txt):
        out.setdefault(int(m.group(1)), set()).add(m.group(2))
    return out


def model_checks(ctx):
    for mod, cfg in (("XStreamConn", "XStreamConn.cfg"), ("XStreamConn", "XStreamConn_signed.cfg"), ("XStreamConn", "XStreamConn_signed_wrap.cfg"),
                     ("XHop", "XHop.cfg")):
        r = vlib.run_tlc(ctx, FAM, mod, cfg)
        ctx.add_tlc(r)
    for mod, defects in (("XStreamConn", ("NoDelete", "ResetKeepsEntry", "ArrivalOrder", "KeyWiderThanWire", "SignLost")),
                         ("XHop", ("HijackIdFromFrame", "NoDelete", "ArrivalOrder", "RecycleWhileReferenced", "BodyAliasesReadBuffer", "LocalReplyKeepsOldBody", "DroppedResponseKeepsDecodeContext"))):
        for d in defects:
            cfg = "%s_defect_%s.cfg" % (mod, d)
            if vlib.run_tlc(ctx, FAM, mod, cfg, expect_ok=False)["ok"]:
                raise vlib.Inconclusive("%s model does not reject %s" % (mod, cfg))


def emit(ctx, mod, cfg):
    raw = os.path.join(ctx.tmp, "%s_%s.jsonl" % (mod, cfg))
    r = vlib.run_tlc(ctx, FAM, mod, cfg, workers=1, cases_to=raw, timeout=1500)
    ctx.add_tlc(r)
    return sorted(set(open(raw).read().splitlines()))


def features(case):
    """What makes a schedule interesting for correlation: id collisions, timeouts, late/duplicate/unknown replies, close."""
    f = set()
    late = set()
    for s in case["steps"]:
        if s["op"] == "send" and s.get("mode", 0) != 0:
            f.add("collision")
        if s["op"] == "send" and s.get("bare"):
            f.add("bare")
        if s["op"] == "tmo":
            f.add("tmo"); late.add(s["r"])
        if s["op"] == "ans" and s["r"] in late:
            f.add("late")
        if s["op"] in ("dup", "ghost", "close", "race", "racegone", "inter", "uerr"):
            f.add(s["op"])
    return f


def start_shards(ctx, binary, mode, shards, extra, timeout, tag=None):
    """Starts the shards of one driver mode; the returned function waits for them and returns (traces, results)."""
    procs = []
    env = vlib.go_env()
    env.update(VERIF_SEED=str(ctx.seed), VERIF_TIER=ctx.tier)
    tag = tag or mode
    for s in range(shards):
        t = os.path.join(ctx.tmp, "c02_%s_trace_%d.ndjson" % (tag, s))
        r = os.path.join(ctx.tmp, "c02_%s_res_%d.jsonl" % (tag, s))
        lg = open(os.path.join(ctx.tmp, "c02_%s_drv_%d.log" % (tag, s)), "w")
        p = subprocess.Popen(["timeout", "-k", "10", str(timeout), binary, "-mode", mode, "-trace", t, "-results", r,
                              "-shard", str(s), "-shards", str(shards)] + extra,
                             stdout=lg, stderr=subprocess.STDOUT, env=env, cwd=ctx.tmp)
        procs.append((p, t, r, lg))
    def wait():
        traces, results = [], []
        for p, t, r, lg in procs:
            rc = p.wait()
            lg.close()
            if rc != 0:
                raise vlib.Inconclusive("driver c02 -mode %s (%s) shard died rc=%s\n%s" % (mode, tag, rc, vlib.tail(lg.name)))
            traces.append(t)
            results += vlib.read_jsonl(r)
        return traces, results
    return wait


def run_shards(ctx, binary, mode, shards, extra, timeout, tag=None):
    return start_shards(ctx, binary, mode, shards, extra, timeout, tag)()


def run_table(ctx, binary, tpath, shards, timeout, parallel=10):
    """One driver process per (protocol, seeding point, shard); returns [(TABLE row, trace path)]."""
    env = vlib.go_env()
    env.update(VERIF_SEED=str(ctx.seed), VERIF_TIER=ctx.tier)
    def one(job):
        row, s = job
        proto, at, base, shift, _ = row
        stem = os.path.join(ctx.tmp, "c02_table_%s_%s_%d" % (proto, at, s))
        with open(stem + ".log", "w") as lg:
            rc = subprocess.call(["timeout", "-k", "10", str(timeout), binary, "-mode", "table", "-proto", proto, "-base", str(base),
                                  "-shift", str(shift), "-cases", tpath, "-trace", stem + ".ndjson", "-results", stem + ".jsonl",
                                  "-shard", str(s), "-shards", str(shards)], stdout=lg, stderr=subprocess.STDOUT, env=env, cwd=ctx.tmp)
        if rc != 0:
            raise vlib.Inconclusive("driver c02 -mode table -proto %s -base %d shard died rc=%s\n%s" % (proto, base, rc, vlib.tail(stem + ".log")))
        return row, stem + ".ndjson"
    with ThreadPoolExecutor(max_workers=parallel) as ex:
        return list(ex.map(one, [(row, s) for row in TABLE for s in range(shards)]))


def validate(ctx, part, module, trace, reset_ev, cfg=None):
    """TLC trace validation of one trace file; every MISMATCH / rejection becomes a failure of the run it lies in."""
    evs = vlib.read_jsonl(trace)
    if not evs:
        raise vlib.Inconclusive("empty trace %s" % trace)
    v = vlib.validate_trace(ctx, FAM, module, cfg or module + ".cfg", trace, timeout=1500)
    mm = mismatches(v["text"])
    if not v["accepted"] and not mm and v["matched"] is None:
        raise vlib.Inconclusive("trace validation of %s did not complete:\n%s" % (module, v["text"][-1500:]))
    fails = []
    starts = [i for i, e in enumerate(evs) if e["ev"] == reset_ev] + [len(evs)]
    def run_of(line):   # 1-based trace line -> slice of its run
        k = max(j for j in range(len(starts) - 1) if starts[j] < line) if line > starts[0] else 0
        return evs[starts[k]:starts[k + 1]], line - starts[k]
    for line, kinds in sorted(mm.items()):
        for k in sorted(kinds):
            fails.append((k, line))
    if v["matched"] is not None and v["matched"] < len(evs):
        fails.append(("trace-rejected:" + evs[v["matched"]]["ev"], v["matched"] + 1))
    out = []
    for kind, line in fails:
        rt, off = run_of(line)
        out.append(dict(part=part, kind=kind, at=off, event=evs[line - 1], run=rt[:400]))
    return dict(events=len(evs), runs=len(starts) - 1, states=v["distinct"], generated=v["generated"], fails=out, head=evs[:starts[1]] if len(starts) > 1 else evs[:12])


def run(ctx):
    q = ctx.quick()
    rng = random.Random(ctx.seed)
    model_checks(ctx)

    # ---- case streams
    tcases = emit(ctx, "XStreamConn", "XStreamConn_emit.cfg" if q else "XStreamConn_emit_thorough.cfg")
    hall = [json.loads(x) for x in emit(ctx, "XHop", "XHop_emit.cfg")]
    deep = 0
    if not q:
        h6 = emit(ctx, "XHop", "XHop_emit_thorough.cfg")
        deep = len(h6)
        hall6 = [json.loads(x) for x in rng.sample(h6, min(len(h6), 3000))]
    if q:
        # classes that are always represented (VERIF_SEED sample of each), plus a sample of the rest:
        #  A colliding id meets a proxy-made error reply or a late/duplicate answer;  B an answer races the end of its request;
        #  C decode A / read B / encode A on the re-encoding route;  D an upstream error answer is retried (retry_on route)
        #  E a body-less answer in a schedule that also has a dropped (late, duplicate, unknown-id) response
        def cls(c):
            f = features(c)
            if "bare" in f and f & {"dup", "ghost", "late", "tmo"}:
                return "E"
            if "uerr" in f:
                return "D"
            if "inter" in f and c.get("reenc"):
                return "C"
            if "race" in f or "racegone" in f:
                return "B"
            if "collision" in f and ("late" in f or "dup" in f) and "tmo" in f:
                return "A"
            return "rest"
        by = {}
        for c in hall:
            by.setdefault(cls(c), []).append(c)
        hcases = []
        for k, n in (("A", 400), ("B", 600), ("C", 450), ("D", 450), ("E", 500), ("rest", 600)):
            hcases += rng.sample(by.get(k, []), min(n, len(by.get(k, []))))
    else:
        hcases = (hall if len(hall) <= 120000 else rng.sample(hall, 120000)) + hall6    # thorough: a VERIF_SEED sample of 120000 of the 5-step schedules
    rng.shuffle(hcases)
    tpath = os.path.join(ctx.tmp, "c02_table_cases.jsonl")
    open(tpath, "w").write("\n".join(tcases) + "\n")
    hpath = os.path.join(ctx.tmp, "c02_hop_cases.jsonl")
    with open(hpath, "w") as fh:
        for c in hcases:
            fh.write(json.dumps(c) + "\n")
    # the same hop over bolt v2 (its own codec package, buffers and id stamping): a VERIF_SEED sample of the schedules above
    h2cases = rng.sample(hcases, min(len(hcases), 480 if q else 3000))
    h2path = os.path.join(ctx.tmp, "c02_hop2_cases.jsonl")
    with open(h2path, "w") as fh:
        for c in h2cases:
            fh.write(json.dumps(c) + "\n")

    # ---- real executions
    binary = vlib.go_build("c02")
    t0 = time.time()
    ttraces = run_table(ctx, binary, tpath, 1 if q else 3, 900)
    vlib.log("[c02] table drivers (%d connections kinds) %.1fs" % (len(TABLE), time.time() - t0)); t0 = time.time()
    htraces, hres = run_shards(ctx, binary, "hop", 12 if q else 14, ["-cases", hpath], 1700)
    vlib.log("[c02] hop drivers %.1fs" % (time.time() - t0)); t0 = time.time()
    # the bolt v2 schedules run next to the storms (9 driver processes, fewer than the hop phase)
    wait_h2 = start_shards(ctx, binary, "hop", 4 if q else 8, ["-cases", h2path, "-xproto", "boltv2"], 1700, tag="hop2")
    wait_s2 = start_shards(ctx, binary, "storm", 1 if q else 4, ["-rounds", "12" if q else "60", "-xproto", "boltv2"], 1700, tag="storm2")
    straces, sres = run_shards(ctx, binary, "storm", 4 if q else 12, ["-rounds", "25" if q else "120"], 1700)
    s2traces, s2res = wait_s2()
    h2traces, h2res = wait_h2()
    vlib.log("[c02] storm drivers, storm and hop drivers over bolt v2 %.1fs" % (time.time() - t0)); t0 = time.time()
    for t in h2traces + s2traces:
        # the runs meant for bolt v2 must have spoken it: every frame the harness peers read says which version it was
        if any(e.get("v2") is False for e in vlib.read_jsonl(t) if e["ev"] in ("urecv", "crecv")):
            raise vlib.Inconclusive("a bolt v2 run carried bolt v1 frames (%s)" % t)
    ptraces, pres = run_shards(ctx, binary, "h1", 2 if q else 6, ["-rounds", "12" if q else "80"], 1700)

    jobs = [("table:%s:%s" % (row[0], row[1]), "XStreamConnTrace", t, "tnew", row[4]) for row, t in ttraces] + \
           [("hop", "XHopTrace", t, "run") for t in htraces] + [("storm", "XHopTrace", t, "run") for t in straces] + \
           [("hop:boltv2", "XHopTrace", t, "run") for t in h2traces] + [("storm:boltv2", "XHopTrace", t, "run") for t in s2traces] + \
           [("h1", "XHopTrace", t, "run") for t in ptraces]
    t0 = time.time()
    with ThreadPoolExecutor(max_workers=8) as ex:
        outs = list(ex.map(lambda j: validate(ctx, *j), jobs))
    vlib.log("[c02] trace validation of %d files %.1fs" % (len(jobs), time.time() - t0))

    parts = {}
    sampled = set()
    for (part, *_), o in zip(jobs, outs):
        p = parts.setdefault(part, dict(events=0, runs=0))
        p["events"] += o["events"]; p["runs"] += o["runs"]
        ctx.cov["states"] += o["states"]; ctx.cov["transitions"] += o["generated"]
        ctx.cov["traces_validated_against_impl"] += o["runs"]
        if part not in sampled:
            sampled.add(part)
            ctx.sample({"part": part, "first_run": o["head"][:14]})
        for f in o["fails"]:
            if part.startswith("table:"):
                sig = "C02:%s:%s:%s" % (part, f["kind"], f["event"].get("ev"))   # C02:table:<proto>:<seeding point>:<kind>:<event>
            else:
                sig = "C02:%s:%s" % (part, f["kind"])
            vlib.report_failure(ctx, sig, f)

    summ = [r for r in hres + sres + pres + h2res + s2res if r.get("summary")]
    skipped = sum(r.get("skipped", 0) for r in summ)
    lost = sum(r.get("lost", 0) for r in summ)
    runs = [r for r in hres if not r.get("summary")]
    storms = [r for r in sres if not r.get("summary")]
    coll = sum(r.get("collisions", 0) for r in runs)
    div = sum(1 for r in runs if r.get("diverged", 0))
    ctx.cov["hop"] = dict(schedules_enumerated=len(hall), schedules_enumerated_depth6=deep, schedules_run=len(runs), id_collisions_realised=coll,
                          schedules_with_unrealisable_step=div, response_vs_timeout_races_forced=sum(r.get("races", 0) for r in runs),
                          decode_read_encode_interleavings_forced=sum(r.get("inters", 0) for r in runs),
                          schedules_on_reencoding_route=sum(1 for r in runs if r.get("reenc")),
                          upstream_error_answers_retried=sum(r.get("retried_error_answers", 0) for r in runs),
                          schedules_on_retry_route=sum(1 for r in runs if r.get("svc") == "c02r"), skipped_after_lost_waits=skipped, lost_waits=lost)
    runs2 = [r for r in h2res if not r.get("summary")]
    storms2 = [r for r in s2res if not r.get("summary")]
    ctx.cov["hop_boltv2"] = dict(schedules_run=len(runs2), id_collisions_realised=sum(r.get("collisions", 0) for r in runs2),
                                 schedules_with_unrealisable_step=sum(1 for r in runs2 if r.get("diverged", 0)),
                                 response_vs_timeout_races_forced=sum(r.get("races", 0) for r in runs2),
                                 decode_read_encode_interleavings_forced=sum(r.get("inters", 0) for r in runs2),
                                 schedules_on_reencoding_route=sum(1 for r in runs2 if r.get("reenc")),
                                 upstream_error_answers_retried=sum(r.get("retried_error_answers", 0) for r in runs2),
                                 storm_rounds=len(storms2), storm_requests=sum(r.get("requests", 0) for r in storms2))
    ctx.cov["storm"] = dict(rounds=len(storms), requests=sum(r.get("requests", 0) for r in storms),
                            error_replies=sum(r.get("errors", 0) for r in storms),
                            id_collisions=sum(r.get("collisions", 0) for r in storms), connections_on_reencoding_route=sum(r.get("reenc_conns", 0) for r in storms),
                            error_answers_retried=sum(r.get("error_answers_retried", 0) for r in storms), upstream_closes=sum(r.get("closed", 0) for r in storms))
    h1s = [r for r in pres if not r.get("summary")]
    ctx.cov["h1"] = dict(rounds=len(h1s), requests=sum(r.get("requests", 0) for r in h1s), error_replies=sum(r.get("errors", 0) for r in h1s),
                         broken_connections=sum(r.get("noreply", 0) for r in h1s))
    ctx.cov["table"] = dict(histories=len(tcases), connections={"%s@%s" % (r[0], r[1]): str(r[2]) for r in TABLE},
                            histories_replayed=len(tcases) * len(TABLE))
    ctx.cov["trace_events"] = {k: v["events"] for k, v in parts.items()}
    ctx.cov["evaluations"] = len(tcases) * len(TABLE) + len(runs) + len(runs2) + ctx.cov["hop_boltv2"]["storm_requests"] + ctx.cov["storm"]["requests"] + ctx.cov["h1"]["requests"]
    ctx.cov["distinct_nontrivial"] = len(tcases) + len([c for c in hcases if features(c)])
    ctx.cov["exhaustive"] = False
    ctx.cov["rule"] = ("table: every history of <=%d ops (new/resp for any waiter's latest id/ghost id/reset/connreset) over 3 waiters, each replayed into the real client "
                       "stream connection of bolt and boltv2 (counter seeded at 2^32-2 and 2^31-2), tars (2^31-2: sign flip of its int32 id, 2^32-2: -1 -> 0) and dubbo (2^64-2: the counter "
                       "itself wraps, 2^63-2, 2^32-2); hop: every schedule of 5 steps (thorough: plus a VERIF_SEED sample of 3000 of the 6-step schedules) over 3 requests "
                       "on <=2 downstream connections (send with fresh or colliding id, long or short timeout, and for at most one request the instruction that the upstream answers it without a body / ans / dup / ghost / tmo / race, racegone = answer held in its handler while the timeout / the client's disconnect ends the request / inter = answer A decoded, answer B read and delivered on the same upstream connection, then A encoded / uerr = the upstream answers the current attempt with an error status and a body, which a retry_on route retries / close), "
                       "each on the plain route, on the route that adds headers both ways (proxy re-encodes from fields) and on the retry_on route "
                       "from XHop.tla (%d); a VERIF_SEED sample of the schedules run (quick 480, thorough 3000) is realised a second time with bolt v2 on both sides of the proxy, plus storm rounds over bolt v2; quick = VERIF_SEED samples of the collision+timeout+late/dup, answer-races-end, decode/read/encode, retried-error-answer and body-less-answer-next-to-dropped-response classes and of the rest; storm: VERIF_SEED-randomised "
                       "pipelined clients on shared connections; h1: sequential HTTP/1.1 clients over pooled ping-pong upstream connections, 30%% of the "
                       "requests time out in the proxy before the upstream answers" % (5 if q else 6, len(hall)))
    if any(r.get("warm_failed") for r in summ) and not ctx.violations and not ctx.known_hits:
        raise vlib.Inconclusive("no request got through the proxy in the warm-up of a driver, and no mismatch was recorded")
    if skipped and not ctx.violations and not ctx.known_hits:
        raise vlib.Inconclusive("drivers skipped %d schedules after %d lost waits although no mismatch was found" % (skipped, lost))
    if runs and div * 2 > len(runs):
        raise vlib.Inconclusive("more than half of the schedules had an unrealisable step (%d/%d)" % (div, len(runs)))
    div2 = ctx.cov["hop_boltv2"]["schedules_with_unrealisable_step"]
    if runs2 and div2 * 2 > len(runs2):
        raise vlib.Inconclusive("more than half of the bolt v2 schedules had an unrealisable step (%d/%d)" % (div2, len(runs2)))
    ctx.assumptions += ["hop, storm: bolt v1 (all schedules) or bolt v2 (sample) on both sides of the proxy; one upstream host, one multiplexed upstream connection per pool",
                        "requests meant to be answered carry a 20 s timeout, requests meant to time out 120 ms (storm: 40-80 ms) and the upstream answers those only after the client saw the error",
                        "an error reply is accepted as 'produced for the request' when the request had a short timeout, was outstanding during an upstream close, or was sent while the pool was reconnecting after a close",
                        "table layer: responses are dispatched through stream.Client.OnData on the driver's goroutine (no concurrent Dispatch); the peer echoes the id field it read off the request frame (hand-written readers for all four protocols); "
                        "request frames of dubbo and tars are made by decoding a template with the codec under test, tars payloads are packed with the TarsGo library",
                        "the harness peers use their own bolt v1/v2 codec (harness/xc02), not the proxy's",
                        "a request without any reply is judged only in runs where the driver waited 30 s for it (first 3 such runs per driver process)"]
