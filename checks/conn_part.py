"""Life cycle of ONE network connection object (spec/network/Connection.tla + ConnectionTrace.tla), a part of C09: what the
pools (and the gauges of C10) take for granted of pkg/network/connection.go - whatever closes a connection (peer FIN / RST
seen by the read loop, the read filter, a local Close(NoFlush, ev) from one or two goroutines, Close(FlushWrite), the idle
checker, the write deadline) every listener gets the close event exactly once, it is the first closer's, the socket is
closed by then, nothing that contradicts it follows, a Write next to / after a close errs or drops but neither panics nor
blocks, and Close(FlushWrite) lets what was written before it reach the peer before the end of the stream.

1. TLC checks the implementation-shaped model (read loop, Write under tryMutex, Close with its CAS / stop channel / raw
   close / listener loop, Connect; the write loop the code no longer starts as a model-only variant) over every script of the
   bounded universe incl. free interleavings, and must reject every named defect switch.
2. TLC enumerates the scripts (sequences of groups of 1-2 racing operations); harness/cmd/c09 -mode conn realises each on
   REAL connection objects over loopback TCP (server side set up like activeListener does, client side Connect()), races
   released from a spin barrier and repeated.
3. TLC validates every recorded run against ConnectionTrace (soft expectations)."""
import bisect
import concurrent.futures as cf
import json, os, re
import vlib

FAM = "network"
DEFECTS = (("NoCAS", "Connection_defect_NoCAS.cfg"), ("EventBeforeCAS", "Connection_defect_EventBeforeCAS.cfg"),
           ("EventBeforeRawClose", "Connection_defect_EventBeforeRawClose.cfg"),
           ("TypeFromSharedField", "Connection_defect_TypeFromSharedField.cfg"),
           ("CloseTakesWriteLock", "Connection_defect_CloseTakesWriteLock.cfg"),
           ("FlushNeverCloses", "Connection_defect_FlushNeverCloses.cfg"),
           ("FlushDropsQueued", "Connection_defect_FlushDropsQueued.cfg"),
           ("WriteAfterClosePanics", "Connection_defect_WriteAfterClosePanics.cfg"),
           ("WriteAfterClosePanics(write loop)", "Connection_loop_defect_WriteAfterClosePanics.cfg"),
           ("StartBeforeConnectedEvent", "Connection_defect_StartBeforeConnectedEvent.cfg"),
           ("TimeoutEventAfterIdleClose", "Connection_defect_TimeoutEventAfterIdleClose.cfg"))
MM = re.compile(r'<<\s*"MISMATCH",\s*(\d+),\s*"([^"]+)"\s*>>')
CLOSERS = {"pc", "pf", "pr", "cn", "ce", "cf", "wt", "idle"}
# Deviations of the code the model names (defect switches of the same name are rejected by TLC) and the driver shows on
# every run of the kind; recorded in the evidence, not part of the verdict until they are entered as findings:
#   read-timeout-after-close  doRead's callback loop goes on after the idle checker (first listener) closed the connection:
#                             the listeners behind it get OnReadTimeout after LocalClose (TimeoutEventAfterIdleClose)
#   connected-after-close     Connect() starts the read loop before it tells the listeners: a close event (peer FIN / data on
#                             which the filter closes, right after the accept) can overtake ConnectedFlag (StartBeforeConnectedEvent);
#                             rare by itself, every time with a slow first listener (C09_CONN_EXPERIMENTS=1)
OBSERVED_NOT_JUDGED = {"read-timeout-after-close", "connected-after-close"}


def _cases(ctx, module, cfg, name):
    raw = os.path.join(ctx.tmp, "conn_raw_%s.jsonl" % name)
    r = vlib.run_tlc(ctx, FAM, module, cfg, workers=1, cases_to=raw, timeout=900)
    return r, sorted(set(open(raw).read().splitlines()))


def _class(cls):
    """signature class of a run: side + the closers of the group that closes the connection (what races what)"""
    side, _, gs = cls.partition(":")
    for g in gs.split(";"):
        cl = sorted(CLOSERS & set(re.split(r"[|(]", g)))
        if cl:
            return "%s:%s" % (side, "+".join(cl))
    return "%s:no-closer" % side


def run(ctx, pid="C09"):
    q = ctx.quick()
    import random
    rng = random.Random(ctx.seed * 104729 + 5)

    # 1 + 2. model checks, defect cfgs, case enumeration: all TLC runs side by side
    tl = {}
    with cf.ThreadPoolExecutor(max_workers=max(4, vlib.NCPU // 2)) as ex:
        tl["mc"] = ex.submit(vlib.run_tlc, ctx, FAM, "ConnectionMC" if q else "ConnectionMCDeep",
                             "Connection.cfg" if q else "Connection_thorough.cfg", workers=4 if q else None, timeout=1500)
        tl["loop"] = ex.submit(vlib.run_tlc, ctx, FAM, "ConnectionMC", "Connection_loop_quick.cfg" if q else "Connection_loop.cfg",
                               workers=4, timeout=1500)
        for d, cfg in DEFECTS:
            tl["d:" + d] = ex.submit(vlib.run_tlc, ctx, FAM, "ConnectionMC", cfg, workers=2, timeout=900, expect_ok=False)
        tl["c3"] = ex.submit(_cases, ctx, "ConnectionMC3", "Connection_cases_quick.cfg", "c3")
        if not q:     # scripts of four groups: thorough tier only (their enumeration alone costs 10 s)
            tl["c4"] = ex.submit(_cases, ctx, "ConnectionMCDeep", "Connection_cases_deep.cfg", "c4")
        tl["ct"] = ex.submit(_cases, ctx, "ConnectionMC", "Connection_cases_timed.cfg", "ct")
        res = {k: f.result() for k, f in tl.items()}
    ctx.add_tlc(res["mc"]); ctx.add_tlc(res["loop"])
    for d, _ in DEFECTS:
        rr = res["d:" + d]
        if rr["ok"] or not (rr["violated"] or any("Deadlock" in e for e in rr["errors"])):
            raise vlib.Inconclusive("Connection does not reject defect " + d)
    (r3, base), (rt, timed) = res["c3"], res["ct"]
    r4, deep = res.get("c4", (None, []))
    for r in (r3, r4, rt):
        if r:
            ctx.add_tlc(r)
    n3, n4 = len(base), len(deep)
    lines = base + deep
    rng.shuffle(lines)
    cases = os.path.join(ctx.tmp, "conn_cases.jsonl")
    with open(cases, "w") as fo:
        fo.write("\n".join(lines) + "\n")
    tcases = os.path.join(ctx.tmp, "conn_cases_timed.jsonl")
    with open(tcases, "w") as fo:
        fo.write("\n".join(timed) + "\n")
    vlib.log("[conn] scripts: %d of <= 3 groups (all) + %d with 4 groups + %d of the clock" % (n3, n4, len(timed)))

    # A verdict needs behaviour that shows again (DESIGN 2.2): the races of this part are not forced, so a mismatch seen in
    # one pass only (once in ~10^5 runs under heavy machine load) is re-run; what does not show a second time is noted, not judged.
    reps = "3" if q else "12"

    def one_pass(tagp):
        found = []
        nruns = nops = nab = nraces = nguided = 0
        kinds, observed = {}, {}
        outcomes = {}
        # 3. real connection objects
        binary = vlib.go_build("c09")
        shards = 8 if q else 12
        reps = "3" if q else "12"
        jobs = []
        for s in range(shards):
            t = os.path.join(ctx.tmp, "conn-%s-%d.ndjson" % (tagp, s))
            jobs.append(("plain", t, ["-mode", "conn", "-cases", cases, "-trace", t, "-shard", str(s), "-shards", str(shards), "-reps", reps]))
        t = os.path.join(ctx.tmp, "conn-%s-timed.ndjson" % tagp)
        jobs.append(("clock", t, ["-mode", "conn", "-timed", "-cases", tcases, "-trace", t, "-reps", reps]))
        if os.environ.get("C09_CONN_EXPERIMENTS"):
            t = os.path.join(ctx.tmp, "conn-%s-exp.ndjson" % tagp)
            jobs.append(("experiment", t, ["-mode", "conn", "-experiment", "slowconnect", "-trace", t]))
        with cf.ThreadPoolExecutor(max_workers=len(jobs)) as ex:
            for f in [ex.submit(vlib.run_driver, ctx, binary, j[2], 1500) for j in jobs]:
                f.result()

        # 4. TLC validates every recorded run
        def validate(j):
            return vlib.validate_trace(ctx, FAM, "ConnectionTrace", "ConnectionTrace.cfg", j[1], timeout=1500)
        with cf.ThreadPoolExecutor(max_workers=max(2, vlib.NCPU // 2)) as ex:
            results = list(ex.map(validate, jobs))

        for j, v in zip(jobs, results):
            mode = j[0]
            evs = vlib.read_jsonl(j[1])
            ctx.cov["states"] += v["distinct"]; ctx.cov["transitions"] += v["generated"]
            mm = [(int(a), b) for a, b in MM.findall(v["text"])]
            if not v["accepted"] and not mm and v["matched"] is None:
                raise vlib.Inconclusive("connection trace validation did not complete:\n%s" % v["text"][-1200:])
            starts = [i for i, e in enumerate(evs) if e["ev"] == "conn"]
            nruns += len(starts)
            nops += sum(1 for e in evs if e["ev"] == "begin")
            nab += sum(1 for e in evs if e["ev"] == "note" and e.get("what") == "abandon")
            nguided += sum(e.get("n", 0) for e in evs if e["ev"] == "note" and e.get("what") == "guided")
            for a, b in zip(starts, starts[1:] + [len(evs)]):
                run_ = evs[a:b]
                groups = [g.split("|") for g in run_[0]["cls"].partition(":")[2].split(";")]
                if any(len(CLOSERS & set(g)) == 2 for g in groups):
                    nraces += 1
                    first = next((e["e"] for e in run_ if e["ev"] == "lev" and e["e"] not in ("ConnectedFlag", "ConnectFailed", "OnReadTimeout")), None)
                    outcomes.setdefault(run_[0]["cls"], set()).add(first)
            if mode == "plain" and len(ctx.cov["samples"]) < 6 and not any(isinstance(x, dict) and x.get("part") == "conn" for x in ctx.cov["samples"]):
                ctx.sample({"part": "conn", "trace_head": evs[:12]})

            def fail(line, kind):
                si = bisect.bisect_right(starts, line - 1) - 1
                a = starts[si] if si >= 0 else 0
                b = starts[si + 1] if si + 1 < len(starts) else len(evs)
                cls = _class(evs[a].get("cls", "?"))
                if kind in OBSERVED_NOT_JUDGED or mode == "experiment":
                    observed[kind] = observed.get(kind, 0) + 1
                    return
                sig = "%s:conn:%s:%s" % (pid, kind, cls)
                found.append((sig, dict(mode=mode, line=line, script=evs[a].get("cls"), run=evs[a:b])))
                kinds[sig] = kinds.get(sig, 0) + 1
            for line, kind in mm:
                fail(line, kind)
            if v["matched"] is not None and v["matched"] < len(evs):
                fail(v["matched"] + 1, "trace-rejected:" + evs[v["matched"]]["ev"])
        return found, dict(nruns=nruns, nops=nops, nab=nab, nraces=nraces, nguided=nguided, kinds=kinds, observed=observed, outcomes=outcomes)

    found, st = one_pass("a")
    if found:
        found2, st2 = one_pass("b")
        again = set(sig for sig, _ in found2)
        for sig, det in found + found2:
            if sig in again and sig in set(x for x, _ in found):
                vlib.report_failure(ctx, sig, det)
        once = sorted(set(sig for sig, _ in found + found2) - (again & set(x for x, _ in found)))
        for sig in once:
            ctx.notes.append("conn: %s seen in one of two passes only: not reproduced, not judged" % sig)
    nruns, nops, nab, nraces, nguided = st["nruns"], st["nops"], st["nab"], st["nraces"], st["nguided"]
    kinds, observed, outcomes = st["kinds"], st["observed"], st["outcomes"]
    if nruns == 0 or nops == 0:
        raise vlib.Inconclusive("no connection scripts were run")
    both = sum(1 for s in outcomes.values() if len(s) > 1)
    ctx.cov["conn"] = dict(scripts=dict(upto3=n3, with4=n4, clock=len(timed)),
                           runs=nruns, operations=nops, abandoned=nab, runs_with_racing_closers=nraces, groups_guided_through_the_close_gate=nguided,
                           racing_closer_scripts=len(outcomes), racing_closer_scripts_both_winners_seen=both,
                           observed_not_judged=observed, mismatch_kinds=kinds,
                           model=dict(direct=res["mc"]["distinct"], write_loop=res["loop"]["distinct"], defects_rejected=len(DEFECTS)))
    ctx.cov["traces_validated_against_impl"] += nruns
    ctx.cov["evaluations"] += nops
    ctx.cov["distinct_nontrivial"] += n3 + len(deep) + len(timed)
    ctx.cov["rule"] += ("; the connection object itself (network/Connection): every script of <= %d groups of 1-2 racing operations over {peer sends / sends a "
                        "chunk on which the read filter closes / FIN / RST, Write, Close(NoFlush, LocalClose), Close(NoFlush, OnWriteErrClose), Close(FlushWrite)} "
                        "(<= 2 chunks, <= 2 writes, <= 2 local closers, one group after the closing one), server side and client side (Connect alone, racing a peer "
                        "operation, refused), plus %d scripts of the clock (idle checker, write deadline), TLC-enumerated and run on real connection objects over "
                        "loopback TCP, races repeated %s times") % (3 if q else 4, len(timed), reps)
    for k, n in sorted(observed.items()):
        ctx.notes.append("conn: %s observed %d times (named deviation of the code, not judged)" % (k, n))
    ctx.assumptions += [
        "connection runs: the peer is a plain net.Conn of the driver; 'settled' between the groups of a script = close events at both listeners and the end of the stream at the peer, or every chunk delivered (4 s deadline), then 0.3 ms of grace",
        "racing operations are released from a spin barrier (all begun before any runs) and the script is repeated; which closer wins is not asserted, only that the event is one of the possible first closers'",
        "clock scripts run with types.DefaultConnReadTimeout = 30 ms / DefaultConnWriteTimeout = 80 ms; idle checker armed for 2 read deadlines; the write-deadline Write is 24 MB to a peer that does not read",
        "panics recovered inside Close()/Write() are counted through pkg/log's DefaultLogger (the only place they are reported)",
        "the write loop of connection.go is never started by the code (checkUseWriteLoop() returns false): modelled, not executed",
    ]
    vlib.log("[conn] %d runs (%d with racing closers; %d of %d racing-closer scripts saw both winners), %d operations validated, %d abandoned" % (
        nruns, nraces, both, len(outcomes), nops, nab))


run_part = run
