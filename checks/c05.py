"""C05 Load balancers return only current, healthy members of the cluster.
   spec/cluster/LBChoice.tla (+Trace): contract every policy must satisfy; histories enumerated by TLC are
   replayed into real clusters for all eight policies (B1) and the recorded answers validated by TLC (B2).
   spec/cluster/Snapshot.tla (+Trace): pointer-swap design model-checked incl. defect switches; real
   concurrent lookups vs UpdateHosts validated with the publish hooks."""
import json, os, re
import vlib
import lbscan_part

LEVEL = "model_checking"


def mismatches(txt):
    out = {}
    for m in re.finditer(r'<<\s*"MISMATCH",\s*(\d+),\s*"([^"]+)"\s*>>', txt):
        out.setdefault(int(m.group(1)), set()).add(m.group(2))
    return out


def run(ctx):
    q = ctx.quick()
    import random
    rng = random.Random(ctx.seed)
    cases = os.path.join(ctx.tmp, "hist.jsonl")
    seen = set()
    plan = [("LBChoice.cfg", None), ("LBChoice_d4.cfg", 2000)] if q else [("LBChoice_d4.cfg", None), ("LBChoice_thorough.cfg", None)]
    sampled = False
    with open(cases, "w") as fo:
        for cfg, cap in plan:
            raw = os.path.join(ctx.tmp, "raw_" + cfg + ".jsonl")
            r = vlib.run_tlc(ctx, "cluster", "LBChoice", cfg, workers=1, cases_to=raw, timeout=1500)
            ctx.add_tlc(r)
            lines = sorted(set(open(raw).read().splitlines()) - seen)
            if cap is not None and len(lines) > cap:
                # quick tier: keep every history of the shape sethosts;choose;<any op>;choose (a context that survives a
                # change of host set / health: the retry path) and a VERIF_SEED-chosen sample of the rest
                def retry_shape(ln):
                    ops = [o["op"] for o in json.loads(ln)["ops"]]
                    return len(ops) == 4 and ops[0] == "sethosts" and ops[1] == "choose"
                keep = [ln for ln in lines if retry_shape(ln)]
                rest = [ln for ln in lines if not retry_shape(ln)]
                lines = keep + rng.sample(rest, min(cap, len(rest)))
                sampled = True
            for ln in lines:
                seen.add(ln)
                fo.write(ln + "\n")
    r = vlib.run_tlc(ctx, "cluster", "Snapshot", "Snapshot.cfg")
    ctx.add_tlc(r)
    for d in ("Snapshot_defect1.cfg", "Snapshot_defect2.cfg"):
        if vlib.run_tlc(ctx, "cluster", "Snapshot", d, expect_ok=False)["ok"]:
            raise vlib.Inconclusive("Snapshot model does not reject " + d)

    binary = vlib.go_build("c05")
    htrace = os.path.join(ctx.tmp, "hist.ndjson")
    strace = os.path.join(ctx.tmp, "swap.ndjson")
    vlib.run_driver(ctx, binary, ["-mode", "hist", "-cases", cases, "-trace", htrace, "-reps", "60" if q else "200"], timeout=1800)
    vlib.run_driver(ctx, binary, ["-mode", "swap", "-trace", strace, "-reps", "300" if q else "3000", "-lookers", "6"], timeout=1800)
    # the same through the cluster manager: lookups by cluster name vs host replacement/append/removal and cluster updates
    mtrace = os.path.join(ctx.tmp, "mswap.ndjson")
    vlib.run_driver(ctx, binary, ["-mode", "mswap", "-trace", mtrace, "-reps", "240" if q else "2400", "-lookers", "6"], timeout=1800)

    for mod, trace, part in (("LBChoiceTrace", htrace, "hist"), ("SnapshotTrace", strace, "swap"), ("SnapshotTrace", mtrace, "mswap")):
        evs = vlib.read_jsonl(trace)
        v = vlib.validate_trace(ctx, "cluster", mod, mod + ".cfg", trace, timeout=2400)
        ctx.cov["traces_validated_against_impl"] += sum(1 for e in evs if e["ev"] == "new")
        ctx.cov["evaluations"] += sum(e.get("n", 1) for e in evs if e["ev"] in ("choose", "lend"))
        ctx.cov["states"] += v["distinct"]; ctx.cov["transitions"] += v["generated"]
        ctx.cov.setdefault("trace_events", {})[part] = len(evs)
        ctx.sample({"part": part, "trace_head": evs[:6]})
        mm = mismatches(v["text"])
        if not v["accepted"] and not mm and v["matched"] is None:
            raise vlib.Inconclusive("trace validation of %s did not complete:\n%s" % (mod, v["text"][-1500:]))
        pol_at = {}
        cur = None; start = 0
        for i, e in enumerate(evs, 1):
            if e["ev"] == "new":
                cur = e.get("policy"); start = i
            pol_at[i] = (cur, start)
        def fail(line, kind):
            pol, st = pol_at.get(line, (None, 0))
            sig = "C05:%s:%s:%s" % (part, pol, kind)
            hist = evs[st - 1:line] if part == "hist" else evs[max(0, line - 8):line]
            vlib.report_failure(ctx, sig, dict(line=line, policy=pol, history=hist))
        for line, kinds in sorted(mm.items()):
            for k in sorted(kinds):
                fail(line, k)
        if v["matched"] is not None and v["matched"] < len(evs):
            fail(v["matched"] + 1, "trace-rejected:" + evs[v["matched"]]["ev"])
    # concurrent lookups on one balancer object, stepped through TLC-enumerated interleavings (LBScan.tla)
    lbscan_part.run_part(ctx, "C05")
    ctx.cov["distinct_nontrivial"] = len(seen) * 8
    ctx.cov["rule"] = ("every operation history of length MaxOps ending in choose over SetHosts(any member set, any healthy subset)/"
                       "Flip/Choose enumerated by TLC from LBChoice, replayed for each of the 8 policies; each choose = N real "
                       "ChooseHost calls (fresh context; every 4th re-enters with the same context); distinct = histories x policies")
    ctx.cov["exhaustive"] = not sampled
    ctx.assumptions += ["maglev is given a route with a hash policy (its documented precondition)",
                        "host weights fixed per host id (h1=h2=1, h3=2, h4=100) so member sets cover equal and unequal weights"]
