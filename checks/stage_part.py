"""The stage manager (pkg/stagemanager), a part of C11: the life cycle of ONE MOSN process over histories of more than one
life-cycle event - what the signal points of Shutdown.tla / the hand-over cases never contain (each of them has exactly one
event: one SIGTERM, one upgrade).

   spec/server/StageManager.tla (+ StageRules.tla): the state machine in the shape of the code - main (Run / WaitFinish /
   Stop) and the three notifier goroutines (signal goroutine, SIGINT goroutine, reconfigure listener) with NoticeStop's
   steps, runReload (fork may fail, 5 s wait for the new server, token channel), runUpgrade (no handler / handler fails:
   resume; handler succeeds: release main), the early stop on the notifier's goroutine, the WaitGroup (a second Done
   panics), exit codes; the environment delivers <= 3 notices, decides outcomes, and may deliver a notice while app.Start,
   app.Shutdown or the upgrade handler runs.  Contract on top: DrainBeforeClose (no app.Close without app.Shutdown unless
   immediate stop / start-up failure / the upgrade handler succeeded), CloseOnce, NothingAfterClose, ReleasedForCause,
   FailedUpgradeTransparent (a waiting server with no notice in progress is the server that came out of Run()), Terminates.
   Five named deviations are rejected by TLC.

   1. TLC checks the model with free interleaving (quick: 2 notices, thorough: 3) and rejects every defect switch.
   2. TLC enumerates every maximal history with the environment restricted to quiet moments (what a driver can realise),
      together with the observable events the model predicts between the environment's steps.
   3. harness/cmd/c11 -mode stage runs each history in a process of its own on the REAL stagemanager (exported API only,
      recording Application / upgrade handler / stage hooks); the child waits between two environment steps for exactly the
      predicted events and records everything; exit status from the parent.
   4. TLC validates every recorded life against StageManagerTrace (soft expectations = the contract);
      the recorded per-thread event sequences are compared with the model's prediction (disagreement without a contract
      mismatch is SPEC-DRIFT: a note, not a verdict); lives with a failed upgrade / reload at a quiet moment are compared
      with the life without it (must be the same calls on the application, the same exit)."""
import concurrent.futures as cf
import json, os, random, re, time
import vlib

FAM = "server"
DEFECTS = ("StickyDrainedFlag", "CloseWithoutShutdown", "ResumeKeepsUpgradingState", "FailedUpgradeReleasesMain", "LateStopActionRead")
MM = re.compile(r'<<\s*"MISMATCH",\s*(\d+),\s*"([^"]+)"\s*>>')
NOT_CONTRACT = {"exit-status", "close-argument", "getstate-differs-from-callbacks"}
MAX_CLASSES_PER_KIND = 6
FAILED_BLOCKS = (("D:upg", "R:handler:fail"), ("D:hup", "T"), ("D:hupff", "T"))


def env_steps(steps):
    return [s for s in steps if "|" not in s and not s.startswith("exit:")]


def klass(c):
    """history class of a signature: birth + the environment's steps (the release of app.Start right after the birth and
       the release of the last app.Shutdown are in nearly every history and are left out)"""
    env = ["t5" if s == "T" else s[2:].replace(":", "-") for s in env_steps(c["steps"])]
    if env and env[0] == "start":
        env = env[1:]
    if env and env[-1] == "shutdown":
        env = env[:-1]
    return c["birth"] + "/" + (".".join(env) or "-")


def per_thread(labels):
    out = {}
    for lb in labels:
        if "|" in lb:
            t, x = lb.split("|", 1)
            out.setdefault(t, []).append(x)
    return out


def quiet_blocks(c):
    """positions (in the step list) of failed upgrade / reload attempts that begin while the server is simply running:
       Run() is over, every earlier notice has returned, nothing of a stop has begun"""
    steps = c["steps"]
    blocks = FAILED_BLOCKS + ((("D:upg",),) if c["birth"] == "nohandler" else ())
    out = []
    for i, s in enumerate(steps):
        for b in blocks:
            if s != b[0]:
                continue
            before = steps[:i]
            if "main|m:run.end" not in before or "main|m:wait.end" in before or any("app:Shutdown" in x for x in before):
                continue
            pending = 0
            for x in before:
                if x.startswith("D:"):
                    pending += 1
                elif x.endswith("|ret"):
                    pending -= 1
            if pending:
                continue
            lane = "rc" if b[0] == "D:upg" else "sig"
            j, k, clean = i + 1, 1, True
            while j < len(steps) and steps[j] != lane + "|ret":
                if "|" not in steps[j]:                 # a step of the environment: it must be the attempt's own next one
                    if k < len(b) and steps[j] == b[k]:
                        k += 1
                    else:
                        clean = False
                        break
                elif not steps[j].startswith(lane + "|"):   # another thread moves: not a quiet attempt
                    clean = False
                    break
                j += 1
            if clean and j < len(steps) and k == len(b):
                out.append((i, j))
    return out


E2E_PRE_QUICK = ("none", "upg-stubfail", "upg-nohandler")
E2E_PRE_THOROUGH = ("upg-realfail", "hupff")     # the real ReconfigureHandler with nobody listening (10 s), a reload whose fork fails (5 s)
E2E_PHASES = ("wait", "resp")                     # (hdr / body: the open findings of the graceful stop itself, see the in-process part)


def e2e_sig(kind, runev, rt, idx):
    return ["C11:stage:e2e-%s:%s.term:phase=%s" % (kind, runev.get("pre"), runev.get("phase"))]


def e2e(ctx, binary, validate):
    """graceful stop after an earlier event that did not come off, through the real stage manager with the real Mosn as its
       Application, requests in flight (harness/cmd/c11/stage_e2e.go); validated against ShutdownTrace like the in-process trials"""
    pres = E2E_PRE_QUICK + (() if ctx.quick() else E2E_PRE_THOROUGH)
    cases = [dict(id=i + 1, pre=pre, ph=ph) for i, (pre, ph) in enumerate((a, b) for a in pres for b in E2E_PHASES)]
    cpath = os.path.join(ctx.tmp, "stage_e2e_cases.jsonl")
    with open(cpath, "w") as fh:
        for c in cases:
            fh.write(json.dumps(c) + "\n")
    tpath, rpath = os.path.join(ctx.tmp, "stage_e2e_trace.ndjson"), os.path.join(ctx.tmp, "stage_e2e_res.jsonl")
    t0 = time.time()
    vlib.run_driver(ctx, binary, ["-mode", "stagee2e", "-cases", cpath, "-trace", tpath, "-results", rpath], timeout=600)
    results = vlib.read_jsonl(rpath)
    vlib.log("[c11] stage manager end to end: %d lives in %.1fs" % (len(results), time.time() - t0))
    ab = [r for r in results if r.get("abandoned")]
    if ab:
        ctx.notes.append("stage manager end to end: %d of %d lives abandoned before the signal (set-up failure, not judged)" % (len(ab), len(results)))
    if len(results) != len(cases) or len(ab) * 4 > len(cases):
        raise vlib.Inconclusive("stage manager end to end: %d of %d lives run, %d abandoned" % (len(results), len(cases), len(ab)))
    before = len(ctx.violations) + len(ctx.known_hits)
    evs = validate(ctx, [tpath], "ShutdownTrace", e2e_sig, "stage-e2e")
    for need in ("onshutdown", "drain", "notice", "exit"):
        # (a stop that skips the drain has no drain events: that is a recorded mismatch, not a missing hook)
        if not any(e["ev"] == need for e in evs) and len(ctx.violations) + len(ctx.known_hits) == before:
            raise vlib.Inconclusive("stage manager end to end: no %s event recorded" % need)
    ctx.cov["stage_manager"]["end_to_end_lives"] = len(cases) - len(ab)
    ctx.cov["distinct_nontrivial"] = ctx.cov.get("distinct_nontrivial", 0) + len(cases) - len(ab)


def run(ctx, binary=None, validate=None):
    q = ctx.quick()
    rnd = random.Random(ctx.seed * 7919 + 11)
    t_part = time.time()
    # ---------- 1 + 2. the model, its defect switches, the histories: all TLC runs side by side
    raw = os.path.join(ctx.tmp, "stage_cases.jsonl")
    if os.path.exists(raw):
        os.remove(raw)
    with cf.ThreadPoolExecutor(max_workers=8) as ex:
        f_mc = ex.submit(vlib.run_tlc, ctx, FAM, "StageManager", "StageManager.cfg" if q else "StageManager_thorough.cfg",
                         workers=4 if q else 8, timeout=1200)
        f_def = {d: ex.submit(vlib.run_tlc, ctx, FAM, "StageManager", "StageManager_defect_%s.cfg" % d, workers=2, timeout=600, expect_ok=False)
                 for d in DEFECTS}
        f_cases = ex.submit(vlib.run_tlc, ctx, FAM, "StageManager", "StageManager_cases.cfg", workers=1, cases_to=raw, timeout=600)
        ctx.add_tlc(f_mc.result())
        for d, f in f_def.items():
            if f.result()["ok"]:
                raise vlib.Inconclusive("StageManager model does not reject defect " + d)
        ctx.add_tlc(f_cases.result())
    allc, seen = [], set()
    for c in vlib.read_jsonl(raw):
        key = json.dumps(c, sort_keys=True)
        if key not in seen:
            seen.add(key)
            allc.append(c)
    if not allc:
        raise vlib.Inconclusive("TLC enumerated no history from StageManager.tla")
    for c in allc:
        c["class"] = klass(c)
        c["nt"] = sum(1 for s in c["steps"] if s == "T")
    # ---------- which histories run
    # every history is one process; one that sits out the 5 s of a reload costs wall time only (they run side by side).
    # quick: every history without such a wait of a plain / handler-less / failing birth, plus seeded samples of the ones
    # with one wait and of the 'inherited' births (the model predicts the same life for them: the birth only matters for the
    # argument of Close after a failed Init); thorough: all of them.
    if q:
        base = [c for c in allc if c["nt"] == 0 and c["birth"] != "inherited"]
        one = [c for c in allc if c["nt"] == 1 and c["birth"] != "inherited"]
        inh = [c for c in allc if c["nt"] == 0 and c["birth"] == "inherited"]
        cases = base + rnd.sample(one, min(60, len(one))) + rnd.sample(inh, min(40, len(inh)))
    else:
        cases = list(allc)
    rnd.shuffle(cases)
    for i, c in enumerate(cases):
        c["id"] = i + 1
    # ---------- 3. the real stage manager, one process per history
    if binary is None:
        binary = vlib.go_build("c11")
    cpath = os.path.join(ctx.tmp, "stage_run_cases.jsonl")
    with open(cpath, "w") as fh:
        for c in cases:
            fh.write(json.dumps(dict(id=c["id"], birth=c["birth"], steps=c["steps"], **{"class": c["class"]})) + "\n")
    tpath, rpath = os.path.join(ctx.tmp, "stage_trace.ndjson"), os.path.join(ctx.tmp, "stage_res.jsonl")
    t0 = time.time()
    vlib.run_driver(ctx, binary, ["-mode", "stage", "-cases", cpath, "-trace", tpath, "-results", rpath], timeout=600 if q else 1500)
    results = vlib.read_jsonl(rpath)
    vlib.log("[c11] stage manager: %d lives (%d with a reload timeout) in %.1fs" % (len(results), sum(1 for c in cases if c["nt"]), time.time() - t0))
    ab = [r for r in results if r.get("abandoned")]
    if ab:
        ctx.notes.append("stage manager: %d of %d lives could not be run (%s), not judged" % (len(ab), len(results), sorted(set(r["why"] for r in ab))[:3]))
    if len(results) != len(cases) or len(ab) * 10 > len(cases):
        raise vlib.Inconclusive("stage manager: %d of %d lives run, %d abandoned" % (len(results), len(cases), len(ab)))
    # ---------- 4. validation
    evs = vlib.read_jsonl(tpath)
    v = vlib.validate_trace(ctx, FAM, "StageManagerTrace", "StageManagerTrace.cfg", tpath, timeout=900)
    ctx.cov["states"] += v["distinct"]
    ctx.cov["transitions"] += v["generated"]
    mm = {}
    for m in MM.finditer(v["text"]):
        mm.setdefault(int(m.group(1)), set()).add(m.group(2))
    if not v["accepted"] and not mm and v["matched"] is None:
        raise vlib.Inconclusive("trace validation of StageManagerTrace did not complete:\n%s" % v["text"][-1500:])
    runs, cur = [], None          # runs: dict(run event, first line, events)
    line_run = {}
    for i, e in enumerate(evs, 1):
        if e["ev"] == "run":
            cur = dict(run=e, start=i, evs=[])
            runs.append(cur)
        if cur is not None:
            cur["evs"].append(e)
            line_run[i] = cur
    by_id = {c["id"]: c for c in cases}
    ctx.cov["traces_validated_against_impl"] += len(runs)
    ctx.cov["evaluations"] += sum(1 for e in evs if e["ev"] in ("app", "ret", "exit", "end", "m", "at", "gs", "as", "hb"))
    ctx.cov.setdefault("trace_events", {})["stage"] = len(evs)
    ctx.sample({"stage": [{k: x for k, x in e.items() if k != "steps"} for e in runs[0]["evs"]]} if runs else {})

    def fail(r, kind, line=None, extra=None):
        if any(e["ev"] == "abandon" for e in r["evs"]):
            return
        det = dict(kind=kind, case=dict(id=r["run"]["id"], birth=r["run"]["birth"], steps=r["run"]["steps"]),
                   run_trace=[{k: x for k, x in e.items() if k != "steps"} for e in r["evs"]])
        if line is not None:
            det["line"] = line - r["start"]
        if extra:
            det.update(extra)
        vlib.report_failure(ctx, "C11:stage:%s:%s" % (kind, r["run"]["class"]), det)

    # mismatch kinds that say "the code does not do what the model does" without touching the contract (which status the
    # process ends with, what app.Close is told, GetState() against the callbacks): SPEC-DRIFT, a note
    found = []      # (kind, run, line, extra)
    drift_kinds = {}
    for line, kinds in sorted(mm.items()):
        r = line_run.get(line)
        if r is None:
            raise vlib.Inconclusive("mismatch reported before the first life (line %d)" % line)
        for k in sorted(kinds):
            if k in NOT_CONTRACT:
                drift_kinds.setdefault(k, []).append(r["run"]["class"])
            else:
                found.append((k, r, line, None))
    if v["matched"] is not None and v["matched"] < len(evs):
        r = line_run.get(v["matched"] + 1)
        if r is not None:
            found.append(("trace-rejected:" + evs[v["matched"]]["ev"], r, v["matched"] + 1, None))
    for k, cl in sorted(drift_kinds.items()):
        ctx.notes.append("SPEC-DRIFT stage manager: %s in %d lives, e.g. %s" % (k, len(cl), sorted(cl, key=lambda x: (x.count("."), x))[:3]))
    # ---- the model's prediction against what was recorded, thread by thread (SPEC-DRIFT: a note, never a verdict)
    drift, diverged = [], 0
    outcome = {}
    for r in runs:
        c = by_id.get(r["run"]["id"])
        if c is None or any(e["ev"] == "abandon" for e in r["evs"]):
            continue
        got = per_thread([e["l"] for e in r["evs"] if "l" in e and e["ev"] != "exit"])
        want = per_thread(c["steps"])
        ex = next(("exit:%d" % e["code"] for e in r["evs"] if e["ev"] == "exit"), "alive")
        wex = next((s for s in c["steps"] if s.startswith("exit:")), "alive")
        outcome[(c["birth"], tuple(env_steps(c["steps"])))] = dict(main=got.get("main", []), exit=ex, run=r,
                                                                    app=[x for t in sorted(got) for x in got[t] if x.startswith("app:") or x in ("gs", "as")])
        if any(e["ev"] == "diverge" for e in r["evs"]):
            diverged += 1
        bad = None
        for t in sorted(set(got) | set(want)):
            g, w = got.get(t, []), want.get(t, [])
            # the process may end before a notifier that has nothing left to do but return is scheduled again
            if g != w and not (ex != "alive" and t != "main" and g == w[:len(g)] and set(w[len(g):]) <= {"ret"}):
                k = next((i for i in range(min(len(g), len(w))) if g[i] != w[i]), min(len(g), len(w)))
                bad = "%s: event %d is %s, the model predicts %s" % (t, k, g[k] if k < len(g) else "(nothing)", w[k] if k < len(w) else "(nothing)")
                break
        if bad is None and ex != wex:
            bad = "ends with %s, the model predicts %s" % (ex, wex)
        if bad:
            drift.append("%s: %s" % (c["class"], bad))
    if drift:
        ctx.notes.append("SPEC-DRIFT stage manager: %d of %d lives differ from the model's prediction, e.g. %s" % (len(drift), len(runs), drift[:3]))
    # ---- FailedUpgradeTransparent across lives: the life with a failed attempt at a quiet moment against the life without it
    pairs = 0
    for c in cases:
        key = (c["birth"], tuple(env_steps(c["steps"])))
        if key not in outcome:
            continue
        for (i, j) in quiet_blocks(c):
            reduced = c["steps"][:i] + c["steps"][j + 1:]
            other = outcome.get((c["birth"], tuple(env_steps(reduced))))
            if other is None:
                continue
            pairs += 1
            mine = outcome[key]
            if mine["main"] != other["main"] or mine["exit"] != other["exit"]:
                k = next((x for x in range(min(len(mine["main"]), len(other["main"]))) if mine["main"][x] != other["main"][x]),
                         min(len(mine["main"]), len(other["main"])))
                found.append(("failed-attempt-not-transparent", mine["run"], None, dict(
                    without_the_attempt=dict(main=other["main"], exit=other["exit"]), with_the_attempt=dict(main=mine["main"], exit=mine["exit"]),
                    first_difference=k, attempt=c["steps"][i:j + 1])))
    # ---- verdicts: per kind the shortest failing histories (one defect of the state machine fails hundreds of histories)
    bykind = {}
    for k, r, line, extra in found:
        bykind.setdefault(k, {}).setdefault(r["run"]["class"], (r, line, extra))
    for k, classes in sorted(bykind.items()):
        order = sorted(classes, key=lambda x: (x.count("."), x))
        for cl in order[:MAX_CLASSES_PER_KIND]:
            r, line, extra = classes[cl]
            fail(r, k, line, extra)
        if len(order) > MAX_CLASSES_PER_KIND:
            ctx.notes.append("stage manager: %s in %d more history classes (the %d shortest are reported)" % (k, len(order) - MAX_CLASSES_PER_KIND, MAX_CLASSES_PER_KIND))
    if diverged * 2 > len(runs) and not found:
        raise vlib.Inconclusive("stage manager: %d of %d guided histories diverged from the model: %s" % (diverged, len(runs), drift[:3]))
    if pairs == 0 and not found:
        raise vlib.Inconclusive("stage manager: no pair of lives with / without a failed attempt could be compared")
    # ---------- bookkeeping
    multi = [c for c in cases if sum(1 for s in c["steps"] if s.startswith("D:")) >= 2]
    ctx.cov["stage_manager"] = dict(histories_enumerated=len(allc), lives_run=len(runs), with_two_or_more_notices=len(multi),
                                    with_reload_timeout=sum(1 for c in cases if c["nt"]), compared_with_without_failed_attempt=pairs,
                                    diverged=diverged, exit_status=sorted(set(o["exit"] for o in outcome.values())),
                                    wall_s=round(time.time() - t_part, 1))
    ctx.cov["distinct_nontrivial"] = ctx.cov.get("distinct_nontrivial", 0) + len(multi)
    ctx.assumptions += ["stage-manager part: notices are delivered through stagemanager.NoticeStop on goroutines standing for the signal "
                        "goroutine, the SIGINT goroutine and the reconfigure listener (no OS signals); the Application, the upgrade handler "
                        "and the stage hooks are recording stand-ins (the real Mosn.Shutdown is what the in-process part drives); notices "
                        "arrive only at quiet moments (every thread blocked in app.Start / app.Shutdown / the upgrade handler / the reload "
                        "wait, or done) - TLC checks the finer interleavings on the model only; the new server a reload forks is "
                        "/bin/true (never reports) or a path that does not exist (fork fails)"]
    # ---------- 5. end to end: the real Mosn as the stage manager's Application, a request in flight
    if validate is not None:
        try:
            e2e(ctx, binary, validate)
        except vlib.Inconclusive as ex:
            if not found:
                raise
            ctx.notes.append("stage manager end to end not conclusive (%s); the recorded mismatches of the histories stand" % str(ex)[:300])
        ctx.assumptions += ["stage-manager end-to-end part: HTTP/1.1, two connections, one request parked in phase wait / resp; the earlier "
                            "event is an upgrade whose (stand-in) handler fails or that finds no handler (thorough: the real "
                            "ReconfigureHandler with no new server listening, a reload whose fork fails); 'exit' is the after-stop stage "
                            "(the application has been closed)"]
    return binary
