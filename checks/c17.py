"""C17 Route actions, timeouts and the retry policy are applied exactly as configured.
   spec/router/RouteAction.tla       route actions (header mutations at route / virtual host / router level, prefix / regex /
                                     host rewrite, redirect, direct response) and the effective timeouts: declarative meaning
                                     (Sem*) against the implementation-shaped evaluation (Impl*), 14 defect switches
   spec/router/RouteActionRetry.tla  the retry decision table, budget, fresh host, never after the reply started, request actions applied once whatever the attempt, every unit of the budget spent buys an attempt (a per-try timeout is the outcome of a pending attempt); 10 defect switches
   spec/router/RouteActionTrace.tla, RouteActionRetryTrace.tla   TLC validates what the real code did.
   Binding: every case TLC enumerates is configured into an in-process MOSN (HTTP/1) through the router manager and one real
   request is sent: the scripted upstream records what each attempt received / the hosts answer, refuse, close or hang as the
   outcome script says, hooks tell how every attempt ended; the timeout matrix (incl. protocol-supplied values) additionally
   goes through the real route objects and parseProxyTimeout, and through a bolt listener (frame timeout field) end to end."""
import json, os, random, re
from concurrent.futures import ThreadPoolExecutor
import vlib
import lifecycle_common as lc

LEVEL = "model_checking"

FAMILIES = ("hop", "hdr", "hdrl", "path", "redir", "direct", "tmo", "pfc")
ACT_DEFECTS = ("RewriteSkippedWhenMarked", "RewriteSkippedWhenMarked_hop", "AppendDefaultLeaks", "UnknownVarIsVariable", "MissingVarDash", "PercentTrimmed", "PfcRouteFallsBackToVhost", "RewriteCaseSensitive", "VhostBeforeRoute", "RouterBeforeVhost", "AppendNoSeparator", "RemoveBeforeAdd", "RegexOverPrefix",
               "PrefixRewriteKeepsPrefix", "AutoHostOverHostRewrite", "AutoHostBeforeMutation", "RedirectKeepsPort",
               "RedirectDropsQuery", "RedirectDefault302", "HeaderOverProtocol", "TryNotDisabled")
RETRY_DEFECTS = ("GlobalTimerRestartsOnRetry", "FinalizeOnRetry", "RetryOnOverflow", "RetryOnIgnored", "StatusListIgnored", "BudgetOffByOne", "BudgetIsNumRetries",
                 "SameHostRetry", "RetryAfterResponse", "PerTryTimerSurvivesRetry")


def levels_class(lv):
    used = [n for n in ("route", "vhost", "router") if lv[n]["add"] or lv[n]["rm"]]
    kinds = set()
    for n in used:
        for op in lv[n]["add"]:
            kinds.add("append" if op["a"] != "f" else "overwrite")
        if lv[n]["rm"]:
            kinds.add("remove")
    var = any(op["v"].startswith("%") and op["v"].endswith("%") and len(op["v"]) > 2 for n in used for op in lv[n]["add"])
    lists = any(len(lv[n]["add"]) >= 2 for n in used)
    omitted = any(op["a"] == "d" for n in used for op in lv[n]["add"])
    return "levels=" + "+".join(used) + (":variable-values" if var else "") + (":list" if lists else "") + (":append-omitted" if omitted else "")


def act_signature(e, kind):
    """failing input class: the family, what disagreed, and the configured fields that bear on it"""
    sig = act_signature1(e, kind)
    return sig + (":http2" if e.get("proto") == "h2" else "")


def act_signature1(e, kind):
    c = e.get("c", {})
    ev = e["ev"]
    if ev == "hop":
        return "C17:two-hops:%s" % kind.split(":")[-1]
    if ev == "pfc":
        return "C17:per-filter-config:%s" % kind
    if ev == "hdr":
        side = e["rc"] if kind == "response-headers" else c
        return "C17:hdr:%s:%s" % (kind, levels_class(side["lv"]))
    if ev == "path":
        if kind == "host-rewrite":
            what = "+".join([k for k in ("hr", "ahrh") if c.get(k)] + (["route-adds-header"] if c.get("radd") else [])) or "plain"
        elif kind in ("path-rewrite", "original-path-header"):
            what = "prefix_rewrite" if c.get("pr") else ("regex_rewrite" if c.get("rr") != "none" else "plain")
        else:
            what = "any"
        mk = c.get("mk", "none")
        return "C17:path:%s:rule=%s:%s%s%s" % (kind, c.get("rule"), what, ":path-in-other-case" if c.get("ci") else "",
                                               ":request-carries-" + mk if mk != "none" else "")
    if ev == "redir":
        if kind == "redirect-status":
            return "C17:redirect:%s:code=%s" % (kind, "default" if not c.get("code") else "configured")
        what = [k for k in ("scheme", "rhost", "rpath") if c.get(k)]
        return "C17:redirect:%s:%s:port=%s%s" % (kind, "+".join(what) or "bare", c.get("host", {}).get("p") or "none",
                                                 ":request-carries-xmosn" if c.get("mk", "none") != "none" else "")
    if ev == "direct":
        return "C17:direct:%s:body=%s" % (kind, "yes" if c.get("body") else "no")
    if ev == "tmo":
        keys = (("protocol", "vg", -1), ("header", "hg", -1), ("route", "rg", 0)) if kind == "timeout-global" else \
               (("protocol-try", "vt", -1), ("header-try", "ht", -1), ("route-try", "rt", 0))
        src = [n for n, k, none in keys if c.get(k, none) != none]
        return "C17:timeout:%s:%s" % (kind, "+".join(src) or "default")
    return "C17:%s:%s" % (ev, kind)


def retry_signature(runev, kind, rt=None):
    pol = (runev or {}).get("pol", {})
    if kind.startswith(("attempt-1:", "retried-attempt:", "reply:")):    # actions seen by an attempt / on the single reply
        act = (runev or {}).get("act", {})
        if "headers" in kind:
            lv = act.get("rlv" if kind.startswith("reply:") else "lv")
            return "C17:retry:%s:%s" % (kind, levels_class(lv) if lv else "levels=")
        return "C17:retry:%s:%s" % (kind, "prefix_rewrite" if act.get("pr") else "regex_rewrite" if act.get("rr", "none") != "none" else "plain")
    if kind == "no-reply":      # the policy matters less than how far the request got
        return "C17:retry:no-reply:after-%d-attempts" % sum(1 for e in (rt or []) if e["ev"] == "att")
    cls = "retry_on=%s:codes=%s" % (str(pol.get("on")).lower(), "listed" if pol.get("codes") else "none")
    if kind.startswith("attempts-exceed-budget"):
        cls = "num_retries=%s" % pol.get("n")
    elif kind in ("attempt-started-after-global-timeout", "reply-later-than-global-timeout"):
        cls = "per-try=%s" % ("yes" if (runev or {}).get("t") else "no")
    elif kind.startswith("retry-on-same-host") or kind.startswith("attempt-after-reply"):
        cls = "cluster=%s" % ("request-round-robin" if str((runev or {}).get("cluster", "")).startswith(("p", "q")) else "round-robin")
    return "C17:retry:%s:%s" % (kind, cls)


def run(ctx):
    q = ctx.quick()
    rng = random.Random(ctx.seed)
    suf = "" if q else "_thorough"

    # ---------- 1. design level: TLC on the specs; case streams
    raws = {f: os.path.join(ctx.tmp, "ra_%s.jsonl" % f) for f in FAMILIES}
    retry_raw = os.path.join(ctx.tmp, "retry_raw.jsonl")
    long_raw = os.path.join(ctx.tmp, "retry_long_raw.jsonl")

    def defect_run(md):
        mod, d = md
        r = vlib.run_tlc(ctx, "router", mod, "%s_defect_%s.cfg" % (mod, d), expect_ok=False, workers=2)
        if r["ok"]:
            raise vlib.Inconclusive("%s does not reject the %s defect (properties vacuous?)" % (mod, d))
        return r
    with ThreadPoolExecutor(max_workers=6) as ex:
        mains = [ex.submit(vlib.run_tlc, ctx, "router", "RouteAction", "RouteAction_%s%s.cfg" % (f, suf), workers=1, cases_to=raws[f])
                 for f in FAMILIES]
        mains.append(ex.submit(vlib.run_tlc, ctx, "router", "RouteActionRetry", "RouteActionRetry%s.cfg" % suf, workers=1,
                               cases_to=retry_raw, timeout=1500))
        mains.append(ex.submit(vlib.run_tlc, ctx, "router", "RouteActionRetry", "RouteActionRetry_long.cfg", workers=1,
                               cases_to=long_raw))
        defects = list(ex.map(defect_run, [("RouteAction", d) for d in ACT_DEFECTS] + [("RouteActionRetry", d) for d in RETRY_DEFECTS]))
        for f in mains:
            ctx.add_tlc(f.result())
    ctx.cov["defect_switches_rejected"] = len(defects)

    fam = {f: vlib.read_jsonl(raws[f]) for f in FAMILIES}
    menu = [x for x in fam["path"] if x["fam"] == "rxmenu"]
    fam["path"] = [x for x in fam["path"] if x["fam"] == "path"]
    if len(menu) != 1 or any(not fam[f] for f in FAMILIES):
        raise vlib.Inconclusive("case emission incomplete")
    for f in FAMILIES:
        fam[f].sort(key=lambda x: json.dumps(x, sort_keys=True))
    # the response side of a header case is another header case (a VERIF_SEED permutation): both sides see every case
    envs = sorted(menu[0]["envs"], key=lambda x: json.dumps(x, sort_keys=True))

    def active(lv):
        return sum(1 for n in ("route", "vhost", "router") if lv[n]["add"] or lv[n]["rm"])
    hdr_all = [x["c"] for x in fam["hdr"]]
    lists_all = [x["c"] for x in fam["hdrl"]]      # list shapes: 2-3 entries at one level, append stated / omitted per entry
    sampled_hdr = False
    if q:       # all cases with at most two levels in use, a VERIF_SEED sample of those with three and of the list shapes
        three = [c for c in hdr_all if active(c["lv"]) == 3]
        hdr_cases = [c for c in hdr_all if active(c["lv"]) < 3] + rng.sample(three, min(len(three), 1800))
        hdr_cases += rng.sample(lists_all, min(len(lists_all), 2400))
        sampled_hdr = True
    else:
        hdr_cases = hdr_all + lists_all
    # what the variables resolve to is drawn per case from the environments TLC lists (the model checks all of them)
    hdr_cases = [dict(c, **rng.choice(envs)) for c in hdr_cases]
    perm = list(range(len(hdr_cases)))
    rng.shuffle(perm)
    act = [menu[0]]
    hdr_lines = [dict(fam="hdr", c=c, rc=hdr_cases[perm[i]]) for i, c in enumerate(hdr_cases)]
    rest = fam["path"] + fam["redir"] + fam["direct"] + fam["tmo"] + fam["pfc"] + fam["hop"]
    # protocol dimension: a VERIF_SEED sample of the header and rewrite cases (and the per_filter_config cases) is repeated
    # through an HTTP/2 listener and cluster; the HTTP/2 upstream answers with a trailer
    h2 = [dict(x, proto="h2") for x in rng.sample(hdr_lines, min(len(hdr_lines), 300 if q else 1500))]
    h2 += [dict(x, proto="h2") for x in rng.sample(fam["path"], min(len(fam["path"]), 150 if q else 700))]
    h2 += [dict(x, proto="h2") for x in fam["pfc"]]
    rest = rest + h2
    rng.shuffle(rest)
    act += hdr_lines + rest
    actfile = os.path.join(ctx.tmp, "act_cases.jsonl")
    with open(actfile, "w") as fh:
        for x in act:
            fh.write(json.dumps(x) + "\n")

    retry_all = vlib.read_jsonl(retry_raw)
    retry_long = vlib.read_jsonl(long_raw)
    if not retry_all or not retry_long:
        raise vlib.Inconclusive("retry case emission incomplete")
    retry_all.sort(key=lambda x: json.dumps(x, sort_keys=True))
    retry_long = [x for x in retry_long if x["script"][0] in ("cf", "s503", "term", "s200")]
    if q:
        short = [x for x in retry_all if len(x["script"]) <= 2 and x["pol"]["n"] != 2]
        longer = [x for x in retry_all if x not in short]
        retry = short + rng.sample(longer, min(len(longer), 500)) + rng.sample(retry_long, min(len(retry_long), 24))
    else:
        retry = retry_all + retry_long
    rng.shuffle(retry)
    # the two halves combined: the route of a retry run also carries request- and response-side actions (a VERIF_SEED
    # draw from the header cases and from RouteAction's RetryRewrites): every attempt must receive Sem(actions, request)
    rxm = {x["rr"]: x for x in menu[0]["rx"]}
    hdrs = [x["c"] for x in fam["hdr"]] + rng.sample(lists_all, min(len(lists_all), 2000))
    nonidem = [h for h in hdrs if any(op["a"] != "f" for lvl in h["lv"].values() for op in lvl["add"])]
    rws = sorted(menu[0]["retryrw"], key=lambda x: json.dumps(x, sort_keys=True))
    withact = []
    for i, x in enumerate(retry):
        if i % 4 == 3:                       # every fourth run keeps a plain route
            withact.append(x)
            continue
        h = rng.choice(nonidem if i % 2 == 0 else hdrs)
        rh = rng.choice(hdrs)
        rw = rng.choice(rws)
        env = rng.choice(envs)
        a = dict(lv=h["lv"], hin=h["hin"], rlv=rh["lv"], rhin=rh["hin"], pr=rw["pr"], rr=rw["rr"], path=menu[0]["retrypath"],
                 src=env["src"], rsrc=env["rsrc"],
                 rxp=rxm.get(rw["rr"], {}).get("pattern", ""), rxs=rxm.get(rw["rr"], {}).get("subst", ""))
        withact.append(dict(x, act=a))
    retry = withact

    # ---------- 2. real code: record
    binary = vlib.go_build("c17")
    tmo_trace = os.path.join(ctx.tmp, "tmo.ndjson")
    bolt_trace = os.path.join(ctx.tmp, "bolt.ndjson")
    with ThreadPoolExecutor(max_workers=3) as ex:
        f_tmo = ex.submit(vlib.run_driver, ctx, binary, ["-mode", "tmo", "-cases", actfile, "-trace", tmo_trace])
        f_bolt = ex.submit(vlib.run_driver, ctx, binary, ["-mode", "bolt", "-cases", actfile, "-trace", bolt_trace])
        f_act = ex.submit(lc.run_sharded, ctx, "c17", act, 6, ["-mode", "act"])
        f_tmo.result()
        f_bolt.result()
        act_traces, _ = f_act.result()
    # the retry runs use real timers: they get the machine to themselves as far as this check is concerned
    os.rename(os.path.join(ctx.tmp, "c17_picked.jsonl"), os.path.join(ctx.tmp, "c17_act_picked.jsonl"))
    act_lines = []
    for t in act_traces + [tmo_trace, bolt_trace]:
        act_lines += open(t).read().splitlines()
    retry_traces, retry_results = lc.run_sharded(ctx, "c17", retry, 12 if q else 14, ["-mode", "retry"], timeout=3000)
    stalled = sum(1 for r in retry_results if r.get("stalled"))
    ctx.cov["runs_dropped_machine_stalled"] = stalled
    if stalled * 20 > len(retry):
        raise vlib.Inconclusive("the machine stalled during %d of %d retry runs" % (stalled, len(retry)))
    retry_lines = []
    for t in retry_traces:
        retry_lines += open(t).read().splitlines()

    # ---------- 3. TLC decides
    def chunks_of(lines, n, cut_ok):
        target = len(lines) // n + 1
        cuts = [0]
        for i in range(1, len(lines)):
            if i - cuts[-1] >= target and cut_ok(lines[i]):
                cuts.append(i)
        cuts.append(len(lines))
        return [(cuts[k], cuts[k + 1]) for k in range(len(cuts) - 1) if cuts[k + 1] > cuts[k]]

    def validate_part(lines, module, n, cut_ok, tag):
        ch = chunks_of(lines, n, cut_ok)

        def one(k):
            lo, hi = ch[k]
            p = os.path.join(ctx.tmp, "%s_chunk%d.ndjson" % (tag, k))
            with open(p, "w") as fh:
                fh.write("\n".join(lines[lo:hi]) + "\n")
            return vlib.validate_trace(ctx, "router", module, module + ".cfg", p, timeout=2400)
        with ThreadPoolExecutor(max_workers=min(len(ch), 6)) as ex:
            res = list(ex.map(one, range(len(ch))))
        out = []
        for k, v in enumerate(res):
            lo, hi = ch[k]
            ctx.cov["states"] += v["distinct"]
            ctx.cov["transitions"] += v["generated"]
            mm = lc.mismatches(v["text"])
            if not v["accepted"] and not mm and v["matched"] is None:
                raise vlib.Inconclusive("trace validation of %s did not complete:\n%s" % (module, v["text"][-1500:]))
            for line, kinds in sorted(mm.items()):
                for kind in sorted(kinds):
                    out.append((lo + line - 1, kind))
            if v["matched"] is not None and v["matched"] < hi - lo:
                out.append((lo + v["matched"], "trace-rejected"))
        return out

    act_evs = [json.loads(x) for x in act_lines]
    for gi, kind in validate_part(act_lines, "RouteActionTrace", 6, lambda l: True, "act"):
        e = act_evs[gi]
        if kind == "spec-regex-meaning":
            raise vlib.Inconclusive("RouteAction.tla's meaning of a regex_rewrite menu entry differs from Go regexp: %s" % json.dumps(e))
        if kind == "trace-rejected":
            kind = "trace-rejected:" + e["ev"]
        vlib.report_failure(ctx, act_signature(e, kind), dict(event=e, kind=kind))

    retry_evs = [json.loads(x) for x in retry_lines]
    run_at, cur, start = {}, None, 0
    for i, e in enumerate(retry_evs):
        if e["ev"] == "run":
            cur, start = e, i
        run_at[i] = (cur, start)
    for gi, kind in validate_part(retry_lines, "RouteActionRetryTrace", 6, lambda l: l.startswith('{"cluster"') or '"ev":"run"' in l, "retry"):
        e = retry_evs[gi]
        runev, st = run_at.get(gi, (None, 0))
        end = next((j for j in range(gi, len(retry_evs)) if retry_evs[j]["ev"] == "fin"), gi)
        if kind == "trace-rejected":
            kind = "trace-rejected:" + e["ev"]
        vlib.report_failure(ctx, retry_signature(runev, kind, retry_evs[st:end + 1]), dict(kind=kind, event=e, run_trace=retry_evs[st:end + 1]))

    # ---------- coverage
    nact = sum(1 for e in act_evs if e["ev"] != "rx")
    nruns = sum(1 for e in retry_evs if e["ev"] == "run")
    outs = {}
    for e in retry_evs:
        if e["ev"] == "out":
            outs[e["o"]] = outs.get(e["o"], 0) + 1
    other = sum(v for k, v in outs.items() if k.startswith("other"))
    ctx.cov["traces_validated_against_impl"] = nact + nruns
    ctx.cov["evaluations"] = nact + sum(1 for e in retry_evs if e["ev"] in ("att", "out", "fin", "tmo", "rcv"))
    ctx.cov["distinct_nontrivial"] = len(set(json.dumps([e.get("c"), e.get("rc"), e.get("via")], sort_keys=True) for e in act_evs if e["ev"] != "rx")) + \
        len(set(json.dumps([e["pol"], e["script"], e["cluster"], e.get("act")], sort_keys=True) for e in retry_evs if e["ev"] == "run"))
    by = {}
    for e in act_evs:
        by[e["ev"] + (":" + e["via"] if e["ev"] == "tmo" else "")] = by.get(e["ev"] + (":" + e["via"] if e["ev"] == "tmo" else ""), 0) + 1
    ctx.cov["cases"] = dict(actions=by, retry_runs=nruns, retry_cases_enumerated=len(retry_all) + len(retry_long),
                            attempt_outcomes_observed=outs, ovf_gate_reached=sum(1 for r in retry_results if r.get("reached")))
    for name in ("hdr", "path", "redir"):
        s = next((e for e in act_evs if e["ev"] == name), None)
        if s:
            ctx.sample({"event": s})
    st = next((i for i, e in enumerate(retry_evs) if e["ev"] == "run" and len(e["script"]) >= 2), None)
    if st is not None:
        end = next(j for j in range(st, len(retry_evs)) if retry_evs[j]["ev"] == "fin")
        ctx.sample({"retry_run": retry_evs[st:end + 1]})
    if nruns and other * 10 > sum(outs.values()):
        raise vlib.Inconclusive("more than 10%% of the attempt outcomes could not be classified: %s" % outs)
    ctx.cov["exhaustive"] = not q
    ctx.cov["rule"] = ("a case = one real request through the in-process MOSN under one configuration. Actions: every combination of the "
                       "per-level menu (none / append / overwrite / remove / two appends / overwrite+remove other / append+remove / two keys) "
                       "at route x virtual host x router level x 4 incoming header states, on the request and (another case) the response side; "
                       "rule kind x prefix_rewrite x regex_rewrite menu x host_rewrite x auto_host_rewrite_header x paths x query; redirect "
                       "scheme x host x path x code x request host port x query; direct response status x body; timeouts route x header x "
                       "protocol values incl. malformed (component: all; HTTP/1 and bolt end to end: the ones the protocol can express). Retry: policy (retry_on x "
                       "num_retries {0,2,5} x status list {none,[503],[404,500]}) x outcome scripts over {200,404,500,503,connect failure, "
                       "termination, per-try timeout, global timeout, overflow} to length %d in canonical form (last repeats), plus "
                       "num_retries {9,10} with persistent outcomes; three of four retry runs use a route that also carries a drawn header case on the request and on the response side and a rewrite from RetryRewrites (prefix_rewrite / regex_rewrite whose output matches again), and every attempt's received request is checked; quick: all scripts of length <=2, a VERIF_SEED sample of the rest" % (3 if q else 4))
    ctx.assumptions += [
        "HTTP/1 downstream and upstream, plain TCP (current scheme http); the protocol-supplied global timeout is bolt's frame timeout field (end to end through a bolt listener) and, at component level, the proxy_global_timeout / proxy_try_timeout variables given to parseProxyTimeout",
        "header values are plain strings (no %variable% formatters); regex_rewrite limited to the menu of RouteAction.tla, whose hand-written meaning is cross-checked against Go regexp by the driver",
        "prefix_rewrite on regex rules, auto_host_rewrite (STRICT_DNS) and redirect hosts with ports are not exercised",
        "fresh host: selection is re-run for every retry; observed as consecutive attempts never landing on the same host of a 4-host round-robin cluster with no other traffic",
        "the decision table is applied to the observed end of each attempt (hook us.recv/us.reset + scripted upstream log); timing is only used as a lower bound (a timeout never fires early)",
        "overflow is produced by filling the cluster's request breaker (max_requests=1) from the driver while the worker is held before the retry",
        "failure replies are only required to be 5xx; responses must be the last attempt's response"]
