"""C14 Stream filters run in order; a denied request is never forwarded.
   spec/lifecycle/FilterChain.tla (chain cursors, again-phase, local replies, retry; five defect switches),
   FilterChainTrace.tla.  Binding B1 (+ asynchronous TerminateStream from a second goroutine): TLC enumerates every
   chain x verdict script x environment; each case is one request through an in-process MOSN whose listener carries
   scripted stream filters (public stream-filter API); filter call log + proxy hook events + upstream arrival log +
   client view are validated by TLC step by step."""
import json, os, random, re, threading
import vlib
import lifecycle_common as lc

LEVEL = "model_checking"

DEFECTS = ["FilterChain_defect%d.cfg" % i for i in range(1, 10)]
ANSWERS = ("hs", "hc", "d", "ts", "ac", "t")
OTHER_PROPERTY = ("ended-while-waiting-for-the-upstream", "never-ended-while-waiting-for-the-upstream")
REAL = {"ipaccess": ("B", 403), "payloadlimit": ("R", 413), "faultinject": ("R", 555)}


def real_cases():
    """Dedicated cases: a real security filter (configured to deny) at chain position 2, scripted filters around it."""
    out = []
    for name, (phase, code) in sorted(REAL.items()):
        for k1 in "BRHS":
            for k3 in "BRHS":
                out.append({"chain": [k1, phase, k3], "env": "ok", "script": [{"slot": 2, "v": "hs"}], "real": name,
                            "realslot": 2, "realcode": code, "fwd": 0, "reply": code})
    return out


def invalid_reentry(c, need_predecessor=True):
    """A re-match / re-choose verdict returned in a receive phase that does not honour it (optionally: with another
    filter of the same phase configured before the requester)."""
    for st in c.get("script", []):
        ph = c["chain"][st["slot"] - 1]
        if (st["v"] == "rm" and ph != "R") or (st["v"] == "rc" and ph != "H"):
            if not need_predecessor or any(c["chain"][j] == ph for j in range(st["slot"] - 1)):
                return "%s@%s" % (st["v"], ph)
    return None


def signature(kind, case):
    ans = "none"
    for st in case.get("script", []):
        if st["v"] in ANSWERS:
            ans = "%s@%s" % (st["v"], case["chain"][st["slot"] - 1])
            break
    re_ = "+".join(sorted({st["v"] for st in case.get("script", []) if st["v"] in ("rm", "rc")})) or "none"
    sig = "C14:%s:answer=%s:reentry=%s:env=%s" % (kind, ans, re_, case.get("env"))
    if case.get("oneway"):
        sig += ":oneway"
    inv = invalid_reentry(case, need_predecessor=False)
    if inv:
        sig += ":invalid=" + inv
    if case.get("real"):
        sig += ":real=" + case["real"]
    return sig


def run_sharded(ctx, cases, shards, timeout=1700):
    """As lifecycle_common.run_sharded, but a shard whose driver died (e.g. its MOSN lost the race for a listener
    port against another process) is started once more before the run is declared inconclusive."""
    import subprocess
    binary = vlib.go_build("c14")
    cpath = os.path.join(ctx.tmp, "c14_picked.jsonl")
    with open(cpath, "w") as fh:
        for c in cases:
            fh.write(json.dumps(c) + "\n")
    env = vlib.go_env()
    env.update(VERIF_SEED=str(ctx.seed), VERIF_TIER=ctx.tier)

    def start(s, attempt):
        t = os.path.join(ctx.tmp, "c14_trace_%d.ndjson" % s)
        r = os.path.join(ctx.tmp, "c14_res_%d.jsonl" % s)
        lg = open(os.path.join(ctx.tmp, "c14_drv_%d_%d.log" % (s, attempt)), "w")
        p = subprocess.Popen(["timeout", "-k", "10", str(timeout), binary, "-cases", cpath, "-trace", t, "-results", r,
                              "-shard", str(s), "-shards", str(shards)], stdout=lg, stderr=subprocess.STDOUT, env=env, cwd=ctx.tmp)
        return (p, t, r, lg, s)
    procs = [start(s, 0) for s in range(shards)]
    done, again = {}, []
    for p, t, r, lg, s in procs:
        rc = p.wait()
        lg.close()
        if rc != 0 and rc != 124:
            vlib.log("[C14] driver shard %d died rc=%s, starting it once more\n%s" % (s, rc, vlib.tail(lg.name, 4)))
            again.append(start(s, 1))
        else:
            done[s] = (rc, t, r, lg)
    for p, t, r, lg, s in again:          # the restarted shards run in parallel
        rc = p.wait()
        lg.close()
        done[s] = (rc, t, r, lg)
    traces, results = [], []
    for s in range(shards):
        rc, t, r, lg = done[s]
        if rc != 0:
            raise vlib.Inconclusive("driver c14 shard %d died rc=%s\n%s" % (s, rc, vlib.tail(lg.name)))
        traces.append(t)
        results += vlib.read_jsonl(r)
    return traces, results


def validate_group(ctx, gi, paths, out):
    allp = os.path.join(ctx.tmp, "C14_group_%d.ndjson" % gi)
    with open(allp, "w") as fo:
        for t in paths:
            fo.write(open(t).read())
    try:
        v = vlib.validate_trace(ctx, "lifecycle", "FilterChainTrace", "FilterChainTrace.cfg", allp, timeout=1500)
        out[gi] = (allp, v, None)
    except Exception as e:  # reported by the caller
        out[gi] = (allp, None, e)


def run(ctx):
    q = ctx.quick()
    __import__("pub_part").run(ctx)       # published filter list -> chain of a new stream (FilterPublish.tla)
    __import__("deny_part").run(ctx)      # the real ipaccess / payloadlimit / faultinject filters (DenyFilters.tla)
    # 1. the design: exhaustive model check, and every named deviation must be rejected
    r = vlib.run_tlc(ctx, "lifecycle", "FilterChain", "FilterChain.cfg" if q else "FilterChain_thorough.cfg")
    ctx.add_tlc(r)
    for d in DEFECTS:
        if vlib.run_tlc(ctx, "lifecycle", "FilterChain", d, expect_ok=False)["ok"]:
            raise vlib.Inconclusive("FilterChain model does not reject " + d)
    # 2. cases = complete behaviours of the specification
    raw = os.path.join(ctx.tmp, "FilterChain_cases.jsonl")
    r = vlib.run_tlc(ctx, "lifecycle", "FilterChain", "FilterChain_cases.cfg" if q else "FilterChain_cases_thorough.cfg",
                     workers=1, cases_to=raw, timeout=900)
    ctx.add_tlc(r)
    cases, seen = [], set()
    for c in vlib.read_jsonl(raw):
        # the same inputs may appear with two outcomes the specification allows (TerminateStream takes over / declines)
        k = json.dumps([c["chain"], c["env"], c.get("oneway"), c["script"]])
        if k not in seen:
            seen.add(k)
            cases.append(c)
    if len(cases) < 1000:
        raise vlib.Inconclusive("case generation produced only %d cases" % len(cases))
    rng = random.Random(ctx.seed)
    if q:
        short = [c for c in cases if len(c["chain"]) <= 2]
        long_ = [c for c in cases if len(c["chain"]) > 2]
        # every length-3 case whose script combines an answer with a re-entry or a second answer, plus a seed sample
        def dense(c):
            vs = [s["v"] for s in c["script"]]
            return sum(v in ANSWERS for v in vs) + sum(v in ("rm", "rc") for v in vs) >= 2
        # every case in which a re-match / re-choose is returned in a phase that does not honour it while another
        # filter of that phase is configured before the requester
        inval = [c for c in long_ if invalid_reentry(c)]
        inval_ow = [c for c in inval if c.get("oneway")]
        inval = [c for c in inval if not c.get("oneway")] + rng.sample(inval_ow, min(len(inval_ow), 300))
        long_ = [c for c in long_ if not invalid_reentry(c)]
        # the timeout environment costs 400 ms per run
        slow = [c for c in long_ if c["env"] == "rtermT"]
        long_ = [c for c in long_ if c["env"] != "rtermT"]
        core = [c for c in long_ if dense(c) and c["env"] == "ok"]
        core = rng.sample(core, min(len(core), 2500))
        rest = [c for c in long_ if not (dense(c) and c["env"] == "ok")]
        picked = short + inval + core + rng.sample(rest, min(len(rest), 2500)) + rng.sample(slow, min(len(slow), 100))
    else:
        # every chain of length <= 3 (exhaustive) and a VERIF_SEED sample of the chains of length 4
        four = [c for c in cases if len(c["chain"]) > 3]
        slow = [c for c in cases if c["env"] == "rtermT"]      # 400 ms per run
        picked = [c for c in cases if len(c["chain"]) <= 3 and c["env"] != "rtermT"] + \
                 rng.sample([c for c in four if c["env"] != "rtermT"], min(len(four), 25000)) + rng.sample(slow, min(len(slow), 3000))
    picked += real_cases()
    rng.shuffle(picked)
    shards = 12 if q else 14
    traces, results = run_sharded(ctx, picked, shards)
    # 3. TLC validates every recorded run against the specification (groups of shard traces in parallel)
    ngroups = 4 if q else 6
    groups = [traces[i::ngroups] for i in range(ngroups)]
    out = {}
    ths = [threading.Thread(target=validate_group, args=(ctx, gi, g, out)) for gi, g in enumerate(groups) if g]
    for t in ths:
        t.start()
    for t in ths:
        t.join()
    nruns = nev = ncontam = 0
    kinds_seen = {}
    other = {}
    for gi in sorted(out):
        allp, v, err = out[gi]
        if err is not None:
            if isinstance(err, vlib.Inconclusive):
                raise err
            raise vlib.Inconclusive("trace validation failed to run: %r" % (err,))
        evs = vlib.read_jsonl(allp)
        nev += len(evs)
        ctx.cov["states"] += v["distinct"]; ctx.cov["transitions"] += v["generated"]
        mm = lc.mismatches(v["text"])
        if not v["accepted"] and not mm and v["matched"] is None:
            raise vlib.Inconclusive("trace validation of FilterChainTrace did not complete:\n%s" % v["text"][-1500:])
        run_at, start, cur = {}, 0, None
        dirty = set()     # runs disturbed by foreign traffic on our listeners (repeated by the driver)
        for i, e in enumerate(evs, 1):
            if e["ev"] == "run":
                cur, start = e, i
                nruns += 1
            if e["ev"] == "note" and e.get("what") == "contaminated":
                dirty.add(start)
            run_at[i] = (cur, start)
        ncontam += len(dirty)
        if gi == 0 and evs:
            first_end = next((i for i, e in enumerate(evs) if e["ev"] == "quiesce"), min(len(evs), 12))
            ctx.sample({"run": evs[:first_end + 1]})

        def fail(line, kind):
            runev, st = run_at.get(line, (None, 0))
            if st in dirty:
                return
            case = (runev or {}).get("case", {})
            if kind in OTHER_PROPERTY:
                # the request was forwarded as the specification says and then hung on the upstream side: life cycle (C03/C09)
                other[kind] = other.get(kind, 0) + 1
                if len(ctx.notes) < 5:
                    ctx.notes.append("other-property (C03) mismatch %s in case %s" % (kind, json.dumps(case)))
                return
            end = next((j for j in range(line, len(evs) + 1) if evs[j - 1]["ev"] == "quiesce"), line)
            sig = signature(kind, case)
            rt = evs[st - 1:end]
            if kind == "client-got-a-different-response" and str(case.get("env", "")).startswith("aterm") and \
                    any(e.get("ev") == "note" and e.get("what") == "us.recv" and str(e.get("a", "")).startswith("dropped") for e in rt) and \
                    any(e.get("ev") == "cdone" and e.get("status") == 200 for e in rt):
                # root cause visible in the trace: the upstream's answer lost against TerminateStream and was dropped by the
                # proxy, yet the client got the upstream's status instead of the termination's
                sig = "C14:local-reply-status-overwritten-by-dropped-upstream-response"
            kinds_seen[kind] = kinds_seen.get(kind, 0) + 1
            vlib.report_failure(ctx, sig, dict(line=line - st, kind=kind, case=case, run_trace=evs[st - 1:end]))
        for line, kinds in sorted(mm.items()):
            for k in sorted(kinds):
                fail(line, k)
        if v["matched"] is not None and v["matched"] < len(evs):
            fail(v["matched"] + 1, "trace-rejected:" + evs[v["matched"]]["ev"])
    lost_cases = sum(1 for r_ in results if r_.get("contaminated"))
    if nruns - ncontam + lost_cases != len(picked) or len(results) != len(picked):
        raise vlib.Inconclusive("recorded runs %d (disturbed %d) != cases %d" % (nruns, ncontam, len(picked)))
    if lost_cases * 20 > len(picked):
        raise vlib.Inconclusive("%d of %d runs were disturbed by foreign traffic on the listeners" % (lost_cases, len(picked)))
    ctx.cov["disturbed_runs_repeated"] = ncontam
    ctx.cov["traces_validated_against_impl"] += nruns - ncontam
    ctx.cov["evaluations"] += nruns - ncontam
    ctx.cov["trace_events"] = nev
    nontrivial = sum(1 for c in picked if any(s["v"] != "c" for s in c["script"]))
    ctx.cov["distinct_nontrivial"] = nontrivial
    ctx.cov["cases"] = dict(enumerated=len(cases), replayed=len(picked), real_filter_cases=len(real_cases()),
                            by_env={e: sum(1 for c in picked if c["env"] == e) for e in sorted({c["env"] for c in picked})})
    if kinds_seen:
        ctx.cov["mismatch_kinds"] = kinds_seen
    if other:
        ctx.cov["other_property_mismatches"] = other
        vlib.log("[C14] note: %s (requests that hung after a correct forward: C03/C09 matter, not decided here)" % other)
    ctx.cov["exhaustive"] = not q
    ctx.cov["rule"] = ("one case = (chain of <=3 (thorough: 4) filters over {BeforeRoute, AfterRoute, AfterChooseHost, send}, verdict per invocation from "
                       "{continue, stop, termination, hijack+stop, hijack+continue, direct response, TerminateStream sync / from a 2nd "
                       "goroutine, re-match, re-choose in every receive phase (honoured: <=2 re-entries; not honoured: ends the pass)}, environment in {upstream 200 on a retry route, 503 then 200, "
                       "upstream closes, TerminateStream while the upstream holds the request / after the end / racing answer and timer, "
                       "TerminateStream during the 2nd attempt after a retried 503 with answer or global timeout}, request kind {two-way "
                       "HTTP/1, one-way bolt frame}) = one "
                       "complete behaviour of FilterChain.tla (%d); each is one HTTP/1 request through the in-process MOSN; quick replays "
                       "all chains of length <=2, every length-3 case with a re-match/re-choose in a non-honouring phase behind another filter of "
                       "that phase, a sample of the answer+re-entry combinations of length 3 and a VERIF_SEED sample of the rest; "
                       "thorough replays every chain of length <=3 and a VERIF_SEED sample of 25000 chains of length 4; "
                       "plus 48 cases with a real ipaccess / payloadlimit / faultinject filter denying in the middle of the chain" % len(cases))
    ctx.assumptions += ["two-way requests over HTTP/1, one-way requests as bolt one-way frames through an xprotocol listener of the same MOSN; "
                        "one request at a time per MOSN instance (12-14 instances in parallel)",
                        "honoured re-match / re-choose (AfterRoute / AfterChooseHost): at most 2 per request (the proxy's task loop has 10 "
                        "iterations: C03); returned in another receive phase the verdict is invalid and ends the pass like stop",
                        "'no reply' is observed as: ds.clean seen, no ds.reply event, and no bytes on the client connection for 25 ms",
                        "the chain of the request in flight is given to the scripted factories through a driver variable read in "
                        "CreateFilterChain (configured order = order of the 4 factory entries of the listener)"]
