"""C16 Host health state is never lost, and thresholds are exact.
   spec/cluster/HealthFlags.tla (+Trace): the shared flag word of an address, one action per memory access of
   Set/ClearHealthFlag; TLC checks the intended read-modify-write design (conditions independent) and rejects
   the load/store variant; every interleaving TLC enumerates is forced on the real hosts through the gate
   "health.rmw" (B3) and the recorded operation boundaries + HealthFlag()/Health() readings are validated by
   TLC against the atomic reading of the spec.
   spec/cluster/HealthChecker.tla (+Trace): threshold automaton; TLC checks it against the history-level
   statement of the property, enumerates every result sequence (ok/fail/timeout and late answers) for every
   threshold pair and initial word (HealthCheckLoop.tla model-checks the check-id protocol of the loop that
   turns answers/timeouts into those results and rejects the id-advances-on-stale-answer variant); each one is replayed through the real health checker (real timers,
   scripted session factory) and the callback arguments / flag word are validated by TLC step by step (B1).
   spec/cluster/HealthWords.tla (+Trace): the word belongs to the RESOLVED address whatever way the host object came
   into being (NewSimpleHost, cluster manager UpdateClusterHosts, STRICT_DNS resolution of a domain with several
   records): equal addresses share, distinct addresses are independent; "WordPerDomain" rejected; topologies x
   operation sequences (direct set/clear, health-check results of resolved hosts) replayed on real clusters with
   a loopback DNS server, every host object read after every operation."""
import json, os, random, re
from concurrent.futures import ThreadPoolExecutor
import vlib

LEVEL = "model_checking"
FAM = "cluster"
CHUNK = 250000   # trace lines per TLC validation run


def mismatches(txt):
    out = {}
    for m in re.finditer(r'<<\s*"MISMATCH",\s*(\d+),\s*"([^"]+)"\s*>>', txt):
        out.setdefault(int(m.group(1)), set()).add(m.group(2))
    return out


def gen_cases(ctx, module, cfgs, out_path, cap, rng):
    """TLC emits the cases of every cfg; union, de-duplicated, optionally VERIF_SEED-sampled down to cap."""
    lines = set()
    def one(cfg):
        raw = os.path.join(ctx.tmp, "raw_%s.jsonl" % cfg)
        return raw, vlib.run_tlc(ctx, FAM, module, cfg, workers=1, cases_to=raw, timeout=900)
    with ThreadPoolExecutor(max_workers=4) as ex:
        for raw, r in ex.map(one, cfgs):
            ctx.add_tlc(r)
            lines |= set(open(raw).read().splitlines())
    lines = sorted(lines)
    total = len(lines)
    sampled = False
    if cap is not None and total > cap:
        lines = rng.sample(lines, cap)
        sampled = True
    with open(out_path, "w") as fh:
        fh.write("\n".join(lines) + "\n")
    return len(lines), total, sampled


def split_trace(evs_lines, first_ev):
    """chunks of whole cases: list of (start_line_1based, [lines])"""
    chunks, cur, start = [], [], 1
    for i, ln in enumerate(evs_lines, 1):
        if len(cur) >= CHUNK and ('"ev":"%s"' % first_ev) in ln:
            chunks.append((start, cur)); cur = []; start = i
        cur.append(ln)
    if cur:
        chunks.append((start, cur))
    return chunks


def validate(ctx, module, trace_path, first_ev):
    """Validate a (possibly long) trace in chunks. Returns (events, {line: kinds}, rejected_line or None)."""
    lines = [l for l in open(trace_path).read().splitlines() if l]
    evs = [json.loads(l) for l in lines]
    chunks = split_trace(lines, first_ev)
    def one(ch):
        start, ls = ch
        p = os.path.join(ctx.tmp, "chunk_%s_%d.ndjson" % (module, start))
        with open(p, "w") as fh:
            fh.write("\n".join(ls) + "\n")
        v = vlib.validate_trace(ctx, FAM, module, module + ".cfg", p, timeout=1500)
        os.unlink(p)
        return start, len(ls), v
    mm, rejected = {}, None
    with ThreadPoolExecutor(max_workers=4) as ex:
        for start, n, v in ex.map(one, chunks):
            ctx.cov["states"] += v["distinct"]; ctx.cov["transitions"] += v["generated"]
            m = mismatches(v["text"])
            if not v["accepted"] and not m and v["matched"] is None:
                raise vlib.Inconclusive("trace validation of %s did not complete:\n%s" % (module, v["text"][-1500:]))
            for ln, kinds in m.items():
                mm.setdefault(start - 1 + ln, set()).update(kinds)
            if v["matched"] is not None and v["matched"] < n and rejected is None:
                rejected = start + v["matched"]
    return evs, mm, rejected


def case_spans(evs, first_ev):
    """line (1-based) -> first line of its case"""
    start_of, cur = {}, 1
    for i, e in enumerate(evs, 1):
        if e["ev"] == first_ev:
            cur = i
        start_of[i] = cur
    return start_of


def run(ctx):
    q = ctx.quick()
    rng = random.Random(ctx.seed)

    # ---- 1. the models: intended design accepted, named ways to go wrong rejected (independent TLC runs, 4 at a time)
    good = [("HealthFlags", c) for c in (["HealthFlags.cfg", "HealthFlags_n3.cfg"] if q else ["HealthFlags_thorough.cfg", "HealthFlags_thorough_n3.cfg"])]
    good += [("HealthChecker", "HealthChecker.cfg" if q else "HealthChecker_thorough.cfg"),
             ("HealthWords", "HealthWords.cfg"), ("HealthWords", "HealthWords_hc22.cfg"), ("HealthWordBirth", "HealthWordBirth.cfg"),
             ("HealthCheckLoop", "HealthCheckLoop.cfg" if q else "HealthCheckLoop_thorough.cfg")]
    bad = [("HealthFlags", "HealthFlags_defect.cfg"), ("HealthChecker", "HealthChecker_defect1.cfg"),
           ("HealthChecker", "HealthChecker_defect2.cfg"), ("HealthCheckLoop", "HealthCheckLoop_defect.cfg"),
           ("HealthCheckLoop", "HealthCheckLoop_defect2.cfg"), ("HealthCheckLoop", "HealthCheckLoop_defect3.cfg"),
           ("HealthWords", "HealthWords_defect.cfg"), ("HealthWordBirth", "HealthWordBirth_defect_LoadThenStore.cfg")]
    nw_tlc = max(2, vlib.NCPU // 4)
    with ThreadPoolExecutor(max_workers=4) as ex:
        rs = list(ex.map(lambda mc: vlib.run_tlc(ctx, FAM, mc[0], mc[1], workers=nw_tlc, timeout=1500, expect_ok=False), good + bad))
    for (mod, cfg), r in zip(good + bad, rs):
        if (mod, cfg) in good:
            if not r["ok"]:
                raise vlib.Inconclusive("TLC rejected the model %s/%s: %s\n%s" % (mod, cfg, r["errors"][:3], vlib.tail(r["out"], 30)))
            ctx.add_tlc(r)
        elif r["ok"]:
            raise vlib.Inconclusive("%s does not reject %s: invariants are vacuous" % (mod, cfg))

    # ---- 2. cases
    fcases = os.path.join(ctx.tmp, "flagcases.jsonl")
    nf, nf_total, fs = gen_cases(ctx, "HealthFlags",
                                 ["HealthFlags_cases.cfg", "HealthFlags_cases_cas.cfg", "HealthFlags_cases_n3.cfg"] +
                                 ([] if q else ["HealthFlags_cases_thorough.cfg", "HealthFlags_cases_thorough_n3.cfg"]),
                                 fcases, None if q else 60000, rng)
    tcases = os.path.join(ctx.tmp, "thrcases.jsonl")
    nt, nt_total, ts = gen_cases(ctx, "HealthChecker",
                                 ["HealthChecker_cases.cfg"] if q else ["HealthChecker_cases.cfg", "HealthChecker_cases_thorough.cfg"],
                                 tcases, None if q else 60000, rng)
    lcases = os.path.join(ctx.tmp, "latecases.jsonl")
    nl, nl_total, ls = gen_cases(ctx, "HealthChecker",
                                 ["HealthChecker_cases_late.cfg"] if q else ["HealthChecker_cases_late.cfg", "HealthChecker_cases_late_thorough.cfg"],
                                 lcases, None if q else 40000, rng)
    with open(tcases, "a") as fh:
        for ln in open(lcases):
            if ln.strip() and json.loads(ln)["seq"][-1][:5] not in ("late2", "late3"):   # needs a following check: = "timeout"
                fh.write(ln)
            else:
                nl -= 1

    wcases = os.path.join(ctx.tmp, "wordcases.jsonl")
    nw, nw_total, ws = gen_cases(ctx, "HealthWords",
                                 ["HealthWords_cases_direct.cfg", "HealthWords_cases_hc11.cfg", "HealthWords_cases_hc22.cfg"] +
                                 ([] if q else ["HealthWords_cases_thorough.cfg"]), wcases, None if q else 40000, rng)

    # ---- 3. real executions
    binary = vlib.go_build("c16")
    ftrace = os.path.join(ctx.tmp, "flags.ndjson")
    ttrace = os.path.join(ctx.tmp, "thr.ndjson")
    mtrace = os.path.join(ctx.tmp, "mix.ndjson")
    flog = vlib.run_driver(ctx, binary, ["-mode", "flags", "-cases", fcases, "-trace", ftrace], timeout=900)
    vlib.run_driver(ctx, binary, ["-mode", "mix", "-cases", fcases, "-trace", mtrace], timeout=900)
    tlog = vlib.run_driver(ctx, binary, ["-mode", "thr", "-cases", tcases, "-trace", ttrace, "-par", "96"], timeout=1700)
    wtrace = os.path.join(ctx.tmp, "words.ndjson")
    wlog = vlib.run_driver(ctx, binary, ["-mode", "words", "-cases", wcases, "-trace", wtrace, "-par", "8"], timeout=1200)
    btrace = os.path.join(ctx.tmp, "birth.ndjson")
    nbirth = 6000 if q else 60000
    vlib.run_driver(ctx, binary, ["-mode", "birth", "-trace", btrace, "-par", str(nbirth)], timeout=900)
    wsumm = json.load(open(wtrace + ".summary"))
    ctx.cov["words_driver"] = wsumm
    if wsumm["failed"]:
        raise vlib.Inconclusive("%d topologies could not be built / driven (driver log %s):\n%s" % (wsumm["failed"], wlog, vlib.tail(wlog, 10)))
    summ = json.load(open(ttrace + ".summary"))
    m = re.search(r"gates=(\d+) skipped_steps=(\d+)", open(flog).read())
    gates, skipped = (int(m.group(1)), int(m.group(2))) if m else (0, 0)
    ctx.cov["flags_gate_arrivals"] = gates
    ctx.cov["thr_driver"] = summ
    if gates == 0:
        ctx.notes.append("gate health.rmw never reached: interleavings were not forced (B3 coverage lost)")
    if summ["stalled"]:
        raise vlib.Inconclusive("health checker stopped reporting in %d cases (driver log %s):\n%s" % (summ["stalled"], tlog, vlib.tail(tlog, 10)))
    if summ["late_deliveries"] and summ["late_deliveries_shifted"] * 2 > summ["late_deliveries"]:
        raise vlib.Inconclusive("more than half of the late answers missed their position: %s" % summ)

    # ---- 4. trace validation = the verdict
    # flags: the writers are plain goroutines (flags) / writer 1 is the real active health checker (mix)
    for part, trace in (("flags", ftrace), ("mix", mtrace)):
        evs, mm, rej = validate(ctx, "HealthFlagsTrace", trace, "begin")
        span = case_spans(evs, "begin")
        ctx.cov["traces_validated_against_impl"] += sum(1 for e in evs if e["ev"] == "begin")
        ctx.cov["evaluations"] += sum(1 for e in evs if e["ev"] == "read")
        ctx.cov.setdefault("trace_events", {})[part] = len(evs)
        ctx.sample({"part": part, "trace_head": evs[:9]})
        done_cases = set()
        def flag_fail(line, kind):
            st = span.get(line, 1)
            hist = evs[st - 1:line]
            ops = sorted(set(e["kind"] for e in hist if e["ev"] == "start"))
            vlib.report_failure(ctx, "C16:%s:%s:%s" % (part, kind, "+".join(ops)), dict(line=line, history=hist))
        for line in sorted(mm):
            st = span.get(line, 1)
            if st in done_cases:
                continue          # only the first disagreement of a case: later ones may be consequences
            done_cases.add(st)
            for k in sorted(mm[line]):
                flag_fail(line, k)
        if rej is not None:
            flag_fail(rej, "trace-rejected:" + evs[rej - 1]["ev"])

    # where the word lives: hosts by origin (static / cluster manager / STRICT_DNS records)
    evs, mm, rej = validate(ctx, "HealthWordsTrace", wtrace, "topo")
    span = case_spans(evs, "topo")
    ctx.cov["traces_validated_against_impl"] += sum(1 for e in evs if e["ev"] == "topo")
    ctx.cov["evaluations"] += sum(len(e["views"]) for e in evs if e["ev"] == "op")
    ctx.cov["trace_events"]["words"] = len(evs)
    ctx.sample({"part": "words", "trace_head": evs[:3]})
    done_cases = set()
    for line in sorted(mm):
        st = span.get(line, 1)
        if st in done_cases:
            continue
        done_cases.add(st)
        for k in sorted(mm[line]):
            vlib.report_failure(ctx, "C16:words:%s" % k, dict(line=line, history=evs[st - 1:line]))
    if rej is not None:
        st = span.get(rej, 1)
        vlib.report_failure(ctx, "C16:words:trace-rejected:" + evs[rej - 1]["ev"], dict(line=rej, history=evs[st - 1:rej]))

    # how the word comes into being: host objects of a never-seen address created at the same moment
    evs, mm, rej = validate(ctx, "HealthWordBirthTrace", btrace, "birth")
    ctx.cov["traces_validated_against_impl"] += len(evs)
    ctx.cov["evaluations"] += len(evs)
    ctx.cov["trace_events"]["birth"] = len(evs)
    ctx.cov["birth"] = dict(addresses=len(evs), creators_per_address=4, through_host_objects=sum(1 for e in evs if e["via"] == "host"))
    ctx.sample({"part": "birth", "trace_head": evs[:2]})
    seen = set()
    for line in sorted(mm):
        for k in sorted(mm[line]):
            if k not in seen:     # one report per kind: every address is an independent repetition of the same scenario
                seen.add(k)
                vlib.report_failure(ctx, "C16:birth:%s" % k, dict(line=line, event=evs[line - 1], addresses_with_this_mismatch=sum(1 for l2 in mm if k in mm[l2])))
    if rej is not None:
        vlib.report_failure(ctx, "C16:birth:trace-rejected", dict(line=rej, event=evs[rej - 1]))

    # thresholds
    evs, mm, rej = validate(ctx, "HealthCheckerTrace", ttrace, "new")
    span = case_spans(evs, "new")
    ctx.cov["traces_validated_against_impl"] += sum(1 for e in evs if e["ev"] == "new")
    ctx.cov["evaluations"] += sum(1 for e in evs if e["ev"] == "check")
    ctx.cov.setdefault("trace_events", {})["thr"] = len(evs)
    ctx.sample({"part": "thr", "trace_head": evs[:6]})
    done_cases = set()
    def thr_fail(line, kind):
        st = span.get(line, 1)
        hist = evs[st - 1:line]
        # input class: plain sequence, or the position (HealthChecker.tla) of the last late answer let out before the failure
        dl = [e for e in hist if e["ev"] == "deliver"]
        cls = ("late%d" % dl[-1]["pos"]) if dl else "plain"
        vlib.report_failure(ctx, "C16:thr:%s:%s" % (cls, kind), dict(line=line, history=hist))
    for line in sorted(mm):
        st = span.get(line, 1)
        if st in done_cases:
            continue
        done_cases.add(st)
        for k in sorted(mm[line]):
            thr_fail(line, k)
    if rej is not None:
        thr_fail(rej, "trace-rejected:" + evs[rej - 1]["ev"])

    ctx.cov["distinct_nontrivial"] = nf + nt + nl + nw
    ctx.cov["cases"] = dict(flags=[nf, nf_total], thr_plain=[nt, nt_total], thr_late=[nl, nl_total], words=[nw, nw_total])
    ctx.cov["exhaustive"] = not (fs or ts or ls or ws)
    ctx.cov["rule"] = ("flags: every complete interleaving (at load/store granularity) of 2 writers x <=2 ops and 3 writers x 1 op "
                       "(thorough: up to 2x3 / 3x2), each writer on its own condition, every program and initial word, forced on real "
                       "hosts of one address; one reading of HealthFlag()/Health() after every step; the 2-writer cases whose writer 1 alternates are "
                       "run again with the real health checker (thresholds 1/1) as writer 1 (mix). words: 16 topologies (which of 3 addresses a SIMPLE "
                       "cluster with NewSimpleHost hosts, a cluster-manager cluster and the records of 1-2 STRICT_DNS domains resolved through a "
                       "loopback DNS server have) x every sequence of 2 operations (set/clear on any host object; check ok/fail of a resolved "
                       "host through the cluster's health checker, thresholds 1/1) and of 4 check results with thresholds 2/2; every host "
                       "object is read after every operation. birth: 6000 (thorough 60000) never-seen addresses, for each 4 creators released together from a spin barrier look the word up (every 16th address: build a host object with NewSimpleHost), a condition is set through one of them and all are read (a statistical search for the creation race - no point exists between lookup and insertion in the intended design where a gate could hold a creator). thresholds: every result sequence "
                       "of length 5 (thorough 7) over ok/fail/timeout x thresholds {0,1,2,3}^2 x initial words, and every sequence of length 3 "
                       "(thorough: 4, sampled) over ok/fail/timeout + late answers of a timed-out check at each of 4 positions (timer fired / "
                       "timeout handled / next check started / next check handled) x thresholds {1,2,3}^2, replayed through the real "
                       "checker, every step driven by the loop events; one evaluation per callback")
    ctx.assumptions += ["words: the active-check condition is written by the health checker only (direct operations in health-checker cases "
                        "use the outlier condition), hosts of STRICT_DNS clusters are read after the resolved host set was published",
                        "a check counts as answered in time when the scripted session returns at once (a timeout timer that fires for it "
                        "is held by the harness, so scheduling delays cannot turn it into a timeout)",
                        "timeout = the session has not answered when the real 10 ms timer fires; a late answer is let out at the enumerated "
                        "position, for position 0 (timer fired, signal not yet taken) either the answer or the timeout may count, never both",
                        "writers on the same condition are not interleaved (the gate identifies a writer by its condition)"]
