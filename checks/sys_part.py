"""System-level part (spec/system/Mosn.tla): traffic through the in-process MOSN while route table and host sets are
being replaced; used by C12 (requests concurrent with an update are handled by one live version and never fail)."""
import os
import vlib
import lifecycle_common as lc


def run(ctx, pid):
    ctx.add_tlc(vlib.run_tlc(ctx, "system", "Mosn", "Mosn.cfg", timeout=900))
    if vlib.run_tlc(ctx, "system", "Mosn", "Mosn_defect.cfg", expect_ok=False)["ok"]:
        raise vlib.Inconclusive("Mosn composition model does not reject the RouteThenLookupByName defect")
    binary = vlib.go_build("sys")
    rounds = 2 if ctx.quick() else 8
    for i in range(rounds):
        trace = os.path.join(ctx.tmp, "sys_%d.ndjson" % i)
        vlib.run_driver(ctx, binary, ["-trace", trace, "-ms", "1200" if ctx.quick() else "3000", "-clients", str(3 + i % 4)], timeout=300,
                        env_extra={"VERIF_SEED": str(ctx.seed + i)})
        evs = vlib.read_jsonl(trace)
        v = vlib.validate_trace(ctx, "system", "MosnTrace", "MosnTrace.cfg", trace, timeout=900)
        nreq = sum(1 for e in evs if e["ev"] == "cdone")
        npub = sum(1 for e in evs if e["ev"] in ("rbegin", "hbegin"))
        if nreq < 50 or npub < 20:
            raise vlib.Inconclusive("system driver produced too little traffic/updates: %d requests %d publications" % (nreq, npub))
        ctx.cov["traces_validated_against_impl"] += 1
        ctx.cov["evaluations"] += nreq
        ctx.cov["states"] += v["distinct"]; ctx.cov["transitions"] += v["generated"]
        ctx.cov.setdefault("system_runs", []).append(dict(requests=nreq, publications=npub, events=len(evs)))
        if i == 0:
            ctx.sample({"system_trace_head": evs[:14]})
        mm = lc.mismatches(v["text"])
        if not v["accepted"] and not mm and v["matched"] is None:
            raise vlib.Inconclusive("system trace validation did not complete:\n" + v["text"][-1200:])
        for line, kinds in sorted(mm.items()):
            for k in sorted(kinds):
                vlib.report_failure(ctx, "%s:system:%s" % (pid, k), dict(line=line, event=evs[line - 1], context=evs[max(0, line - 12):line + 2]))
        if v["matched"] is not None and v["matched"] < len(evs):
            line = v["matched"] + 1
            vlib.report_failure(ctx, "%s:system:trace-rejected:%s" % (pid, evs[line - 1]["ev"]), dict(line=line, event=evs[line - 1], context=evs[max(0, line - 12):line + 2]))
