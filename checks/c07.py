"""C07 Message extraction is independent of how TCP segments the byte stream.
   spec/wire/Framing.tla (+Trace): read buffer / Dispatch loop / need-more-without-drain design, model-checked with
   three named defects; TLC enumerates every chunking of <= 2 (thorough: 3) frames at zone granularity (first byte |
   inside the length field | end of fixed header | last byte - 1 | frame border); the Go driver maps them to concrete
   offsets of real frames of all seven registered protocols and feeds them through a real pkg/network connection ->
   real protocol selection -> real ServerStreamConnection.Dispatch, plus natively every single cut, byte-by-byte
   delivery and seeded random chunkings of a longer stream. TLC validates every recorded chunk against the spec's
   invariants (B2).  spec/wire/Detect.tla (+Trace): prefix-monotone matchers and the selection rule, validated on
   every prefix of valid streams with the real matchers and the real SelectStreamFactoryProtocol.
   End to end: the same zone chunkings written by a raw TCP client into an in-process MOSN (Auto listener, real
   proxy.OnData); the next chunk is written only after the net.read hook reported the previous one; the requests
   the HTTP/1 upstream receives are validated by the same trace spec.
   Transport dimension: the Timeout action (read deadline expires between two chunks: nothing lost, no state changed)
   and the peeking wrapper of a TLS-inspector listener are part of Framing.tla; TLC enumerates schedules of chunks and
   expiring deadlines, the driver plays each over the plain socket, mtls.Conn (inspector, plain-text client) and a real
   TLS client through mosn's TLS server side, letting the deadline of the waiting Read expire on demand (no sleeping);
   e2e: listener with inspector + tls_context, plain-text and TLS clients, and a phase with a 150 ms read deadline in
   which the client continues only after the net.read hook showed a read that returned without data in flight.
   Buffer-capacity history (Framing.tla `prior`/`cap`): a read that times out may give a GROWN read buffer back only if
   it is empty (defect ShrinkDropsBufferedBytes rejected); the timeout schedules are also played behind a first message
   of 150+ bytes / 20 KB that was delivered whole and consumed, and natively a cut followed by an expiring deadline at
   every third offset of a stream whose earlier messages made the buffer grow - all under the real startReadLoop
   (the chunk-exact conn is the rawConnection: its deadline error takes the read loop's timeout branch), 3 transports.
   Protocol LIST dimension (Detect.tla `scope`): the selection loop over an ordered list is model-checked against the
   order-free rule (first ok wins; AGAIN while any listed matcher needs bytes; FAILED only if all failed) incl. defect
   LastVerdictWins; TLC emits the list shapes (length <= 3 x position of the connection's own protocol); the driver
   realises them with every registered protocol as partner at the detection function (every prefix), through the
   proxy.OnData-shaped read filter (first read of 1..26 bytes, byte-by-byte) and on in-process MOSN listeners
   configured with downstream_protocol "a,b[,c]".
   Burst dimension (Framing.tla `handled` / Burst / LoopUntilDry): Dispatch is called ONCE per read that brought bytes,
   so its loop has to go round until no complete frame is left, however many frames that read made available; the
   number of frames that become complete with one read is a dimension of the cases. The model rejects the named
   defect BoundedFramesPerDispatch (bound 2, burst 3); TLC enumerates the chunkings of 3 (thorough: 4) small model
   frames (Framing_burst.cfg) and the driver realises each with one model frame = a run of 100 (and 367 / 275) real
   messages of every protocol variant: 300 .. 1100 messages, delivered in one read (listener read buffer sized to
   fit), in two / three reads cut inside a message, and with the default 128-byte read buffer that grows while the
   stream passes; reference = the same stream delivered 1..8 messages per read. The driver records how every chunk
   was really cut into Read calls and the check refuses to conclude unless a single real read completed >= 250
   messages for every protocol. HTTP/1 additionally end to end (a few hundred pipelined requests in one write)."""
import concurrent.futures as cf
import bisect, json, os, random, re
import vlib

LEVEL = "model_checking"

PROTOS = ["bolt", "boltv2", "dubbo", "dubbo-thrift", "tars", "Http1", "Http2"]


def mismatches(txt):
    out = {}
    for m in re.finditer(r'<<\s*"MISMATCH",\s*(\d+),\s*"([^"]+)"\s*>>', txt):
        out.setdefault(int(m.group(1)), set()).add(m.group(2))
    return out


def drive(ctx, binary, mode, proto, extra, tag):
    """Run the driver for one protocol; a hang of the code under test ends the process (exit 4) after the
    event was recorded, and the driver is restarted behind the stream variant that hung."""
    parts, frm = [], 0
    for attempt in range(12):
        part = os.path.join(ctx.tmp, "%s_%s_%d.ndjson" % (tag, proto, attempt))
        status = part + ".status"
        vlib.run_driver(ctx, binary, ["-mode", mode, "-protos", proto, "-trace", part, "-status", status,
                                      "-from", str(frm)] + extra, timeout=1500, ok_codes=(0, 4))
        parts.append(part)
        try:
            nxt = int(open(status).read().strip())
        except Exception:
            raise vlib.Inconclusive("driver left no status (%s %s)" % (mode, proto))
        if nxt < 0:
            return parts
        frm = nxt
    raise vlib.Inconclusive("driver kept hanging (%s %s)" % (mode, proto))


def variant(run):
    v = run.get("proto", "?")
    if run.get("proto") == "Http2":
        v += "/cont%d" % run.get("conts", 0)
    mode = run.get("mode", "?")         # listener configuration: fixed | auto | list | list:<a,b,..>
    if mode.startswith("list:"):        # class of list: its length and the position of the connection's own protocol
        mode = "list%s/own%s" % (run.get("listn", "?"), run.get("ownpos", "?"))
    v += "/" + mode
    if run.get("transport", "plain") != "plain":
        v += "/" + run["transport"]       # inspector (peeking wrapper, plain-text client) | tls
    return v


def run(ctx):
    q = ctx.quick()
    rng = random.Random(ctx.seed)

    # ---------- 1. design level
    raw = os.path.join(ctx.tmp, "zones_raw.jsonl")
    r = vlib.run_tlc(ctx, "wire", "Framing", "Framing.cfg" if q else "Framing_thorough.cfg", workers=1, cases_to=raw, timeout=900)
    ctx.add_tlc(r)
    # streams that start with a fixed connection preface (HTTP/2): cuts inside the preface x cuts inside the frames
    praw = os.path.join(ctx.tmp, "zones_pre_raw.jsonl")
    r = vlib.run_tlc(ctx, "wire", "Framing", "Framing_preface.cfg" if q else "Framing_preface_thorough.cfg", workers=1,
                     cases_to=praw, timeout=900)
    ctx.add_tlc(r)
    # transport under the read buffer: schedules of chunks and expiring read deadlines (Timeout action), model-checked
    # for the plain socket and for the peeking inspector wrapper; the schedules are played over every transport
    traw = os.path.join(ctx.tmp, "zones_tmo_raw.jsonl")
    r = vlib.run_tlc(ctx, "wire", "Framing", "Framing_timeout.cfg" if q else "Framing_timeout_thorough.cfg", workers=1,
                     cases_to=traw, timeout=900)
    ctx.add_tlc(r)
    ctx.add_tlc(vlib.run_tlc(ctx, "wire", "Framing", "Framing_timeout_peek.cfg" if q else "Framing_timeout_peek_thorough.cfg", timeout=900))
    # the Dispatch loop under bursts: chunkings of a few small model frames, to be scaled to runs of real messages
    braw = os.path.join(ctx.tmp, "zones_burst_raw.jsonl")
    r = vlib.run_tlc(ctx, "wire", "Framing", "Framing_burst.cfg" if q else "Framing_burst_thorough.cfg", workers=1,
                     cases_to=braw, timeout=900)
    ctx.add_tlc(r)
    # every named defect must be rejected (non-vacuity); these runs are independent of everything else
    defect_cfgs = [("Framing", "Framing_defect_%s.cfg" % d) for d in
                   ("OffByOne", "DrainHeader", "ConsumePartial", "PrefaceFlagEarly", "ShortCountAfterTimeout",
                    "ShrinkDropsBufferedBytes", "BoundedFramesPerDispatch")] + \
                  [("Detect", "Detect_defect.cfg"), ("Detect", "Detect_defect_LastVerdictWins.cfg")]
    dpool = cf.ThreadPoolExecutor(max_workers=4)
    djobs = [(c, dpool.submit(vlib.run_tlc, ctx, "wire", m, c, 2, 600, None, None, False, None, None, None, False, False))
             for m, c in defect_cfgs]
    # detection: the listener's ordered protocol list is a dimension; TLC emits the shapes (length, position of the
    # connection's own protocol) the driver realises with the registered protocols
    lraw = os.path.join(ctx.tmp, "lists_raw.jsonl")
    ctx.add_tlc(vlib.run_tlc(ctx, "wire", "Detect", "Detect.cfg", workers=1, cases_to=lraw))
    lists = os.path.join(ctx.tmp, "lists.jsonl")
    with open(lists, "w") as fh:
        for ln in sorted(set(open(lraw).read().splitlines())):
            fh.write(ln + "\n")

    lines = sorted(set(open(raw).read().splitlines()))
    small = [ln for ln in lines if len(json.loads(ln)["frames"]) <= 2]
    big = [ln for ln in lines if len(json.loads(ln)["frames"]) > 2]
    cap = 8000
    sampled = len(big) > cap
    if sampled:
        big = rng.sample(big, cap)
    plines = sorted(set(open(praw).read().splitlines()))
    pcap = 4000
    if len(plines) > pcap:
        # keep every case whose first read ends inside the preface with <= 1 frame, sample the rest
        keep = [ln for ln in plines if len(json.loads(ln)["frames"]) == 1]
        rest = [ln for ln in plines if len(json.loads(ln)["frames"]) > 1]
        plines = keep + rng.sample(rest, min(pcap, len(rest)))
        sampled = True
    tlines = sorted(set(open(traw).read().splitlines()))
    # buffer-capacity history: schedules behind a large, fully consumed first message are kept only if a deadline expires
    tlines = [ln for ln in tlines if json.loads(ln)["prior"] == 0 or json.loads(ln)["pauses"]]
    tcap = 1000
    if len(tlines) > tcap:
        tlines = rng.sample(tlines, tcap)
        sampled = True
    tlines = [json.dumps(dict(json.loads(ln), tmo=1)) for ln in tlines]
    zones = os.path.join(ctx.tmp, "zones.jsonl")
    with open(zones, "w") as fh:
        for ln in small + big + plines + tlines:
            fh.write(ln + "\n")
    ncases = len(small) + len(big) + len(plines) + len(tlines)

    # burst class: the chunkings of the longest model stream; one model frame = a run of `scale` real messages
    bcases = [json.loads(ln) for ln in sorted(set(open(braw).read().splitlines()))]
    nmax = max(len(c["frames"]) for c in bcases)
    bcases = [c for c in bcases if len(c["frames"]) == nmax]
    few = [c for c in bcases if len(c["cuts"]) <= 2]                 # one read; two reads, every position of the cut
    three = [c for c in bcases if len(c["cuts"]) == 3]
    if len(three) > (3 if q else 24):
        three = rng.sample(three, 3 if q else 24)
        sampled = True
    borders = set(sum(c["frames"][:k + 1]) for c in bcases[:1] for k in range(nmax))
    inside = [c for c in few if len(c["cuts"]) == 2 and c["cuts"][0] not in borders]
    huge = [c for c in few if len(c["cuts"]) == 1] + (rng.sample(inside, min(len(inside), 2)) if q else inside)
    hscale = -(-1100 // nmax)                                         # beyond any plausible per-call bound
    bursts = os.path.join(ctx.tmp, "bursts.jsonl")
    with open(bursts, "w") as fh:
        for c in few + three:
            fh.write(json.dumps(dict(c, scale=100)) + "\n")
        for c in huge:
            fh.write(json.dumps(dict(c, scale=hscale)) + "\n")
    nbursts = len(few) + len(three) + len(huge)
    bytewise = set(rng.sample(PROTOS, 2)) if q else set(PROTOS)       # a hundred messages byte by byte: a sample

    # ---------- 2. real code: record (one driver process per protocol, in parallel)
    binary = vlib.go_build("c07")
    nrand = "12" if q else "120"
    jobs = []
    with cf.ThreadPoolExecutor(max_workers=8) as ex:
        for p in PROTOS:
            jobs.append(("framing", ex.submit(drive, ctx, binary, "zones", p, ["-cases", zones], "z")))
            jobs.append(("framing", ex.submit(drive, ctx, binary, "native", p, ["-random", nrand, "-lists", lists], "n")))
            jobs.append(("framing", ex.submit(drive, ctx, binary, "burst", p,
                                              ["-bursts", bursts] + (["-bytewise"] if p in bytewise else []), "b")))
        jobs.append(("detect", ex.submit(drive, ctx, binary, "detect", ",".join(PROTOS), ["-lists", lists], "d")))
        # end to end: in-process MOSN (Auto listener, real proxy filter, real sockets), HTTP/1 upstream sees the requests
        jobs.append(("framing", ex.submit(drive, ctx, binary, "e2e", "Http1", ["-cases", zones, "-random", nrand, "-bursts", bursts], "e")))
        parts = {"framing": [], "detect": []}
        for kind, j in jobs:
            parts[kind] += j.result()

    for c, j in djobs:
        if j.result()["ok"]:
            raise vlib.Inconclusive("the model does not reject %s: invariants vacuous" % c)
    dpool.shutdown()

    # ---------- 3. TLC decides
    nruns = nfeeds = nontrivial = 0
    realised = {}     # protocol -> most messages a single real Read call completed in a burst run
    for kind, mod in (("framing", "FramingTrace"), ("detect", "DetectTrace")):
        trace = os.path.join(ctx.tmp, kind + ".ndjson")
        with open(trace, "w") as fo:
            for p in parts[kind]:
                fo.write(open(p).read())
        evs = vlib.read_jsonl(trace)
        if not evs:
            raise vlib.Inconclusive("empty %s trace" % kind)
        v = vlib.validate_trace(ctx, "wire", mod, mod + ".cfg", trace, timeout=2400)
        ctx.cov["states"] += v["distinct"]
        ctx.cov["transitions"] += v["generated"]
        ctx.cov.setdefault("trace_events", {})[kind] = len(evs)
        mm = mismatches(v["text"])
        if not v["accepted"] and not mm and v["matched"] is None:
            raise vlib.Inconclusive("trace validation of %s did not complete:\n%s" % (mod, v["text"][-1500:]))
        run_at, cur, chunks = {}, None, 0
        pos = 0
        for i, e in enumerate(evs, 1):
            if e["ev"] in ("run", "drun"):
                cur = e
                pos = 0
                nruns += 1
                if e["ev"] == "run" and len(e.get("cuts", [])) > 1:
                    nontrivial += 1
            elif e["ev"] in ("feed", "pause", "select", "match"):
                nfeeds += 1
                if e["ev"] == "feed" and cur.get("cls") == "burst" and cur.get("transport") == "plain":
                    ends = cur["ends"]
                    for rd in e.get("reads", []):
                        a = bisect.bisect_right(ends, pos)
                        pos += rd
                        b = bisect.bisect_right(ends, pos)
                        realised[cur["proto"]] = max(realised.get(cur["proto"], 0), b - a)
            run_at[i] = cur
        ctx.sample({"part": kind, "trace_head": evs[:4]})

        def sig_of(line, k):
            rn = run_at.get(line) or {}
            if kind == "framing":
                return "C07:%s:%s:%s" % (variant(rn), rn.get("cls", "?"), k)
            e = evs[line - 1]
            who = (":" + e["m"]) if e.get("ev") == "match" else ""
            if e.get("ev") == "select" and "scope" in e:
                who = ":list%s/own%s" % (e.get("listn"), e.get("ownpos"))
            return "C07:detect:%s%s:%s" % (rn.get("truth", "?"), who, k)

        for line, kinds in sorted(mm.items()):
            for k in sorted(kinds):
                vlib.report_failure(ctx, sig_of(line, k), dict(line=line, event=evs[line - 1], run=run_at.get(line),
                                                               context=evs[max(0, line - 4):line]))
        if v["matched"] is not None and v["matched"] < len(evs):
            line = v["matched"] + 1
            vlib.report_failure(ctx, sig_of(line, "trace-rejected:" + evs[line - 1]["ev"]),
                                dict(line=line, event=evs[line - 1], run=run_at.get(line), context=evs[max(0, line - 4):line]))

    # the burst class must have been realised: a single real read that completed several hundred messages
    ctx.cov["burst_messages_completed_by_one_read"] = realised
    for p in PROTOS:
        if realised.get(p, 0) < 250:
            raise vlib.Inconclusive("burst class not realised for %s: at most %d messages became complete in one read" % (p, realised.get(p, 0)))
    ctx.cov["traces_validated_against_impl"] = nruns
    ctx.cov["evaluations"] = nfeeds
    ctx.cov["distinct_nontrivial"] = nontrivial
    ctx.cov["exhaustive"] = not sampled
    ctx.cov["rule"] = ("a trace = one real connection fed one chunking; per protocol variant (bolt, boltv2, each also with v1/v2/oneway "
                       "frames mixed, dubbo, dubbo-thrift, tars, Http1, Http2 with 0/1/2 CONTINUATION): every zone chunking TLC "
                       "enumerates for <=2 frames (%d cases%s), every single cut and byte-by-byte delivery of a 4-message stream "
                       "(7 in thorough), %s seeded random chunkings; every cut set is played on a connection configured with the one protocol "
                       "(stream connection created up front, no matcher - proxy.InitializeReadFilterCallbacks) AND with automatic "
                       "detection (bytewise/random also with a protocol list); Http2 additionally gets the preface cases: cuts at "
                       "first byte / middle / last-1 / end of the 24-byte connection preface x the frame zones; "
                       "an evaluation = one chunk (feed) or one matcher/selection answer judged by TLC; detection: every prefix up "
                       "to 64 bytes, first-frame end -1/0 and full stream, 3 valid streams per variant; e2e: the zone chunkings and random "
                       "chunkings over TCP into an in-process MOSN, upstream arrivals judged; burst class: %d chunkings of %d model "
                       "frames (all with <= 2 reads, a seeded sample with 3) x {one model frame = 100 messages, = %d messages "
                       "for the one-read case and cuts inside a message} x {fixed + fitting read buffer, auto + fitting, auto + "
                       "default growing buffer} per protocol variant, reference = 1..8 messages per read; 100 messages byte by "
                       "byte for %s; e2e: the <= 2-read chunkings of 300 pipelined HTTP/1 requests" % (
                           ncases, ", 3-frame cases sub-sampled by VERIF_SEED" if sampled else "", nrand,
                           nbursts, nmax, hscale, ",".join(sorted(bytewise))))
    ctx.assumptions += ["streams are concatenations of valid request frames on which exactly one registered matcher finally succeeds",
                        "HTTP/2 messages are sent sequentially (no interleaving of streams); tars packets < 256 bytes",
                        "segmentation is imposed below pkg/network (net.Conn.Read returns exactly the chunks); the kernel/TLS layers are out of scope",
                        "layer 1 builds the inspector/TLS server side as serverContextManager.Conn does (that function only wraps *net.TCPConn); "
                        "the real function is exercised in the e2e part; TLS clients are not paused in e2e (a handshake slower than the deadline fails by design)",
                        "HTTP/1 hands every buffered byte to its own bufio reader, so the connection read buffer is empty between reads: "
                        "buffer-capacity defects are decidable on the xprotocols and HTTP/2 only (layer 1), not in the HTTP/1 e2e part",
                        "a Dispatch that has not returned after 25 s (or allocated > 250 MB) on < 1 KB of input counts as a hang"]
