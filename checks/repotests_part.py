"""Trace validation of the REPOSITORY'S OWN tests (binding B2 on executions we did not write): a test package of
mosn/mosn is run with the hooks compiled in (-tags verif) and a sink added through `go test -overlay` (nothing is
written into the repository); every life-cycle event of every request the tests send through their MOSN instances is
recorded and TLC validates the whole record against lifecycle/RequestLifecycleTrace.tla - at most one reply, no attempt
after the reply, clean-up exactly once and only after a reply or an explained end, attempts within the budget.
The tests' own verdicts are not used (several are flaky or fail on the pinned tree); only what the proxy did counts."""
import json, os, subprocess, threading
import vlib
import lifecycle_common as lc

SINK = os.path.join(vlib.VERIF, "harness", "overlay", "zz_verif_sink_test.go.txt")


class RepoTests(threading.Thread):
    def __init__(self, ctx, pkg_dir, pkg_name, run_regex, timeout):
        super().__init__(daemon=True)
        self.ctx, self.pkg_dir, self.pkg_name, self.run_regex, self.timeout = ctx, pkg_dir, pkg_name, run_regex, timeout
        self.trace = os.path.join(ctx.tmp, "repotests_%s.ndjson" % pkg_name)
        self.log = os.path.join(ctx.tmp, "repotests_%s.log" % pkg_name)
        self.rc = None

    def run(self):
        od = os.path.join(self.ctx.tmp, "overlay_" + self.pkg_name)
        os.makedirs(od, exist_ok=True)
        sink = os.path.join(od, "zz_verif_sink_test.go")
        open(sink, "w").write(open(SINK).read().replace("package PKG", "package " + self.pkg_name))
        ov = os.path.join(od, "overlay.json")
        json.dump({"Replace": {os.path.join(vlib.REPO, self.pkg_dir, "zz_verif_sink_test.go"): sink}}, open(ov, "w"))
        env = vlib.go_env()
        env["VERIF_TRACE"] = self.trace
        cmd = ["timeout", "-k", "10", str(self.timeout), "go", "test", "-tags", "verif", "-overlay", ov, "-vet=off", "-count=1"]
        if self.run_regex:
            cmd += ["-run", self.run_regex]
        cmd += ["./" + self.pkg_dir + "/"]
        with open(self.log, "w") as fh:
            self.rc = subprocess.run(cmd, cwd=vlib.REPO, env=env, stdout=fh, stderr=subprocess.STDOUT).returncode


def start(ctx, pkg_dir="test/integrate", pkg_name="integrate", run_regex=None, timeout=900):
    t = RepoTests(ctx, pkg_dir, pkg_name, run_regex, timeout)
    t.start()
    return t


def finish(ctx, t, pid="C03"):
    t.join()
    if not os.path.exists(t.trace) or os.path.getsize(t.trace) == 0:
        ctx.notes.append("repository tests %s produced no life-cycle events (rc=%s): nothing validated" % (t.pkg_dir, t.rc))
        ctx.cov["repo_tests"] = dict(package=t.pkg_dir, requests=0, rc=t.rc)
        return
    evs = []
    for l in open(t.trace):
        try:
            evs.append(json.loads(l))
        except ValueError:
            pass        # a line cut short by the end of the test binary
    evs.sort(key=lambda e: e["seq"])   # the sequence number is taken at the hook, i.e. next to the state change
    p = t.trace + ".sorted"
    with open(p, "w") as fh:
        fh.write(json.dumps({"ev": "run", "name": t.pkg_dir, "budget": 10, "case": {}, "proto": "repotests"}) + "\n")
        for e in evs:
            e.pop("seq", None)
            fh.write(json.dumps(e) + "\n")
    maxrid = max([e.get("rid", 0) for e in evs] + [1])
    cfg = open(os.path.join(vlib.SPEC, "lifecycle", "RequestLifecycleTrace.cfg")).read().replace("MaxRid = 100000", "MaxRid = %d" % maxrid)
    v = vlib.validate_trace(ctx, "lifecycle", "RequestLifecycleTrace", "RequestLifecycleTrace.cfg", p, timeout=900,
                            extra_files={"RequestLifecycleTrace.cfg": cfg})
    mm = lc.mismatches(v["text"])
    if not v["accepted"] and not mm and v["matched"] is None:
        raise vlib.Inconclusive("trace validation of the repository tests did not complete:\n%s" % v["text"][-1200:])
    allev = [json.loads(l) for l in open(p)]
    nreq = sum(1 for e in evs if e["ev"] == "new")
    ctx.cov["repo_tests"] = dict(package=t.pkg_dir, run=t.run_regex or "all", requests=nreq, events=len(evs), go_test_rc=t.rc)
    ctx.cov["traces_validated_against_impl"] += nreq
    ctx.cov["evaluations"] += nreq
    ctx.cov["states"] += v["distinct"]; ctx.cov["transitions"] += v["generated"]
    def fail(line, kind):
        e = allev[line - 1]
        rid = e.get("rid")
        hist = [x for x in allev[:line] if x.get("rid") == rid]
        vlib.report_failure(ctx, "%s:repotests:%s:%s" % (pid, t.pkg_name, kind), dict(line=line, event=e, request_history=hist[-40:]))
    for line, kinds in sorted(mm.items()):
        for k in sorted(kinds):
            fail(line, k)
    if v["matched"] is not None and v["matched"] < len(allev):
        fail(v["matched"] + 1, "trace-rejected:" + allev[v["matched"]]["ev"])
