"""Shared by the checks built on the in-process MOSN life-cycle drivers (C03, C10, C14, C17)."""
import json, os, re, subprocess, sys
from concurrent.futures import ThreadPoolExecutor
import vlib


IMPL_DEFECTS = ("NoDeadlineCheck", "SilentExitInUpFilter", "StaleFlagAfterRetry", "DropRetryStateWithoutRelease", "StaleWakeEndsRequest",
                "AnsweredCountsAsStarted", "PerTryTimerSurvivesRetry")


def impl_model_checks(ctx):
    """DownstreamImpl: the implementation-shaped model of downstream.go must be hang-free for the repaired design and
    TLC must find the hang / silent exit / fall-out / lost reply / stray per-try timeout for every named defect
    (non-vacuity).  The attempt with two events (behaviour "okclose": answered, then reset behind the answer) doubles the
    state space, so it is checked in configurations of its own: quick - 2 attempts, every behaviour, no per-try timer
    (DownstreamImpl_quick_okclose.cfg); thorough - 2 attempts with the per-try timer (DownstreamImpl_thorough_okclose.cfg)
    and 3 attempts without (DownstreamImpl_thorough_notry.cfg).  The runs go side by side (a share of the cores each)."""
    tier = "quick" if ctx.quick() else "thorough"
    big = ["DownstreamImpl_%s.cfg" % tier, "DownstreamImpl_%s_notry.cfg" % tier, "DownstreamImpl_%s_okclose.cfg" % tier]
    with ThreadPoolExecutor(8) as ex:
        ok = [(cfg, ex.submit(vlib.run_tlc, ctx, "lifecycle", "DownstreamImpl", cfg, workers=max(2, vlib.NCPU // 2 - 1), timeout=1500)) for cfg in big]
        bad = [(d, ex.submit(vlib.run_tlc, ctx, "lifecycle", "DownstreamImpl", "DownstreamImpl_defect_%s.cfg" % d, workers=2, expect_ok=False))
               for d in IMPL_DEFECTS]
        loop = ex.submit(vlib.run_tlc, ctx, "lifecycle", "DownstreamImpl", "DownstreamImpl_loop.cfg", workers=2, expect_ok=False)
        # the end of one stream object (BaseStream: reset path vs response path): OnDestroyStream exactly once; the guided
        # schedule ResetVsResponse of Scenarios.tla is the counterexample of the CheckThenAct defect
        bs = ex.submit(vlib.run_tlc, ctx, "stream", "BaseStream", "BaseStream.cfg", workers=2, timeout=900)
        bsbad = [(d, ex.submit(vlib.run_tlc, ctx, "stream", "BaseStream", "BaseStream_defect_%s.cfg" % d, workers=1, expect_ok=False))
                 for d in ("CheckThenAct", "NoClaim")]
        for cfg, f in ok:
            ctx.add_tlc(f.result())
        for d, f in bad:
            if f.result()["ok"]:
                raise vlib.Inconclusive("DownstreamImpl does not reject defect " + d)
        if loop.result()["ok"]:
            raise vlib.Inconclusive("DownstreamImpl does not show the task-loop fall-out for a small loop bound")
        ctx.add_tlc(bs.result())
        for d, f in bsbad:
            if f.result()["ok"]:
                raise vlib.Inconclusive("BaseStream does not reject defect " + d)


def model_checks(ctx):
    r = vlib.run_tlc(ctx, "lifecycle", "RequestLifecycle", "RequestLifecycle.cfg")
    ctx.add_tlc(r)
    for d in ("RequestLifecycle_defect1.cfg", "RequestLifecycle_defect2.cfg"):
        if vlib.run_tlc(ctx, "lifecycle", "RequestLifecycle", d, expect_ok=False)["ok"]:
            raise vlib.Inconclusive("RequestLifecycle model does not reject " + d)


def scenario_cases(ctx, module, cfg):
    raw = os.path.join(ctx.tmp, module + "_cases.jsonl")
    r = vlib.run_tlc(ctx, "lifecycle", module, cfg, workers=1, cases_to=raw)
    ctx.add_tlc(r)
    return vlib.read_jsonl(raw)


def run_sharded(ctx, cmd, cases, shards, extra_args=None, timeout=1700, tag=""):
    binary = vlib.go_build(cmd)
    cpath = os.path.join(ctx.tmp, cmd + tag + "_picked.jsonl")
    with open(cpath, "w") as fh:
        for c in cases:
            fh.write(json.dumps(c) + "\n")
    procs = []
    env = vlib.go_env()
    env.update(VERIF_SEED=str(ctx.seed), VERIF_TIER=ctx.tier)
    for s in range(shards):
        t = os.path.join(ctx.tmp, "%s%s_trace_%d.ndjson" % (cmd, tag, s))
        r = os.path.join(ctx.tmp, "%s%s_res_%d.jsonl" % (cmd, tag, s))
        lg = open(os.path.join(ctx.tmp, "%s%s_drv_%d.log" % (cmd, tag, s)), "w")
        p = subprocess.Popen(["timeout", "-k", "10", str(timeout), binary, "-cases", cpath, "-trace", t, "-results", r,
                              "-shard", str(s), "-shards", str(shards)] + (extra_args or []),
                             stdout=lg, stderr=subprocess.STDOUT, env=env, cwd=ctx.tmp)
        procs.append((p, t, r, lg))
    traces, results = [], []
    for s, (p, t, r, lg) in enumerate(procs):
        rc = p.wait()
        lg.close()
        for again in range(2):
            if rc == 0:
                break
            # a shard that died at start-up (e.g. its listener port was taken meanwhile) is started again once or twice
            vlib.log("[driver] %s shard %d died rc=%s, restarting" % (cmd, s, rc))
            with open(lg.name, "a") as lg2:
                rc = subprocess.run(["timeout", "-k", "10", str(timeout), binary, "-cases", cpath, "-trace", t, "-results", r,
                                     "-shard", str(s), "-shards", str(shards)] + (extra_args or []),
                                    stdout=lg2, stderr=subprocess.STDOUT, env=env, cwd=ctx.tmp).returncode
        if rc != 0:
            raise vlib.Inconclusive("driver %s shard died rc=%s\n%s" % (cmd, rc, vlib.tail(lg.name)))
        traces.append(t)
        results += vlib.read_jsonl(r)
    return traces, results


def run_sharded_many(ctx, cmd, jobs, timeout=1700):
    """Several run_sharded jobs side by side (each job = dict(cases, shards, extra_args, tag), its own driver processes):
    all shards of all jobs are started at once.  Returns one (traces, results) per job, in order."""
    binary = vlib.go_build(cmd)
    env = vlib.go_env()
    env.update(VERIF_SEED=str(ctx.seed), VERIF_TIER=ctx.tier)
    started = []
    for job in jobs:
        tag = job.get("tag", "")
        cpath = os.path.join(ctx.tmp, cmd + tag + "_picked.jsonl")
        with open(cpath, "w") as fh:
            for c in job["cases"]:
                fh.write(json.dumps(c) + "\n")
        procs = []
        for s in range(job["shards"]):
            t = os.path.join(ctx.tmp, "%s%s_trace_%d.ndjson" % (cmd, tag, s))
            r = os.path.join(ctx.tmp, "%s%s_res_%d.jsonl" % (cmd, tag, s))
            lg = open(os.path.join(ctx.tmp, "%s%s_drv_%d.log" % (cmd, tag, s)), "w")
            argv = ["timeout", "-k", "10", str(timeout), binary, "-cases", cpath, "-trace", t, "-results", r,
                    "-shard", str(s), "-shards", str(job["shards"])] + list(job.get("extra_args") or [])
            procs.append((subprocess.Popen(argv, stdout=lg, stderr=subprocess.STDOUT, env=env, cwd=ctx.tmp), argv, t, r, lg))
        started.append(procs)
    out = []
    for procs in started:
        traces, results = [], []
        for s, (p, argv, t, r, lg) in enumerate(procs):
            rc = p.wait()
            lg.close()
            for again in range(2):
                if rc == 0:
                    break
                vlib.log("[driver] %s shard %d died rc=%s, restarting" % (cmd, s, rc))
                with open(lg.name, "a") as lg2:
                    rc = subprocess.run(argv, stdout=lg2, stderr=subprocess.STDOUT, env=env, cwd=ctx.tmp).returncode
            if rc != 0:
                raise vlib.Inconclusive("driver %s shard died rc=%s\n%s" % (cmd, rc, vlib.tail(lg.name)))
            traces.append(t)
            results += vlib.read_jsonl(r)
        out.append((traces, results))
    return out


def mismatches(txt):
    out = {}
    for m in re.finditer(r'<<\s*"MISMATCH",\s*(\d+),\s*"([^"]+)"\s*>>', txt):
        out.setdefault(int(m.group(1)), set()).add(m.group(2))
    return out


def validate(ctx, pid, traces, results, kinds_for_property=None, module="RequestLifecycleTrace", sigfn=None, ignore_kinds=()):
    """Concatenate the shard traces (every run starts with a `run` event = TraceReset) and let TLC validate."""
    allp = os.path.join(ctx.tmp, pid + "_all.ndjson")
    with open(allp, "w") as fo:
        for t in traces:
            fo.write(open(t).read())
    evs = vlib.read_jsonl(allp)
    maxrid = max([e.get("rid", 0) for e in evs] + [1])
    cfg = open(os.path.join(vlib.SPEC, "lifecycle", module + ".cfg")).read().replace("MaxRid = 100000", "MaxRid = %d" % maxrid)
    v = vlib.validate_trace(ctx, "lifecycle", module, module + ".cfg", allp, timeout=1500, extra_files={module + ".cfg": cfg})
    nruns = sum(1 for e in evs if e["ev"] == "run")
    ctx.cov["traces_validated_against_impl"] += nruns
    ctx.cov["evaluations"] += nruns
    ctx.cov["states"] += v["distinct"]; ctx.cov["transitions"] += v["generated"]
    ctx.cov["trace_events"] = ctx.cov.get("trace_events", 0) + len(evs)
    reached = sum(1 for r in results if r.get("reached"))
    happened = sum(1 for r in results if r.get("happened"))
    held = sum(1 for r in results if r["case"].get("hold", "none") != "none")
    ctx.cov["guided"] = dict(cases=len(results), with_gate=held, gate_reached=reached, overlap_realised=happened)
    ctx.cov["distinct_nontrivial"] = ctx.cov.get("distinct_nontrivial", 0) + happened + (len(results) - held)
    mm = mismatches(v["text"])
    if not v["accepted"] and not mm and v["matched"] is None:
        raise vlib.Inconclusive("trace validation of %s did not complete:\n%s" % (module, v["text"][-1500:]))
    run_at, start = {}, 0
    cur = None
    for i, e in enumerate(evs, 1):
        if e["ev"] == "run":
            cur = e; start = i
        run_at[i] = (cur, start)
    # sample: one complete run
    if evs:
        first_end = next((i for i, e in enumerate(evs) if e["ev"] == "quiesce"), min(len(evs), 12))
        ctx.sample({"run": evs[:first_end + 1]})
    def fail(line, kind):
        runev, st = run_at.get(line, (None, 0))
        case = (runev or {}).get("case", {})
        if (kinds_for_property is not None and kind not in kinds_for_property) or kind in ignore_kinds:
            ctx.notes.append("other-property mismatch %s in case %s" % (kind, json.dumps(case)))
            return
        end = next((j for j in range(line, len(evs) + 1) if evs[j - 1]["ev"] == "quiesce"), line)
        rt = evs[st - 1:end]
        sig = sigfn(pid, kind, case, rt) if sigfn else "%s:%s:hold=%s:during=%s" % (pid, kind, case.get("hold"), case.get("during"))
        vlib.report_failure(ctx, sig, dict(line=line - st, case=case, run_trace=rt))
    for line, kinds in sorted(mm.items()):
        for k in sorted(kinds):
            fail(line, k)
    if v["matched"] is not None and v["matched"] < len(evs):
        fail(v["matched"] + 1, "trace-rejected:" + evs[v["matched"]]["ev"])
    lost = sum(1 for e in evs if e["ev"] == "cdone" and e.get("rid", 1) == 0)
    if nruns and lost * 20 > nruns:
        raise vlib.Inconclusive("%d of %d runs never reached the proxy (no stream was created): driver/listener set-up problem" % (lost, nruns))
    if held and reached * 2 < held:
        raise vlib.Inconclusive("more than half of the guided schedules never reached their gate (%d/%d)" % (reached, held))
    return evs


# kinds of RequestLifecycleTrace that speak about the clusters' circuit-breaker books: C10 judges them, C03 does not
RESOURCE_KINDS = ("requests-resource-not-returned", "pending-resource-not-returned", "retries-resource-not-returned",
                  "request-active-gauge-differs", "ghost-gauge")
RETRY_GATES = ("ds.upreset.retry", "ds.retry.begin", "ds.retry.pool", "ds.retry.chosen", "ds.pe#7", "ds.pe#8", "ds.pe#10")

HANG_KINDS = ("reply-later-than-timeout-plus-slack", "no-reply-in-bounded-time", "client-view-differs", "request-never-ended")


def timer_tag(rt):
    """Root-cause tag of a run whose timeout protection was lost, read off the recorded hook notes."""
    tag = None
    for i, e in enumerate(rt):
        if e.get("ev") != "note":
            continue
        later_attempt = any(x.get("ev") == "attempt" for x in rt[i + 1:])
        a = str(e.get("a", ""))
        if e.get("what") == "us.reset" and a.startswith("UpstreamGlobalTimeout"):
            if a.endswith("ignored-setupretry"):
                return "global-timeout-ignored-during-retry-setup"
            if a.endswith("ignored-already") and later_attempt:
                tag = tag or "global-timeout-ignored-reset-pending-then-retried"
        if e.get("what") == "ds.gtimer" and a == "false" and later_attempt:
            tag = tag or "global-timeout-lost-to-response-that-was-retried"
    return tag


def lifecycle_sig(pid, kind, case, rt):
    tag = timer_tag(rt)
    proto = (rt[0].get("proto") if rt and isinstance(rt[0], dict) else None) or "http1"
    pfx = "" if proto == "http1" else proto + ":"
    if kind in HANG_KINDS and tag:
        return "%s:%stimeout-protection-lost:%s" % (pid, pfx, tag)
    if case.get("steps"):      # explicit schedule: name it by the gates it holds
        return "%s:%s%s:hold=%s:during=steps" % (pid, pfx, kind, "+".join(x[5:] for x in case["steps"] if x.startswith("hold:")))
    return "%s:%s%s:hold=%s:during=%s%s" % (pid, pfx, kind, case.get("hold"), case.get("during"), ":body" if case.get("body") else "")
