"""C08 Malformed input is contained to its own connection.
   spec/wire/Malformed.tla (+Trace): the xprotocol decoders as a five-step machine over layout data, the contract
     (frame | more | error; never panic/loop; no frame from missing bytes; nothing allocated for bytes that have not
     arrived; answer independent of memory behind the received bytes); TLC enumerates every
     <layout, length field, mutation, bytes supplied> case, the driver gives each to the real Decode and matchers.
   spec/wire/MalformedH2.tla (+Trace): HTTP/2 frame shapes (length vs payload, padding, CONTINUATION sequences) and
     HPACK blocks through the real MFramer.ReadFrame / hpack.Decoder.
   spec/server/Containment.tla (+Trace): N connections, one poisoned, on a real MOSN in the driver process."""
import json, os, re, threading
from concurrent.futures import ThreadPoolExecutor
import vlib

LEVEL = "model_checking"

# The three parts run side by side. A part holds LOCK whenever it touches ctx and gives it up while it waits for TLC or a driver.
LOCK = threading.RLock()


def blocking(fn, *a, **k):
    LOCK.release()
    try:
        return fn(*a, **k)
    finally:
        LOCK.acquire()


def run_tlc(*a, **k):
    return blocking(vlib.run_tlc, *a, **k)


def run_driver(*a, **k):
    return blocking(vlib.run_driver, *a, **k)


def validate_trace(*a, **k):
    return blocking(vlib.validate_trace, *a, **k)


MM = re.compile(r'"MISMATCH",\s*(\d+),\s*"([^"]+)"')


def mismatches(txt):
    out = {}
    for m in MM.finditer(txt):
        out.setdefault(int(m.group(1)), set()).add(m.group(2))
    return out


_DRV_N = [0]


def driver_rc(ctx, binary, args, timeout=900):
    """Like vlib.run_driver, but hands back the exit code: a driver that dies is this property's subject, not only a mishap."""
    import subprocess
    env = vlib.go_env()
    env["VERIF_SEED"] = str(ctx.seed)
    env["VERIF_TIER"] = ctx.tier
    env["VERIF_REPO"] = vlib.REPO
    _DRV_N[0] += 1
    logp = os.path.join(ctx.tmp, "c08-driver-%d.log" % _DRV_N[0])

    def go():
        with open(logp, "w") as fh:
            return subprocess.run(["timeout", "-k", "10", str(timeout), binary] + args, stdout=fh, stderr=subprocess.STDOUT,
                                  env=env, stdin=subprocess.DEVNULL, cwd=ctx.tmp).returncode
    rc = blocking(go)
    if rc in (124, 137):
        raise vlib.Inconclusive("driver timeout: %s %s (log %s)\n%s" % (binary, args, logp, vlib.tail(logp)))
    return rc, logp


FATAL = re.compile(r"^(fatal error: .*|panic: .*)$", re.M)


def death_of(logp):
    """First line of a Go runtime fatal error / unrecovered panic in the driver log whose stack runs through mosn packages."""
    txt = open(logp, errors="replace").read()
    m = FATAL.search(txt)
    if not m:
        return None, txt
    rest = txt[m.start():]
    if "mosn.io/mosn/pkg/" not in rest and "mosn.io/pkg/" not in rest:
        return None, txt
    return m.group(1).strip()[:160], rest[:6000]


def case_class(mode, cj):
    if cj is None:
        return "unknown"
    k = cj.get("kind")
    if mode == "xdec":
        if "patch" in cj:
            return "str:%s:%s" % (cj.get("codec"), cj.get("name"))
        return "%s:%s" % (cj.get("codec"), "pristine" if cj.get("mut") == "none" else cj.get("field"))
    if k == "seq":
        return "seq:%s:%s" % (cj.get("target"), cj.get("name"))
    if k == "slist":
        return "slist:%s:id%s" % (cj.get("target"), "+".join(str(x) for x in sorted(set(i["id"] for i in cj.get("items", [])))))
    if k == "hpint":
        return "hpint:%s:%s" % (cj.get("target"), cj.get("field"))
    if k == "fval":
        return "fval:%s:%s" % (H2T.get(cj.get("t"), cj.get("t")), cj.get("vname"))
    if k == "hpack":
        return "hpack:" + "+".join(r["name"] for r in cj.get("reps", []))
    return "h2:" + "+".join(H2T.get(f["t"], str(f["t"])) for f in cj.get("frames", []))


def run_cases(ctx, binary, mode, cases, trace, extra, timeout=900):
    """Runs a unit-level driver over all cases.
    exit 7: a call never returned (cannot be stopped) -> re-run behind that case.
    any other death: if the log shows a runtime fatal error / panic through mosn packages, the case named in the progress
    file is run alone once more; dies again the same way -> VIOLATION ...:process-died:..., and everything is run again
    without that case; survives -> inconclusive."""
    lines = open(cases).read().splitlines()
    prog = trace + ".progress"
    parts, start, rand_off, deaths = [], 0, False, 0
    for attempt in range(60):
        part = "%s.part%d" % (trace, attempt)
        ex = list(extra)
        if rand_off and "-rand" in ex:
            ex[ex.index("-rand") + 1] = "0"
        rc, logp = driver_rc(ctx, binary, ["-mode", mode, "-cases", cases, "-trace", part, "-from", str(start), "-progress", prog] + ex,
                             timeout=timeout)
        parts.append(part)
        if rc == 0:
            break
        if rc == 7:
            m = re.search(r"LOOP at case (\d+)", open(logp, errors="replace").read())
            if not m:
                raise vlib.Inconclusive("driver exit 7 without a loop report\n" + vlib.tail(logp))
            start = int(m.group(1))
            continue
        # the process died
        first, stack = death_of(logp)
        where = open(prog).read().strip() if os.path.exists(prog) else ""
        if not first or not where:
            raise vlib.Inconclusive("driver %s died rc=%s without an attributable runtime error (at: %s)\n%s" % (mode, rc, where[:80], vlib.tail(logp)))
        if where.startswith("case "):
            x = int(where.split()[1])
            cj = json.loads(lines[x - 1]) if 0 < x <= len(lines) else None
            rc2, logp2 = driver_rc(ctx, binary, ["-mode", mode, "-cases", cases, "-trace", trace + ".confirm", "-only", str(x), "-rand", "0"], timeout=300)
            cls, what = case_class(mode, cj), dict(case=x, input=cj)
        else:  # "rand <target> <hex>"
            _, codec, hx = (where.split() + ["", ""])[:3]
            rc2, logp2 = driver_rc(ctx, binary, ["-mode", "one", "-codec", codec, "-hex", hx], timeout=300)
            cls, what = "rand:%s" % codec, dict(input_hex=hx[:400])
        first2, _ = death_of(logp2)
        if rc2 == 0 or first2 != first:
            raise vlib.Inconclusive("driver %s died at %s (%s) but the case alone does not reproduce it (rc=%s, %s)\n%s" %
                                    (mode, where[:80], first, rc2, first2, vlib.tail(logp)))
        vlib.report_failure(ctx, "C08:%s:%s:process-died:%s" % (mode, cls, first), dict(what, died=first, confirmed_alone=True, log_tail=stack))
        vlib.log("[C08] %s: the process died at %s (%s), confirmed alone; going on behind it" % (mode, where[:60], first))
        deaths += 1
        if where.startswith("case "):
            start = x            # the events of the cases before it are on disk; go on behind it
        else:
            rand_off, start = True, len(lines)
    else:
        ctx.notes.append("%s: the driver was restarted %d times (%d deaths); the cases behind case %d were not run" % (mode, len(parts), deaths, start))
    with open(trace, "w") as fo:
        for p in parts:
            if os.path.exists(p):
                fo.write(open(p).read())
    return trace


def validate(ctx, family, module, trace, part, sig_of, count_ev):
    evs = vlib.read_jsonl(trace)
    if not evs:
        raise vlib.Inconclusive("driver produced no events for " + part)
    v = validate_trace(ctx, family, module, module + ".cfg", trace, timeout=2400)
    ctx.cov["states"] += v["distinct"]
    ctx.cov["transitions"] += v["generated"]
    ctx.cov.setdefault("trace_events", {})[part] = len(evs)
    ctx.cov["traces_validated_against_impl"] += sum(1 for e in evs if e["ev"] in count_ev)
    mm = mismatches(v["text"])
    if not v["accepted"] and not mm and v["matched"] is None:
        raise vlib.Inconclusive("trace validation of %s did not complete:\n%s" % (module, v["text"][-1500:]))
    for line, kinds in sorted(mm.items()):
        e = evs[line - 1]
        for k in sorted(kinds):
            vlib.report_failure(ctx, sig_of(e, k), dict(line=line, kind=k, event=e))
    if v["matched"] is not None and v["matched"] < len(evs):
        e = evs[v["matched"]]
        vlib.report_failure(ctx, sig_of(e, "trace-rejected:" + e["ev"]), dict(line=v["matched"] + 1, event=e,
                                                                               context=evs[max(0, v["matched"] - 4):v["matched"] + 1]))
    return evs


def xdec_sig(e, kind):
    if e["ev"] == "rand":
        return "C08:rand:%s:%s" % (e.get("codec"), kind)
    if e["ev"] == "str":
        return "C08:str:%s:%s:%s" % (e.get("codec"), e.get("name"), kind)
    fld = "pristine" if e.get("mut") == "none" else e.get("field")
    return "C08:xdec:%s:%s:%s" % (e.get("codec"), fld, kind)


H2T = {0: "DATA", 1: "HEADERS", 2: "PRIORITY", 3: "RST_STREAM", 4: "SETTINGS", 6: "PING", 7: "GOAWAY", 8: "WINDOW_UPDATE",
       9: "CONTINUATION", 42: "UNKNOWN"}


def h2_sig(e, kind):
    if e["ev"] == "randh2":
        return "C08:randh2:%s:%s" % (e.get("target"), kind)
    if e["ev"] == "seq":
        return "C08:seq:%s:%s:%s" % (e.get("target"), e.get("name"), kind)
    if e["ev"] == "slist":
        ids = sorted(set(i["id"] for i in e.get("items", [])))
        shape = "single" if len(e.get("items", [])) == 1 else "repeated"
        return "C08:slist:%s:%s-id%s:%s" % (e.get("target"), shape, "+".join(map(str, ids)), kind)
    if e["ev"] == "hpint":
        return "C08:hpint:%s:%s:%s" % (e.get("target"), e.get("field"), kind)
    if e["ev"] == "fval":
        return "C08:fval:%s:%s:%s" % (H2T.get(e.get("t"), e.get("t")), e.get("vname"), kind)
    if e["ev"] == "hpack":
        return "C08:hpack:%s:%s" % ("+".join(e.get("reps", [])), kind)
    shape = "+".join(H2T.get(f["t"], str(f["t"])) for f in e.get("frames", []))
    return "C08:h2:%s:%s" % (shape, kind)


def run(ctx):
    q = ctx.quick()
    only = os.environ.get("C08_PARTS", "xdec,h2,e2e").split(",")
    binary = vlib.go_build("c08")

    # ------------------------------------------------------------------ part 1: xprotocol decoders and matchers
    def part_xdec():
        cases = os.path.join(ctx.tmp, "xcases.jsonl")
        r = run_tlc(ctx, "wire", "Malformed", "Malformed.cfg" if q else "Malformed_thorough.cfg", workers=1, cases_to=cases, timeout=1500)
        ctx.add_tlc(r)
        for d in ("AllocBeforeComplete", "NoCompleteCheck", "CompleteIgnoresBias", "UncheckedKvLen"):
            if run_tlc(ctx, "wire", "Malformed", "Malformed_defect_%s.cfg" % d, expect_ok=False)["ok"]:
                raise vlib.Inconclusive("Malformed model does not reject defect " + d)
        # lengths of 2 GiB and more go last: a decoder seen to allocate from a 16 MiB length is not given them
        lines = open(cases).read().splitlines()
        lines.sort(key=lambda ln: '"val":2000000000' in ln)
        open(cases, "w").write("\n".join(lines) + "\n")
        trace = os.path.join(ctx.tmp, "xdec.ndjson")
        run_cases(ctx, binary, "xdec", cases, trace, ["-rand", "3000" if q else "100000"], timeout=1500)
        evs = validate(ctx, "wire", "MalformedTrace", trace, "xdec", xdec_sig, ("xdec",))
        nx = sum(1 for e in evs if e["ev"] in ("xdec", "str"))
        ctx.cov["evaluations"] += sum(len(e["runs"]) + 3 * len(e["ms"]) for e in evs if e["ev"] == "xdec")
        ctx.cov["evaluations"] += sum(3 * e["count"] for e in evs if e["ev"] == "rand")
        ctx.cov["distinct_nontrivial"] += nx
        ctx.sample({"part": "xdec", "event": next((e for e in evs if e["ev"] == "xdec" and e["mut"] != "none" and e["n"] > 30), evs[0])})
        ctx.sample({"part": "rand", "event": next((e for e in evs if e["ev"] == "rand"), None)})

    # ------------------------------------------------------------------ part 2: HTTP/2 framer and HPACK decoder
    def part_h2():
        cases = os.path.join(ctx.tmp, "h2cases.jsonl")
        r = run_tlc(ctx, "wire", "MalformedH2", "MalformedH2.cfg" if q else "MalformedH2_thorough.cfg", workers=1, cases_to=cases, timeout=1500)
        ctx.add_tlc(r)
        for d in ("ContOffsetStuck", "SignedIndexCheck", "SignedStringLength", "TruncatedSizeUpdate", "ValidateFirstOccurrence", "NoRangeCheck", "DataOnClosedAccepted", "FatalOnClosedData"):
            if run_tlc(ctx, "wire", "MalformedH2", "MalformedH2_defect_%s.cfg" % d, expect_ok=False)["ok"]:
                raise vlib.Inconclusive("MalformedH2 model does not reject defect " + d)
        trace = os.path.join(ctx.tmp, "h2.ndjson")
        run_cases(ctx, binary, "h2", cases, trace, ["-rand", "3000" if q else "100000"], timeout=1500)
        evs = validate(ctx, "wire", "MalformedH2Trace", trace, "h2", h2_sig, ("h2", "hpack", "hpint", "fval", "slist", "seq"))
        ctx.cov["evaluations"] += sum(len(e.get("runs", [1, 1])) for e in evs if e["ev"] in ("h2", "hpack", "hpint", "fval", "slist", "seq"))
        ctx.cov["evaluations"] += sum(3 * e["count"] for e in evs if e["ev"] == "randh2")
        ctx.cov["distinct_nontrivial"] += sum(1 for e in evs if e["ev"] in ("h2", "hpack", "hpint", "fval", "slist", "seq"))
        ctx.sample({"part": "hpint", "event": next((e for e in evs if e["ev"] == "hpint" and e["class"] == "maxacc"), None)})
        ctx.sample({"part": "h2", "event": next((e for e in evs if e["ev"] == "h2" and len(e["frames"]) > 2), evs[0])})
        ctx.sample({"part": "hpack", "event": next((e for e in evs if e["ev"] == "hpack" and e["n"] > 3), None)})

    # ------------------------------------------------------------------ part 3: containment on a running MOSN
    def part_e2e():
        menu = os.path.join(ctx.tmp, "menu.jsonl")
        r = run_tlc(ctx, "server", "Containment", "Containment.cfg", cases_to=menu, workers=1, timeout=600)
        ctx.add_tlc(r)
        for d in ("NoRecover", "SilentDecodeError", "SharedPoison", "LeakOnClose"):
            if run_tlc(ctx, "server", "Containment", "Containment_defect_%s.cfg" % d, expect_ok=False)["ok"]:
                raise vlib.Inconclusive("Containment model does not reject defect " + d)
        # the process-wide IoBuffer pool the decoders of all connections share: one owner per buffer, given back once
        ctx.add_tlc(run_tlc(ctx, "server", "BufferPool", "BufferPool.cfg", timeout=300))
        if run_tlc(ctx, "server", "BufferPool", "BufferPool_defect_PutOnDecodeError.cfg", expect_ok=False)["ok"]:
            raise vlib.Inconclusive("BufferPool model does not reject defect PutOnDecodeError")
        trace = os.path.join(ctx.tmp, "e2e.ndjson")

        def e2e_run(tag, extra_args, timeout=600):
            t = "%s.%s" % (trace, tag)
            rc, logp = driver_rc(ctx, binary, ["-mode", "e2e", "-cases", menu, "-trace", t] + extra_args, timeout=timeout)
            return rc, logp, (vlib.read_jsonl(t) if os.path.exists(t) else []), t

        # exit codes: 0 done, 7 bailed out because the proxy wedged (event in the trace); anything else: the process that hosts the
        # proxy died. With a runtime fatal error / panic in its log that is this property's violation once it is pinned on one
        # poison: the poisons are sent again one at a time (the last one sent is it), then that one alone in a fresh process.
        skipped = []
        for _round in range(5):
            rc, logp, evs, tfile = e2e_run("batch%d" % _round, ["-skip", ",".join(skipped)])
            if any(e["ev"] in ("alive", "wedged") for e in evs):
                break
            first, stack = death_of(logp)
            if not first:
                raise vlib.Inconclusive("e2e driver ended rc=%s without verdict events and without a runtime error:\n%s" % (rc, vlib.tail(logp)))
            rc_s, logp_s, evs_s, _ = e2e_run("seq%d" % _round, ["-seq", "-skip", ",".join(skipped)], timeout=900)
            first_s, _ = death_of(logp_s)
            sent = [e for e in evs_s if e["ev"] == "poison"]
            if any(e["ev"] == "alive" for e in evs_s) or first_s != first or not sent:
                raise vlib.Inconclusive("the e2e process died (%s) but not again with the poisons sent one at a time (%s):\n%s" % (first, first_s, stack[:1500]))
            x = sent[-1]
            key = "%s/%s" % (x["proto"], x["name"])
            rc_o, logp_o, evs_o, _ = e2e_run("only%d" % _round, ["-onlyname", key], timeout=300)
            first_o, _ = death_of(logp_o)
            if any(e["ev"] == "alive" for e in evs_o) or first_o != first:
                raise vlib.Inconclusive("the e2e process died (%s) after poison %s but not with that poison alone (%s)" % (first, key, first_o))
            vlib.report_failure(ctx, "C08:e2e:%s:%s:process-died:%s" % (x["proto"], x["name"], first),
                                dict(poison=x, died=first, confirmed_alone=True, log_tail=stack))
            vlib.log("[C08] e2e: the process died after poison %s (%s), confirmed alone; going on without it" % (key, first))
            skipped.append(key)
        else:
            raise vlib.Inconclusive("the e2e process died for more than %d different poisons" % len(skipped))
        import shutil
        shutil.copy(tfile, trace)
        if evs:
            by_c = {}
            for e in evs:
                if e["ev"] == "poison":
                    by_c[e["c"]] = e

            def e2e_sig(e, kind):
                if e["ev"] == "seen":
                    return "C08:e2e:%s:%s:%s" % (e.get("proto"), e.get("name"), kind)
                if e["ev"] == "alloc":
                    fam = re.sub(r"^((?:upstream-)?(?:content-length|chunk-size))-.*$", r"\1", e.get("name", ""))
                    return "C08:e2e:%s:%s:%s" % (e.get("proto"), fam, kind)
                if e["ev"] == "followup":
                    return "C08:e2e:%s:%s:%s" % (e.get("proto"), e.get("name"), kind)
                if e["ev"] == "cpu":
                    return "C08:e2e:%s:%s" % (kind, (e.get("where") or ["unknown"])[0])
                if e["ev"] == "gauge" and e.get("name"):
                    return "C08:e2e:%s:%s:%s" % (e.get("proto"), e.get("name"), kind)
                if e["ev"] == "gauge":
                    return "C08:e2e:%s:%s" % (e.get("listener"), kind)
                if e["ev"] == "serve":
                    return "C08:e2e:%s:%s:%s" % (e.get("c", "").split("-")[0], e.get("what"), kind)
                return "C08:e2e:%s" % kind
            validate(ctx, "server", "ContainmentTrace", trace, "e2e", e2e_sig, ("poison",))
            ctx.cov["evaluations"] += sum(1 for e in evs if e["ev"] in ("seen", "serve", "gauge"))
            ctx.cov["distinct_nontrivial"] += sum(1 for e in evs if e["ev"] == "poison")
            ctx.sample({"part": "e2e", "events": [e for e in evs if e["ev"] in ("poison", "seen")][:4]})
            for e in evs:
                if e["ev"] == "note":
                    ctx.notes.append(e["what"])

    def guarded_part(fn):
        with LOCK:
            return fn()
    parts = [f for name, f in (("e2e", part_e2e), ("xdec", part_xdec), ("h2", part_h2)) if name in only]
    with ThreadPoolExecutor(max_workers=3) as ex:
        futs = [ex.submit(guarded_part, f) for f in parts]
        errs = []
        for f in futs:
            try:
                f.result()
            except Exception as e:   # every part is waited for before the first failure is passed on
                errs.append(e)
    if errs:
        raise errs[0]

    ctx.cov["rule"] = ("xdec: every <layout (10: bolt/boltv2/dubbo/dubbo-thrift/tars x request/response), length field, mutation "
                       "(0,1,2,3,true-1,true+1,16 MiB, sign bit of the field's integer type -1/+0, 2^32 minus what the decoder adds -1/+0, max), number of bytes supplied (every boundary of the layout, of the true and of "
                       "the announced frame, +-1)> enumerated by TLC = one case; each case = 4 real Decode calls (memory behind the "
                       "supplied bytes: none/zeros/ones/continuation) + 15 matcher calls; rand: seeded random strings and random "
                       "corruptions of valid frames, 3 Decode calls each; h2: every <frame type, flags, stream 0/1, length field "
                       "(true, +-1, 0..8, 2^15/2^16/2^23 boundaries, max read size -1/+0/+1, 2^24-1), pad length (incl. 127/128/255), cut> and every HEADERS/CONTINUATION sequence of the "
                       "menu x cut = one case = 4 real ReadFrame calls; hpack: every sequence of <= 2 of 10 representations x every "
                       "prefix = one case = 4 real Write+Close; hpint: every HPACK integer field (index of the 4 representations, name/value length plain and "
                       "Huffman, table size update) x value class {0, max valid, +1, 2^31-1, 2^31, 2^32-1, 2^32, 2^62, 2^63-1, 2^63, 2^63+2^n-2, ten continuation "
                       "bytes} x dynamic table {empty, 2 entries, full} x {bare decoder with/without string limit, server-side framer, client-side framer}; "
                       "fval: WINDOW_UPDATE increments and SETTINGS values {0,1,2^31-1,2^31,2^32-1} on both framers; slist: SETTINGS frames naming an identifier "
                       "1-3 times (every id, legal/absurd values in every order, mixed ids; 102 lists) through the real MServerConn and MClientConn "
                       "(ReadFrame + HandleFrame), followed by a 4000-byte message the connection has to send; seq: 110 frame sequences that are legal frame "
                       "by frame but illegal in the stream's state (7 server-side stream states x 10 test frames, stream 0 / even / lower ids, open header "
                       "block, PUSH_PROMISE; client side: streams never opened / opened / answering / answered) through the same connection objects, then the "
                       "next request; e2e: every poison of the menu of Containment.tla (105: bolt, a panicking codec plug-in, dubbo-thrift, "
                       "HTTP/1, HTTP/2; downstream and upstream side) on its own connection of a real MOSN next to probe connections; after every HTTP/2 poison that left "
                       "the connection open a follow-up request for a 4 KB response on the same connection, after every upstream-side HTTP/2 poison a "
                       "follow-up to a path the upstream answers properly; processor time of the idle process at the end")
    ctx.cov["exhaustive"] = True
    ctx.assumptions += ["decoders are called as the stream layer calls them (fresh buffer-pool context, IoBuffer over the received bytes)",
                        "allocation is measured with runtime/metrics around the call; bound 1 MiB + 16 bytes per supplied byte",
                        "a decoder call that has not returned after 20 s or keeps growing the heap beyond 200 MB is a loop",
                        "e2e: a peer that saw neither bytes nor a close for 8 s calls its connection silent; gauges get 10 s to settle",
                        "a driver process that dies with a Go runtime fatal error / panic whose stack runs through mosn packages is a verdict, not a mishap, once the "
                        "case named in the driver's progress file (e2e: the last poison of a one-at-a-time re-run) kills a fresh process again when run alone; "
                        "otherwise inconclusive",
                        "e2e: a follow-up request that is neither served nor refused within 8 s (or answered 504 by the proxy's own timeout) hangs; "
                        "an idle process that uses more than half a core for 1.5 s spins (goroutine dumps name the function)",
                        "e2e: announced HTTP/1 body sizes are sent one at a time; memory = what the whole process allocated meanwhile, bound 64 MiB; "
                        "after one over-allocation the rest of that family (Content-Length / chunk size, each side) is not sent"]
