"""C08 Malformed input is contained to its own connection.
   spec/wire/Malformed.tla (+Trace): the xprotocol decoders as a five-step machine over layout data, the contract
     (frame | more | error; never panic/loop; no frame from missing bytes; nothing allocated for bytes that have not
     arrived; answer independent of memory behind the received bytes); TLC enumerates every
     <layout, length field, mutation, bytes supplied> case, the driver gives each to the real Decode and matchers.
   spec/wire/MalformedH2.tla (+Trace): HTTP/2 frame shapes (length vs payload, padding, CONTINUATION sequences) and
     HPACK blocks through the real MFramer.ReadFrame / hpack.Decoder.
   spec/server/Containment.tla (+Trace): N connections, one poisoned, on a real MOSN in the driver process."""
import json, os, re
import vlib

LEVEL = "model_checking"

MM = re.compile(r'"MISMATCH",\s*(\d+),\s*"([^"]+)"')


def mismatches(txt):
    out = {}
    for m in MM.finditer(txt):
        out.setdefault(int(m.group(1)), set()).add(m.group(2))
    return out


def run_restartable(ctx, binary, mode, cases, trace, extra, timeout=900):
    """Drivers exit with 7 after a decoder call that never returned (it cannot be stopped); re-run behind that case."""
    parts = []
    start = 0
    for attempt in range(12):
        part = "%s.part%d" % (trace, attempt)
        logp = vlib.run_driver(ctx, binary, ["-mode", mode, "-cases", cases, "-trace", part, "-from", str(start)] + extra,
                               timeout=timeout, ok_codes=(0, 7))
        parts.append(part)
        m = re.search(r"LOOP at case (\d+)", open(logp, errors="replace").read())
        if not m:
            break
        start = int(m.group(1))
    else:
        ctx.notes.append("%s: %d decoder calls never returned; the cases behind case %d were not run" % (mode, len(parts), start))
    with open(trace, "w") as fo:
        for p in parts:
            if os.path.exists(p):
                fo.write(open(p).read())
    return trace


def validate(ctx, family, module, trace, part, sig_of, count_ev):
    evs = vlib.read_jsonl(trace)
    if not evs:
        raise vlib.Inconclusive("driver produced no events for " + part)
    v = vlib.validate_trace(ctx, family, module, module + ".cfg", trace, timeout=2400)
    ctx.cov["states"] += v["distinct"]
    ctx.cov["transitions"] += v["generated"]
    ctx.cov.setdefault("trace_events", {})[part] = len(evs)
    ctx.cov["traces_validated_against_impl"] += sum(1 for e in evs if e["ev"] in count_ev)
    mm = mismatches(v["text"])
    if not v["accepted"] and not mm and v["matched"] is None:
        raise vlib.Inconclusive("trace validation of %s did not complete:\n%s" % (module, v["text"][-1500:]))
    for line, kinds in sorted(mm.items()):
        e = evs[line - 1]
        for k in sorted(kinds):
            vlib.report_failure(ctx, sig_of(e, k), dict(line=line, kind=k, event=e))
    if v["matched"] is not None and v["matched"] < len(evs):
        e = evs[v["matched"]]
        vlib.report_failure(ctx, sig_of(e, "trace-rejected:" + e["ev"]), dict(line=v["matched"] + 1, event=e,
                                                                               context=evs[max(0, v["matched"] - 4):v["matched"] + 1]))
    return evs


def xdec_sig(e, kind):
    if e["ev"] == "rand":
        return "C08:rand:%s:%s" % (e.get("codec"), kind)
    if e["ev"] == "str":
        return "C08:str:%s:%s:%s" % (e.get("codec"), e.get("name"), kind)
    fld = "pristine" if e.get("mut") == "none" else e.get("field")
    return "C08:xdec:%s:%s:%s" % (e.get("codec"), fld, kind)


H2T = {0: "DATA", 1: "HEADERS", 2: "PRIORITY", 3: "RST_STREAM", 4: "SETTINGS", 6: "PING", 7: "GOAWAY", 8: "WINDOW_UPDATE",
       9: "CONTINUATION", 42: "UNKNOWN"}


def h2_sig(e, kind):
    if e["ev"] == "randh2":
        return "C08:randh2:%s:%s" % (e.get("target"), kind)
    if e["ev"] == "hpack":
        return "C08:hpack:%s:%s" % ("+".join(e.get("reps", [])), kind)
    shape = "+".join(H2T.get(f["t"], str(f["t"])) for f in e.get("frames", []))
    return "C08:h2:%s:%s" % (shape, kind)


def run(ctx):
    q = ctx.quick()
    only = os.environ.get("C08_PARTS", "xdec,h2,e2e").split(",")
    binary = None

    # ------------------------------------------------------------------ part 1: xprotocol decoders and matchers
    if "xdec" in only:
        cases = os.path.join(ctx.tmp, "xcases.jsonl")
        r = vlib.run_tlc(ctx, "wire", "Malformed", "Malformed.cfg" if q else "Malformed_thorough.cfg", workers=1, cases_to=cases, timeout=1500)
        ctx.add_tlc(r)
        for d in ("AllocBeforeComplete", "NoCompleteCheck", "CompleteIgnoresBias", "UncheckedKvLen"):
            if vlib.run_tlc(ctx, "wire", "Malformed", "Malformed_defect_%s.cfg" % d, expect_ok=False)["ok"]:
                raise vlib.Inconclusive("Malformed model does not reject defect " + d)
        # 2^32-1 goes last: a decoder seen to allocate from a 16 MiB length is not given 4 GiB
        lines = open(cases).read().splitlines()
        lines.sort(key=lambda ln: '"mut":"max"' in ln)
        open(cases, "w").write("\n".join(lines) + "\n")
        binary = binary or vlib.go_build("c08")
        trace = os.path.join(ctx.tmp, "xdec.ndjson")
        run_restartable(ctx, binary, "xdec", cases, trace, ["-rand", "3000" if q else "100000"], timeout=1500)
        evs = validate(ctx, "wire", "MalformedTrace", trace, "xdec", xdec_sig, ("xdec",))
        nx = sum(1 for e in evs if e["ev"] in ("xdec", "str"))
        ctx.cov["evaluations"] += sum(len(e["runs"]) + 3 * len(e["ms"]) for e in evs if e["ev"] == "xdec")
        ctx.cov["evaluations"] += sum(3 * e["count"] for e in evs if e["ev"] == "rand")
        ctx.cov["distinct_nontrivial"] += nx
        ctx.sample({"part": "xdec", "event": next((e for e in evs if e["ev"] == "xdec" and e["mut"] != "none" and e["n"] > 30), evs[0])})
        ctx.sample({"part": "rand", "event": next((e for e in evs if e["ev"] == "rand"), None)})

    # ------------------------------------------------------------------ part 2: HTTP/2 framer and HPACK decoder
    if "h2" in only:
        cases = os.path.join(ctx.tmp, "h2cases.jsonl")
        r = vlib.run_tlc(ctx, "wire", "MalformedH2", "MalformedH2.cfg" if q else "MalformedH2_thorough.cfg", workers=1, cases_to=cases, timeout=1500)
        ctx.add_tlc(r)
        if vlib.run_tlc(ctx, "wire", "MalformedH2", "MalformedH2_defect_ContOffsetStuck.cfg", expect_ok=False)["ok"]:
            raise vlib.Inconclusive("MalformedH2 model does not reject defect ContOffsetStuck")
        binary = binary or vlib.go_build("c08")
        trace = os.path.join(ctx.tmp, "h2.ndjson")
        run_restartable(ctx, binary, "h2", cases, trace, ["-rand", "3000" if q else "100000"], timeout=1500)
        evs = validate(ctx, "wire", "MalformedH2Trace", trace, "h2", h2_sig, ("h2", "hpack"))
        ctx.cov["evaluations"] += sum(len(e["runs"]) for e in evs if e["ev"] in ("h2", "hpack"))
        ctx.cov["evaluations"] += sum(3 * e["count"] for e in evs if e["ev"] == "randh2")
        ctx.cov["distinct_nontrivial"] += sum(1 for e in evs if e["ev"] in ("h2", "hpack"))
        ctx.sample({"part": "h2", "event": next((e for e in evs if e["ev"] == "h2" and len(e["frames"]) > 2), evs[0])})
        ctx.sample({"part": "hpack", "event": next((e for e in evs if e["ev"] == "hpack" and e["n"] > 3), None)})

    # ------------------------------------------------------------------ part 3: containment on a running MOSN
    if "e2e" in only:
        menu = os.path.join(ctx.tmp, "menu.jsonl")
        r = vlib.run_tlc(ctx, "server", "Containment", "Containment.cfg", cases_to=menu, workers=1, timeout=600)
        ctx.add_tlc(r)
        for d in ("NoRecover", "SilentDecodeError", "SharedPoison", "LeakOnClose"):
            if vlib.run_tlc(ctx, "server", "Containment", "Containment_defect_%s.cfg" % d, expect_ok=False)["ok"]:
                raise vlib.Inconclusive("Containment model does not reject defect " + d)
        binary = binary or vlib.go_build("c08")
        trace = os.path.join(ctx.tmp, "e2e.ndjson")
        # exit codes: 0 done, 7 bailed out because the proxy wedged (event in the trace), 2 = Go runtime died (panic in the proxy)
        logp = vlib.run_driver(ctx, binary, ["-mode", "e2e", "-cases", menu, "-trace", trace], timeout=600, ok_codes=(0, 2, 7))
        logtxt = open(logp, errors="replace").read()
        evs = vlib.read_jsonl(trace) if os.path.exists(trace) else []
        if not any(e["ev"] in ("alive", "wedged") for e in evs):
            m = re.search(r"^(panic: .*|fatal error: .*)$", logtxt, re.M)
            if not m:
                raise vlib.Inconclusive("e2e driver ended without verdict events:\n" + logtxt[-2000:])
            where = re.search(r"^(mosn\.io/mosn/pkg/\S+)\([^()]*\)$", logtxt[m.start():], re.M)
            sent = [e for e in evs if e["ev"] == "poison"]
            seen = set(e["c"] for e in evs if e["ev"] == "seen")
            vlib.report_failure(ctx, "C08:e2e:process-crashed:%s" % (where.group(1) if where else "unknown"),
                                dict(panic=m.group(1)[:300], stack=logtxt[m.start():m.start() + 1500],
                                     poisons_in_flight=[e for e in sent if e["c"] not in seen][:30]))
        if evs:
            by_c = {}
            for e in evs:
                if e["ev"] == "poison":
                    by_c[e["c"]] = e

            def e2e_sig(e, kind):
                if e["ev"] == "seen":
                    return "C08:e2e:%s:%s:%s" % (e.get("proto"), e.get("name"), kind)
                if e["ev"] == "gauge":
                    return "C08:e2e:%s:%s" % (e.get("listener"), kind)
                if e["ev"] == "serve":
                    return "C08:e2e:%s:%s:%s" % (e.get("c", "").split("-")[0], e.get("what"), kind)
                return "C08:e2e:%s" % kind
            validate(ctx, "server", "ContainmentTrace", trace, "e2e", e2e_sig, ("poison",))
            ctx.cov["evaluations"] += sum(1 for e in evs if e["ev"] in ("seen", "serve", "gauge"))
            ctx.cov["distinct_nontrivial"] += sum(1 for e in evs if e["ev"] == "poison")
            ctx.sample({"part": "e2e", "events": [e for e in evs if e["ev"] in ("poison", "seen")][:4]})
            for e in evs:
                if e["ev"] == "note":
                    ctx.notes.append(e["what"])

    ctx.cov["rule"] = ("xdec: every <layout (10: bolt/boltv2/dubbo/dubbo-thrift/tars x request/response), length field, mutation "
                       "(0,1,2,3,true-1,true+1,16 MiB,max), number of bytes supplied (every boundary of the layout, of the true and of "
                       "the announced frame, +-1)> enumerated by TLC = one case; each case = 4 real Decode calls (memory behind the "
                       "supplied bytes: none/zeros/ones/continuation) + 15 matcher calls; rand: seeded random strings and random "
                       "corruptions of valid frames, 3 Decode calls each; h2: every <frame type, flags, stream 0/1, length field "
                       "(true, +-1, 0..8, max read size, +1, 2^24-1), pad length, cut> and every HEADERS/CONTINUATION sequence of the "
                       "menu x cut = one case = 4 real ReadFrame calls; hpack: every sequence of <= 2 of 10 representations x every "
                       "prefix = one case = 4 real Write+Close; e2e: every poison of the menu of Containment.tla (27: bolt, a panicking codec plug-in, dubbo-thrift, "
                       "HTTP/1, HTTP/2; downstream and upstream side) on its own connection of a real MOSN next to probe connections")
    ctx.cov["exhaustive"] = True
    ctx.assumptions += ["decoders are called as the stream layer calls them (fresh buffer-pool context, IoBuffer over the received bytes)",
                        "allocation is measured with runtime/metrics around the call; bound 1 MiB + 16 bytes per supplied byte",
                        "a decoder call that has not returned after 25 s or keeps growing the heap beyond 200 MB is a loop",
                        "e2e: a peer that saw neither bytes nor a close for 8 s calls its connection silent; gauges get 10 s to settle"]
