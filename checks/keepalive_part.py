"""Keep-alive of pooled upstream xprotocol connections (spec/pool/KeepAlive.tla + KeepAliveTrace.tla), a part of C09:
what happens to a pooled connection while no request uses it - heartbeats at the configured tick thresholds, one result
per heartbeat, the connection closed exactly at fail_count_to_close consecutive time-outs and exactly at the idle limit,
nothing after the stop.

1. TLC checks the design (KeepAliveMC.cfg, history-level invariants) and must reject the five defect switches.
2. TLC enumerates operation sequences (tick / ordinary stream / answer / time-out / late answer / peer closes) for every
   configuration of the bounded universe; harness/cmd/ka replays them on the real xprotocolKeepAlive over a real client
   stream connection (bolt, loopback): logical runs (time-outs played by HandleTimeout, several heartbeats outstanding),
   real-time runs (the heartbeat's own timer decides) and fast-fail runs (the real fast task sends every 20 ms).
3. TLC validates every recorded run against KeepAliveTrace (the same step functions as the model)."""
import concurrent.futures as cf
import json, os, re
import vlib

FAM = "pool"
DEFECTS = ("NoResetOnSuccess", "LateAnswerCounts", "TickNotReset", "IdleCountsAcrossRequests", "TimeoutAfterStopCounts")
MM = re.compile(r'<<\s*"MISMATCH",\s*(\d+),\s*"([^"]+)"\s*>>')


def _rich(line):
    """a time-out, an answer and a later time-out in one sequence: where counters that are not reset show"""
    ops = [o["op"] for o in json.loads(line)["ops"]]
    if "expire" not in ops or "ack" not in ops:
        return False
    i = ops.index("expire")
    return "ack" in ops[i:] and "expire" in ops[i + 1 + ops[i + 1:].index("ack"):] if "ack" in ops[i + 1:] else False


def _cases(ctx, cfg, rng, cap, always=None):
    raw = os.path.join(ctx.tmp, "ka_raw_%s.jsonl" % cfg)
    r = vlib.run_tlc(ctx, FAM, "KeepAliveMC", cfg, workers=1, cases_to=raw, timeout=1200)
    ctx.add_tlc(r)
    lines = sorted(set(open(raw).read().splitlines()))
    total = len(lines)
    if cap is not None and total > cap:
        keep = [l for l in lines if always and always(l)]
        if len(keep) > cap // 3:
            keep = rng.sample(keep, cap // 3)
        ks = set(keep)
        rest = [l for l in lines if l not in ks]
        lines = keep + rng.sample(rest, cap - len(keep))
    return lines, total


def run_part(ctx, pid="C09"):
    q = ctx.quick()
    import random
    rng = random.Random(ctx.seed * 7919 + 17)
    ctx.add_tlc(vlib.run_tlc(ctx, FAM, "KeepAliveMC", "KeepAliveMC.cfg" if q else "KeepAliveMC_thorough.cfg", timeout=1500))
    for d in DEFECTS:
        rr = vlib.run_tlc(ctx, FAM, "KeepAliveMC", "KeepAliveMC_defect_%s.cfg" % d, expect_ok=False)
        if rr["ok"]:
            raise vlib.Inconclusive("KeepAlive does not reject defect " + d)

    logical, n5 = _cases(ctx, "KeepAliveMC_cases.cfg", rng, 3000 if q else None)
    deep, n6 = _cases(ctx, "KeepAliveMC_cases_deep.cfg" if q else "KeepAliveMC_cases_thorough.cfg", rng, 3000 if q else 60000, always=_rich)
    real, nr = _cases(ctx, "KeepAliveMC_cases_real.cfg", rng, 64 if q else 600)
    fast, nf = _cases(ctx, "KeepAliveMC_cases_fast.cfg", rng, 48 if q else 400)
    sets = {"logical": logical + deep, "real": real, "fast": fast}
    vlib.log("[ka] sequences: logical %d of %d + %d of %d, real-time %d of %d, fast-fail %d of %d" % (
        len(logical), n5, len(deep), n6, len(real), nr, len(fast), nf))
    binary = vlib.go_build("ka")
    jobs = []
    for mode, lines in sets.items():
        rng.shuffle(lines)
        pth = os.path.join(ctx.tmp, "ka_cases_%s.jsonl" % mode)
        with open(pth, "w") as fo:
            fo.write("\n".join(lines) + "\n")
        shards = {"logical": 4, "real": 8, "fast": 8}[mode] if q else {"logical": 8, "real": 12, "fast": 12}[mode]
        for s in range(shards):
            t = os.path.join(ctx.tmp, "ka-%s-%d.ndjson" % (mode, s))
            jobs.append((mode, t, ["-mode", mode, "-cases", pth, "-trace", t, "-shard", str(s), "-shards", str(shards)]))
    with cf.ThreadPoolExecutor(max_workers=min(len(jobs), max(4, vlib.NCPU))) as ex:
        for f in [ex.submit(vlib.run_driver, ctx, binary, j[2], 1500) for j in jobs]:
            f.result()

    def validate(j):
        return vlib.validate_trace(ctx, FAM, "KeepAliveTrace", "KeepAliveTrace.cfg", j[1], timeout=1500)
    with cf.ThreadPoolExecutor(max_workers=max(2, vlib.NCPU // 2)) as ex:
        results = list(ex.map(validate, jobs))
    nruns = nops = nabandon = 0
    for j, v in zip(jobs, results):
        mode = j[0]
        evs = [json.loads(l) for l in open(j[1])]
        # runs: from one `ka` event to the next
        starts = [i for i, e in enumerate(evs) if e["ev"] == "ka"]
        run_of = {}
        for a, b in zip(starts, starts[1:] + [len(evs)]):
            ab = any(e["ev"] == "note" and e.get("what") == "abandon" for e in evs[a:b])
            nabandon += ab
            for i in range(a, b):
                run_of[i] = (a, b, ab)
        nruns += len(starts)
        nops += sum(1 for e in evs if e["ev"] == "op")
        ctx.cov["states"] += v["distinct"]; ctx.cov["transitions"] += v["generated"]
        mm = {}
        for m in MM.finditer(v["text"]):
            mm.setdefault(int(m.group(1)), set()).add(m.group(2))
        if not v["accepted"] and not mm and v["matched"] is None:
            raise vlib.Inconclusive("keep-alive trace validation did not complete:\n%s" % v["text"][-1200:])
        def fail(line, kind):
            a, b, ab = run_of.get(line - 1, (0, len(evs), False))
            if ab:
                return      # the driver gave this run up (machine too slow for the real timer): not judged
            e = evs[line - 1]
            cfg = evs[a]
            sig = "%s:keepalive:%s:%s" % (pid, mode, kind)
            vlib.report_failure(ctx, sig, dict(mode=mode, line=line, event=e, run=evs[a:min(b, line + 2)],
                                              config={k: cfg.get(k) for k in ("ts", "tf", "fc", "mi", "ff")}))
        for line, kinds in sorted(mm.items()):
            for k in sorted(kinds):
                fail(line, k)
        if v["matched"] is not None and v["matched"] < len(evs):
            fail(v["matched"] + 1, "trace-rejected:" + evs[v["matched"]]["ev"])
    ctx.cov["keepalive"] = dict(runs=nruns, operations=nops, abandoned=nabandon,
                                sequences=dict(logical=len(sets["logical"]), real=len(real), fast=len(fast)),
                                universe=dict(depth5=n5, deeper=n6, real=nr, fast=nf))
    ctx.cov["traces_validated_against_impl"] += nruns
    ctx.cov["evaluations"] += nops
    vlib.log("[ka] %d runs, %d operations validated (%d runs given up)" % (nruns, nops, nabandon))
