"""C06 Configured weights are honoured exactly.
   spec/router/WeightedCluster.tla (+Trace)   spec/cluster/Edf.tla (+Trace)
   binding: B2 trace validation of the real ClusterName() over the whole draw space (random source
   injected through the verif accessor, scan order taken from the visit hook) and of the real weighted
   round-robin balancer's scheduler picks."""
import json, os, re
import vlib

LEVEL = "model_checking"


def mismatches(txt):
    out = {}
    for m in re.finditer(r'<<\s*"MISMATCH",\s*(\d+),\s*"([^"]+)"\s*>>', txt):
        out.setdefault(int(m.group(1)), set()).add(m.group(2))
    return out


def validate_split(ctx, fam, mod, trace, evs, parts):
    """Validate a trace made of independent segments (each starts with a cfg/lb event = reset) as `parts` TLC runs side
    by side; line numbers of the reports are mapped back to the whole trace."""
    if parts <= 1:
        return vlib.validate_trace(ctx, fam, mod, mod + ".cfg", trace, timeout=1200)
    # a segment begins where the driver resets everything: `cfg` (weighted clusters) / `sick` with no host (EDF: the health
    # pattern of the next balancer follows, then its `lb`) - never cut between a `sick` event and the `lb` it belongs to
    starts = [i for i, e in enumerate(evs) if e["ev"] == "cfg" or (e["ev"] == "sick" and not e.get("hs"))]
    if len(starts) < parts * 2:
        return vlib.validate_trace(ctx, fam, mod, mod + ".cfg", trace, timeout=1200)
    lines = open(trace).read().splitlines()
    cuts = [starts[(len(starts) * k) // parts] for k in range(parts)] + [len(lines)]
    cuts[0] = 0
    from concurrent.futures import ThreadPoolExecutor
    def one(k):
        p = "%s.part%d" % (trace, k)
        with open(p, "w") as fh:
            fh.write("\n".join(lines[cuts[k]:cuts[k + 1]]) + "\n")
        return vlib.validate_trace(ctx, fam, mod, mod + ".cfg", p, timeout=1200)
    with ThreadPoolExecutor(max_workers=parts) as ex:
        rs = list(ex.map(one, range(parts)))
    out = dict(accepted=all(r["accepted"] for r in rs), matched=None, text="", distinct=sum(r["distinct"] for r in rs),
               generated=sum(r["generated"] for r in rs), total=len(lines))
    for k, r in enumerate(rs):
        off = cuts[k]
        out["text"] += re.sub(r'<<\s*"MISMATCH",\s*(\d+),\s*', lambda m: '<<"MISMATCH", %d, ' % (int(m.group(1)) + off), r["text"]) + "\n"
        if r["matched"] is not None and r["matched"] < cuts[k + 1] - cuts[k] and out["matched"] is None:
            out["matched"] = r["matched"] + off
    return out


def run(ctx):
    q = ctx.quick()
    # ---------- 1. design level: TLC on the specs (intended design must satisfy the properties)
    wc_cases = os.path.join(ctx.tmp, "wc_cases.jsonl")
    r = vlib.run_tlc(ctx, "router", "WeightedCluster", "WeightedCluster.cfg" if q else "WeightedCluster_thorough.cfg",
                     workers=1, cases_to=wc_cases, timeout=900)
    ctx.add_tlc(r)
    # the named deviation of the pinned code must be *rejected* by the model (non-vacuity of the invariants)
    r = vlib.run_tlc(ctx, "router", "WeightedCluster", "WeightedCluster_defect.cfg", expect_ok=False)
    if r["ok"]:
        raise vlib.Inconclusive("WeightedCluster model does not reject the LeZero defect: invariants vacuous")
    # from the configuration object to the rule: every rule built from one object honours it, the object is left as it was
    ctx.add_tlc(vlib.run_tlc(ctx, "router", "WeightedClusterBuild", "WeightedClusterBuild.cfg"))
    if vlib.run_tlc(ctx, "router", "WeightedClusterBuild", "WeightedClusterBuild_defect_BuildCompactsConfig.cfg", expect_ok=False)["ok"]:
        raise vlib.Inconclusive("WeightedClusterBuild does not reject BuildCompactsConfig")
    edf_raw = os.path.join(ctx.tmp, "edf_raw.jsonl")
    r = vlib.run_tlc(ctx, "cluster", "Edf", "Edf.cfg" if q else "Edf_thorough.cfg", cases_to=edf_raw, timeout=1700)
    ctx.add_tlc(r)
    r = vlib.run_tlc(ctx, "cluster", "Edf", "Edf_defect.cfg", expect_ok=False)
    if r["ok"]:
        raise vlib.Inconclusive("Edf model does not reject the DeadlinePlusWeight defect")
    edf_cases = os.path.join(ctx.tmp, "edf_cases.jsonl")
    # TLC enumerates the weight vectors sorted (the scheduler model is symmetric in the host names); the code under
    # test need not be (storage order of the hosts, first/last comparisons, insertion order of equal deadlines): every
    # vector is replayed in every distinct order of its hosts (<= 3 hosts) or in identity, reverse, the rotations and
    # seeded shuffles (more hosts)
    import itertools, random
    rng = random.Random(ctx.seed)
    seen = set()
    with open(edf_cases, "w") as fh:
        for c in vlib.read_jsonl(edf_raw):
            base = tuple(c["cw"])
            if base in seen:
                continue
            seen.add(base)
            n = len(base)
            if n <= 3:
                orders = sorted(set(itertools.permutations(base)))
            else:
                orders = [base, base[::-1]] + ([] if q else [base[i:] + base[:i] for i in range(1, n)])
                for _ in range(1 if q else 8):
                    x = list(base); rng.shuffle(x); orders.append(tuple(x))
                orders = sorted(set(orders))
            for o in orders:
                fh.write(json.dumps({"cw": {"h%d" % (i + 1): w for i, w in enumerate(o)}}) + "\n")

    # ---------- 2. real code: record
    binary = vlib.go_build("c06")
    wc_trace = os.path.join(ctx.tmp, "wc.ndjson")
    edf_trace = os.path.join(ctx.tmp, "edf.ndjson")
    reps = 8 if q else 24
    vlib.run_driver(ctx, binary, ["-mode", "wc", "-cases", wc_cases, "-trace", wc_trace, "-reps", str(reps)])
    vlib.run_driver(ctx, binary, ["-mode", "edf", "-cases", edf_cases, "-trace", edf_trace, "-reps", "3", "-maxpicks", "160" if q else "0"], timeout=1800)

    # ---------- 3. TLC decides: every recorded step must be a step of the spec
    for fam, mod, trace, part in (("router", "WeightedClusterTrace", wc_trace, "wc"),
                                  ("cluster", "EdfTrace", edf_trace, "edf")):
        evs = vlib.read_jsonl(trace)
        v = validate_split(ctx, fam, mod, trace, evs, 8 if part == "edf" else 1)
        ncalls = sum(1 for e in evs if e["ev"] in ("ret", "choose"))
        ctx.cov["traces_validated_against_impl"] += sum(1 for e in evs if e["ev"] in ("cfg", "lb"))
        ctx.cov["evaluations"] += ncalls
        ctx.cov["states"] += v["distinct"]
        ctx.cov["transitions"] += v["generated"]
        ctx.cov.setdefault("trace_events", {})[part] = len(evs)
        if evs:
            ctx.sample({"part": part, "trace_head": evs[:8]})
        mm = mismatches(v["text"])
        if not v["accepted"] and not mm and v["matched"] is None:
            raise vlib.Inconclusive("trace validation of %s did not complete:\n%s" % (mod, v["text"][-1500:]))
        # locate the configuration each failing line belongs to
        cfg_at = None
        cfgs = {}
        for i, e in enumerate(evs, 1):
            if e["ev"] in ("cfg", "lb"):
                cfg_at = e
            cfgs[i] = cfg_at
        for line, kinds in sorted(mm.items()):
            for kind in sorted(kinds):
                sig = "C06:%s:%s" % (part, kind)
                vlib.report_failure(ctx, sig, dict(line=line, event=evs[line - 1], config=cfgs.get(line),
                                                   context=evs[max(0, line - 6):line]))
        if v["matched"] is not None and v["matched"] < len(evs):
            line = v["matched"] + 1
            sig = "C06:%s:trace-rejected:%s" % (part, evs[line - 1]["ev"])
            vlib.report_failure(ctx, sig, dict(line=line, event=evs[line - 1], config=cfgs.get(line),
                                               context=evs[max(0, line - 6):line]))
    ctx.cov["distinct_nontrivial"] = ctx.cov["evaluations"]
    ctx.cov["rule"] = ("wc: every weight map TLC enumerates (subsets of clusters x weights incl. 0) x every draw in 0..total-1 x %d "
                       "repetitions (map iteration order varies per call; the visit hook records it), each configuration object (clusters stored by ascending / descending name in turn) built into a rule twice with the second rule swept as well and the object compared before/after each build; edf: every configured "
                       "weight vector incl. clamped 0 and 200 in every host order (<= 3 hosts; identity, reverse, a seeded shuffle and in the thorough tier the rotations beyond), 3*sum(w) consecutive ChooseHost calls on the real WRR balancer; "
                       "a case is one real call" % reps)
    ctx.cov["exhaustive"] = True
    ctx.assumptions += ["all hosts healthy for the lag bound (C05 covers unhealthy members)",
                        "weights within the TLC constants; draw injected through rand.Source so Intn(n) returns the chosen value"]
