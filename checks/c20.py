"""C20 The admin config dump never leaks TLS private keys.
   spec/config/ConfigRedact.tla (+Trace): positions where a TLS context can be stored, dump endpoints with their views,
   redaction walk, purity of a dump; two defect switches must be rejected by TLC.  TLC enumerates operation histories
   (initial file with keys at no / every position, runtime Place(position) updates, Dump(endpoint) requests); harness/cmd/c19
   -mode redact replays each one on a real MOSN (real certificates, one distinct private key per position and update, real
   listener/cluster adapters, real admin handler through httptest) and records what every response contained and whether
   the live configuration, the hot-upgrade bytes and the persisted file changed; TLC validates the trace against the spec.
   The position inventory is cross-checked against the tree: every struct field of type TLSConfig found in the
   sources must be mapped to a modelled position, otherwise the check is inconclusive."""
import json, os, random, re, subprocess
import vlib

LEVEL = "model_checking"
FAMILY = "config"

# struct fields of type (v2.)TLSConfig in the tree -> modelled position
SITE_MAP = {
    "pkg/config/v2/upstream.go:Cluster.TLS": "clu",
    "pkg/config/v2/upstream.go:ClusterManagerConfigJson.TLSContext": "cm",
    "pkg/config/v2/server.go:FilterChain.TLSContexts": "lis_ctx/lis_set",
    "pkg/config/v2/server.go:FilterChainConfig.TLSConfig": "lis_ctx",
    "pkg/config/v2/server.go:FilterChainConfig.TLSConfigs": "lis_set",
    "pkg/filter/network/tunnel/agent.go:AgentBootstrapConfig.TLSContext": "ext",
    "pkg/filter/network/tunnel/agent.go:ConnectionConfig.TLSContext": "ext",   # built from the bootstrap config, never stored
    "pkg/mtls/tls_context.go:tlsContext.config": None,                         # runtime object, not configuration
}
GRAPH_MAP = {"servers.0.listeners.0.filter_chains.0.tls_context": "lis_ctx",
             "servers.0.listeners.0.filter_chains.0.tls_context_set.0": "lis_set",
             "cluster_manager.tls_context": "cm", "cluster_manager.clusters.0.tls_context": "clu"}


def mismatches(txt):
    out = {}
    for m in re.finditer(r'<<\s*"MISMATCH",\s*(\d+),\s*"([^"]+)"\s*>>', txt):
        out.setdefault(int(m.group(1)), set()).add(m.group(2))
    return out


def tls_sites(repo):
    """Struct fields whose type mentions TLSConfig, by a source scan of the non-test Go files."""
    sites = []
    fld = re.compile(r"^\s*(\w+)\s+(\[\]|\*)?(v2\.)?TLSConfig\b(\s+`[^`]*`)?\s*(//.*)?$")
    for root in ("pkg", "istio"):
        for dp, dn, fn in os.walk(os.path.join(repo, root)):
            if "_istio152" in dp:
                continue
            for f in fn:
                if not f.endswith(".go") or f.endswith("_test.go"):
                    continue
                p = os.path.join(dp, f)
                cur = None
                for line in open(p, errors="replace"):
                    m = re.match(r"^type\s+(\w+)\s+struct\s*{", line)
                    if m:
                        cur = m.group(1)
                        continue
                    if line.startswith("}"):
                        cur = None
                        continue
                    if cur:
                        m = fld.match(line)
                        if m:
                            sites.append("%s:%s.%s" % (os.path.relpath(p, repo), cur, m.group(1)))
    return sorted(set(sites))


def drive(ctx, binary, trace, cases, ncases, xpath):
    prog = os.path.join(ctx.tmp, "progress-redact.txt")
    work = os.path.join(ctx.tmp, "work-redact")
    os.makedirs(work, exist_ok=True)
    start, fatal = 0, []
    while True:
        if os.path.exists(prog):
            os.remove(prog)
        logp = vlib.run_driver(ctx, binary, ["-mode", "redact", "-trace", trace, "-progress", prog, "-work", work,
                                             "-cases", cases, "-extras", xpath, "-start", str(start)], timeout=1500, ok_codes=(0, 1, 2))
        cur = int(open(prog).read().strip() or "-1") if os.path.exists(prog) else None
        if cur == -1:
            return fatal
        if cur is None or cur < start:
            raise vlib.Inconclusive("redact driver died before its first case:\n%s" % vlib.tail(logp))
        # MOSN ended the process (log.Fatalf / panic) in the middle of a history
        fatal.append((cur, vlib.tail(logp, 6)))
        with open(trace, "a") as fh:
            fh.write(json.dumps({"ev": "final", "kept": [], "placeholder_in_file": False, "handshake": False,
                                 "handshake_msg": "process exit", "reload": False, "fatal": True}) + "\n")
        start = cur + 1
        if len(fatal) > 3:     # stop replaying; what was recorded is still validated
            return fatal


def race_phase(ctx, binary):
    """A persist overlapping an admin dump: TLC enumerates the interleavings of the steps of both (ConfigRedactRace),
    the driver forces each one on the real code through the verif gates, TLC validates the recorded runs."""
    rcases = os.path.join(ctx.tmp, "race.jsonl")
    r = vlib.run_tlc(ctx, FAMILY, "ConfigRedactRace", "ConfigRedactRace.cfg", workers=1, cases_to=rcases, timeout=600)
    ctx.add_tlc(r)
    for d in ("ConfigRedactRace_defect1.cfg", "ConfigRedactRace_defect2.cfg", "ConfigRedactRace_defect3.cfg"):
        if vlib.run_tlc(ctx, FAMILY, "ConfigRedactRace", d, workers=1, expect_ok=False)["ok"]:
            raise vlib.Inconclusive("ConfigRedactRace model does not reject " + d)
    rtrace = os.path.join(ctx.tmp, "race.ndjson")
    work = os.path.join(ctx.tmp, "work-race")
    os.makedirs(work, exist_ok=True)
    vlib.run_driver(ctx, binary, ["-mode", "race", "-cases", rcases, "-trace", rtrace, "-work", work], timeout=900)
    evs = vlib.read_jsonl(rtrace)
    v = vlib.validate_trace(ctx, FAMILY, "ConfigRedactRaceTrace", "ConfigRedactRaceTrace.cfg", rtrace, timeout=900)
    ctx.cov["states"] += v["distinct"]; ctx.cov["transitions"] += v["generated"]
    mm = mismatches(v["text"])
    if not v["accepted"] and not mm and v["matched"] is None:
        raise vlib.Inconclusive("race trace validation did not complete:\n%s" % v["text"][-1500:])
    start_at, cur = {}, 0
    for i, e in enumerate(evs, 1):
        if e["ev"] == "race":
            cur = i
        start_at[i] = cur
    forced = sum(1 for e in evs if e["ev"] == "result" and not e["diverged"])
    total = sum(1 for e in evs if e["ev"] == "result")
    if total and forced * 2 < total:
        raise vlib.Inconclusive("only %d of %d persist/dump interleavings could be forced (gates missing?)" % (forced, total))
    for line, ks in sorted(mm.items()):
        for k in sorted(ks):
            if k.endswith("schedule-not-forced"):
                continue
            run_ = evs[start_at.get(line, 1) - 1:line]
            vlib.report_failure(ctx, "C20:" + k, dict(line=line, schedule=" ".join(e["s"] for e in run_ if e["ev"] == "step"), run=run_))
    if v["matched"] is not None and v["matched"] < len(evs):
        line = v["matched"] + 1
        vlib.report_failure(ctx, "C20:race:trace-rejected:" + evs[line - 1]["ev"], dict(line=line, run=evs[start_at.get(line, 1) - 1:line]))
    ctx.cov["race_schedules"] = {"enumerated": r["cases"], "forced": forced}
    return total


def run(ctx):
    q = ctx.quick()
    rng = random.Random(ctx.seed)
    # ---------- 0. position inventory against the tree
    binary = vlib.go_build("c19")
    gpath = os.path.join(ctx.tmp, "graph.json")
    vlib.run_driver(ctx, binary, ["-mode", "graph", "-out", gpath])
    graph = json.load(open(gpath))
    extras = {}
    for pos in graph["tls_positions"]:
        key = ".".join(str(x) for x in pos)
        if key not in GRAPH_MAP:
            # a typed TLS position the model does not know by name: place a key there through the initial file,
            # no response may show it and the full dump must show the placeholder
            extras["g:" + key] = pos
    sites = tls_sites(vlib.REPO)
    gfields = set()
    for t in graph["types"].values():
        for f in (t["fields"] or []):
            if f.get("elem") == "TLSConfig":
                gfields.add(f["go"])
    unknown = [s for s in sites if s not in SITE_MAP and not (s.startswith("pkg/config/v2/") and s.rsplit(".", 1)[1] in gfields and extras)]
    if unknown:
        raise vlib.Inconclusive("struct fields of type TLSConfig without a modelled position: %s "
                                "(map them in checks/c20.py SITE_MAP and model the position)" % unknown)
    ctx.cov["tls_sites"] = sites

    # ---------- 1. design level
    def with_extras(cfgname):
        txt = open(os.path.join(vlib.SPEC, FAMILY, cfgname)).read()
        if extras:
            txt = txt.replace('"exta"}', '"exta", ' + ", ".join('"%s"' % k for k in sorted(extras)) + "}", 1)
        return txt
    cases = os.path.join(ctx.tmp, "hist.jsonl")
    # pem keys: every depth-2 history (+ sampled depth 3); every key FORM: all one-dump histories from each initial file,
    # and depth-2 histories with runtime updates (sampled in the quick tier)
    plan = [("ConfigRedact.cfg", None), ("ConfigRedact_forms.cfg", None), ("ConfigRedact_spell.cfg", None),
            ("ConfigRedact_forms2.cfg", 250), ("ConfigRedact_spell2.cfg", 150), ("ConfigRedact_d3.cfg", 150)] if q else \
           [("ConfigRedact.cfg", None), ("ConfigRedact_forms.cfg", None), ("ConfigRedact_spell.cfg", None),
            ("ConfigRedact_forms2.cfg", None), ("ConfigRedact_spell2.cfg", None), ("ConfigRedact_d3.cfg", 6000)]
    seen, sampled = set(), False
    with open(cases, "w") as fo:
        for cfg, cap in plan:
            raw = os.path.join(ctx.tmp, "raw_" + cfg + ".jsonl")
            r = vlib.run_tlc(ctx, FAMILY, "ConfigRedact", cfg, workers=1, cases_to=raw, timeout=1500, cfg_text=with_extras(cfg))
            ctx.add_tlc(r)
            lines = sorted(set(open(raw).read().splitlines()) - seen)
            if cap is not None and len(lines) > cap:
                lines = rng.sample(lines, cap)
                sampled = True
            for ln in lines:
                seen.add(ln)
                fo.write(ln + "\n")
    if not q:   # deeper histories, model only (ArrayLen = 2)
        ctx.add_tlc(vlib.run_tlc(ctx, FAMILY, "ConfigRedact", "ConfigRedact_thorough.cfg", timeout=1500,
                                 cfg_text=with_extras("ConfigRedact_thorough.cfg")))
    for d in ("ConfigRedact_defect1.cfg", "ConfigRedact_defect2.cfg", "ConfigRedact_defect3.cfg", "ConfigRedact_defect4.cfg", "ConfigRedact_defect5.cfg"):
        if vlib.run_tlc(ctx, FAMILY, "ConfigRedact", d, expect_ok=False)["ok"]:
            raise vlib.Inconclusive("ConfigRedact model does not reject " + d)

    # ---------- 2. real code
    trace = os.path.join(ctx.tmp, "redact.ndjson")
    xpath = os.path.join(ctx.tmp, "extras.json")
    json.dump(extras, open(xpath, "w"))
    ctx.cov["unnamed_graph_positions"] = sorted(extras)
    fatal = drive(ctx, binary, trace, cases, len(seen), xpath)

    # ---------- 3. TLC decides
    evs = vlib.read_jsonl(trace)
    v = vlib.validate_trace(ctx, FAMILY, "ConfigRedactTrace", "ConfigRedactTrace.cfg", trace, timeout=2400,
                            extra_files={"ConfigRedactTrace.cfg": with_extras("ConfigRedactTrace.cfg")})
    ctx.cov["states"] += v["distinct"]; ctx.cov["transitions"] += v["generated"]
    mm = mismatches(v["text"])
    if not v["accepted"] and not mm and v["matched"] is None:
        raise vlib.Inconclusive("trace validation did not complete:\n%s" % v["text"][-1500:])
    start_at, cur = {}, 0
    for i, e in enumerate(evs, 1):
        if e["ev"] == "new":
            cur = i
        start_at[i] = cur

    def report(line, kind):
        st = start_at.get(line, 1)
        vlib.report_failure(ctx, "C20:" + kind, dict(line=line, history=evs[st - 1:line]))

    for line, ks in sorted(mm.items()):
        for k in sorted(ks):
            report(line, k)
    if v["matched"] is not None and v["matched"] < len(evs):
        report(v["matched"] + 1, "trace-rejected:" + evs[v["matched"]]["ev"])
    nrace = race_phase(ctx, binary)
    if fatal and not ctx.violations and not ctx.known_hits:
        raise vlib.Inconclusive("MOSN exits during the replay of dump histories and the recorded trace shows no disagreement: %s" % fatal[:2])
    if fatal:
        ctx.notes.append("MOSN ended the process in %d histories: %s" % (len(fatal), [f[0] for f in fatal]))
        sampled = True
    # a key-file PATH is not a secret: what the code under verification does with it is recorded, not judged
    pd = [e for e in evs if e["ev"] == "dump" and "path_shown" in e]
    cur_form, shown, replaced = "pem", 0, 0
    for e in evs:
        if e["ev"] == "new":
            cur_form = e.get("form", "pem")
        elif e["ev"] == "dump" and cur_form == "path" and e.get("bytes", 0) > 0:
            if e.get("path_shown"):
                shown += 1
            elif e.get("redacted", 0) > 0:
                replaced += 1
    ctx.cov["key_file_path_in_dumps"] = {"shown_as_is": shown, "replaced_by_placeholder": replaced}
    ctx.notes.append("private_key given as a key-file path: shown as is in %d responses, replaced by the placeholder in %d" % (shown, replaced))
    ndump = sum(1 for e in evs if e["ev"] == "dump")
    ctx.cov["traces_validated_against_impl"] = sum(1 for e in evs if e["ev"] == "new") + nrace
    ctx.cov["evaluations"] = ndump + nrace
    ctx.cov["distinct_nontrivial"] = len(seen)
    ctx.cov["trace_events"] = len(evs)
    for e in evs[:6]:
        ctx.sample({k: e[k] for k in e if k != "handshake_msg"})
    ctx.cov["rule"] = ("every operation history of length MaxOps ending in a dump over Place(8 positions: listener tls_context, listener "
                       "tls_context_set, cluster, cluster manager, extends (tunnel agent), untyped stream-filter config, a 3-element "
                       "context list inside an untyped network-filter config and a 3-element server list inside an extend, the "
                       "array positions with every subset of elements carrying an inline key) and Dump(8 endpoints/parameters), every key of a "
                       "history in one of 7 textual forms (PEM, leading white space, pkcs12 preamble, trailing text, CRLF, EC PARAMETERS + "
                       "key, key-file path; each shown to work by a real handshake), the key NAME at the untyped positions in one of 5 spellings "
                       "(private_key, Private_Key, PRIVATE_KEY, private\\u005fkey, privateKey; what the consumer's json decoding accepts is a key), from an "
                       "initial file with keys nowhere / everywhere (either chain form) / arrays keyed in the first element only, "
                       "enumerated by TLC; each replayed on a real MOSN; a case is one history, an evaluation one admin response "
                       "searched for every key ever configured" + ("; longer histories sampled by VERIF_SEED" if sampled else ""))
    ctx.cov["exhaustive"] = not sampled
    ctx.assumptions += [
        "positions = typed TLSConfig positions of the reflected type graph + the tunnel agent's typed extend + untyped filter "
        "configurations (single context, list of contexts) + an extend with a list of servers; a new TLSConfig-typed struct field or graph position makes the check inconclusive until it is modelled",
        "persist x dump interleavings: all 20 orders of the 3+3 steps x {full, mosnconfig} x {first persist, after a quiet persist}, "
        "forced through the gates cfg.transfer.snapshot/.stored and cfg.redact.copied/.done",
        "keys are searched by a 40-character piece of their base64 body (no escaping can split it)",
        "listeners are registered, not bound: runtime listener updates take the update path of the real connection handler",
    ]
