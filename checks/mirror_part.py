"""The traffic MIRROR stream filter mosn ships (pkg/filter/stream/mirror; route policy request_mirror_policies {cluster,
percent}) bound to C03 and to the fidelity side (spec/lifecycle/Mirror.tla + MirrorTrace.tla), a part of C03.

1. TLC checks the design: one request = a primary flow (receive, mirror filter = sample + take the copy, route actions /
   later filter change the original, attempts with retry, reply, clean) and a mirror flow (send, outcome) whose steps
   interleave freely with the primary's, over every <policy none/0/100, mirror cluster answers ok / answers an error /
   resets / never answers / refuses connections / has no host / has no healthy host / does not exist, primary outcome
   script, retry policy, request shape, later change>.  Invariants: at most one reply and it is the one the primary's
   script owes, as many primary attempts as the primary's outcomes say, ended by the primary's deadline (coarse clock),
   gauge back, the owed number of copies (1 / 0), every copy = the request as it stood when the filter ran, every primary
   delivery carries the route's actions.  Seven named deviations must be rejected, each by its own cfg.
2. The same run prints the case stream, each case with the schedule class the behaviour realised (mirror outcome before
   the primary's final answer / between that answer and the reply / after the reply; copy at the mirror host before / after
   the original was changed).  harness/cmd/mirror realises every case on an in-process MOSN (HTTP/1) with the REAL
   filter: gated recording hosts, verifhook gates us.recv.guard / ds.pe and a filter of its own behind the mirror filter
   steer the schedule class; one shard runs with a single P (GOMAXPROCS=1), where a started goroutine runs only when the
   worker blocks.
3. TLC validates every recorded case against MirrorTrace (Mirror's operators OwedReply / Attempts / Deadline / Want /
   Changed decide), soft expectations; signatures C03:mirror:<kind>:<case class>.
4. The same filter behind an HTTP/2 and behind a bolt listener (driver mode probe, two-way and one-way): a fixed set of
   requests per protocol, judged by MirrorTrace's TProbe (reply owed by the primary's script, one delivery, the owed
   number of copies equal to what the primary host received, the mirror cluster's books back); signatures
   C03:mirror:<kind>:proto=<protocol>[:oneway].  run(ctx, pid, probes=()) leaves them out."""
import collections
import concurrent.futures as cf
import json, os, random, re
import vlib

FAM = "lifecycle"
DEFECTS = {"CopyTakenAfterRouteActions": "CopyFaithful", "ReplyFromMirror": ("AttemptsArePrimarys", "ReplyIsPrimarys"),
           "MirrorFailureFailsRequest": "ReplyIsPrimarys", "MirrorPerAttempt": "MirrorCount", "PercentIgnored": "MirrorCount",
           "WaitsForMirror": "BoundedTime", "CleanWaitsForMirror": "BoundedTime"}
MM = re.compile(r'<<\s*"MISMATCH",\s*(\d+),\s*"([^"]+)"\s*>>')
LEGEND = {"pol": "mirror policy of the route: none (no request_mirror_policies) / p0 (percent 0) / p100",
          "mk": "the mirror cluster: ok answers 200, err answers 500, reset closes the connection without an answer, hang never answers, "
                "refuse refuses connections, nohost has no host, sick has one host that failed its health check, nocluster is not configured",
          "ps": "outcome of each primary attempt (first host of the cluster first, the next one on a retry): ok / s404 / s503 / refuse / hang "
                "(route timeout 400 ms)",
          "rt": "route has retry_policy {retry_on: true, num_retries: 1}",
          "shape": "bare = GET without body, empty = POST with content-length 0, body = POST with a body",
          "mut": "later change of the original: route = request_headers_to_add x-act / request_headers_to_remove x-a / prefix_rewrite /m/ -> /r/; "
                 "filter = a stream filter configured behind the mirror filter (same phase) sets x-late, removes x-a, replaces the body (SetRequestData)",
          "ord": "mfirst = the primary's final answer is sent only after the proxy took in the mirror's outcome; between = the primary's final answer is "
                 "held at the proxy's door (gate us.recv.guard) while the mirror's outcome comes in; mlast = the mirror host acts after the client has its reply",
          "cp": "before = the worker is held behind the AfterRoute filters (gate ds.pe) / the later filter waits until the mirror host has the copy; "
                "after = free run",
          "request": "GET|POST /m/<idx>?q=<idx>, Host h.local, X-Token <name>, x-a: va, x-mut: <mut>, x-keep: k<idx>, body 'body-<name>'"}


def _pick(cases, rng, quick):
    """every case whose later change cannot show needs one copy schedule only; quick: a stratified VERIF_SEED sample"""
    cases = [c for c in cases if not (c["mut"] == "none" and c["cp"] == "before")]
    if not quick:
        return cases
    groups = collections.defaultdict(list)
    for c in cases:
        groups[(c["pol"], c["mk"], c["ord"], c["cp"] if c["mut"] != "none" else "-", c["mut"])].append(c)
    picked = []
    for k in sorted(groups):
        g = groups[k]
        n = 12 if k[0] != "p100" else (9 if k[1] in ("ok", "err", "reset") else 6)
        picked += rng.sample(g, min(n, len(g)))
    return picked


PROBES = ("http2", "bolt")


def run(ctx, pid="C03", probes=PROBES):
    q = ctx.quick()
    rng = random.Random(ctx.seed * 104729 + 7)
    raw = os.path.join(ctx.tmp, "mirror_cases.jsonl")
    pool = cf.ThreadPoolExecutor(max_workers=9)
    bfut = pool.submit(vlib.go_build, "mirror")
    dfut = {d: pool.submit(vlib.run_tlc, ctx, FAM, "Mirror", "Mirror_defect_%s.cfg" % d, workers=1, timeout=600, expect_ok=False) for d in DEFECTS}
    # 1 + 2: the design on the whole universe; the same run prints the cases
    r = vlib.run_tlc(ctx, FAM, "Mirror", "Mirror.cfg" if q else "Mirror_thorough.cfg", workers=max(2, vlib.NCPU // 2), cases_to=raw, timeout=1500)
    ctx.add_tlc(r)
    lines = sorted(set(open(raw).read().splitlines()))
    if len(lines) < 3000:
        raise vlib.Inconclusive("Mirror enumerated only %d cases" % len(lines))
    universe = [json.loads(l) for l in lines]
    for d, f in dfut.items():
        rr = f.result()
        ctx.add_tlc(rr)
        want = DEFECTS[d] if isinstance(DEFECTS[d], tuple) else (DEFECTS[d],)
        if rr["ok"] or rr["violated"] not in want:
            raise vlib.Inconclusive("Mirror does not reject defect %s by %s (got %s)" % (d, "/".join(want), rr["violated"]))
    binary = bfut.result()
    pool.shutdown()

    cases = _pick(universe, rng, q)
    rng.shuffle(cases)
    casef = os.path.join(ctx.tmp, "mirror_picked.jsonl")
    with open(casef, "w") as fo:
        fo.write("\n".join(json.dumps(c, sort_keys=True) for c in cases) + "\n")
    # the single-P shard: cases in which a later change can show, free copy schedule
    onep = [c for c in cases if c["pol"] == "p100" and c["mk"] in ("ok", "err", "reset", "hang") and c["mut"] != "none" and c["cp"] == "after"]
    onep = rng.sample(onep, min(len(onep), 48 if q else 400))
    onepf = os.path.join(ctx.tmp, "mirror_onep.jsonl")
    with open(onepf, "w") as fo:
        fo.write("\n".join(json.dumps(c, sort_keys=True) for c in onep) + "\n")
    shards = 8 if q else 12
    jobs = []
    for s in range(shards):
        t = os.path.join(ctx.tmp, "mirror-%d.ndjson" % s)
        jobs.append((t, "free", ["-cases", casef, "-trace", t, "-shard", str(s), "-shards", str(shards)]))
    t = os.path.join(ctx.tmp, "mirror-1p.ndjson")
    jobs.append((t, "1p", ["-cases", onepf, "-trace", t, "-procs", "1"]))
    for p in probes:   # the same filter behind an HTTP/2 and a bolt listener: a fixed handful of requests each
        t = os.path.join(ctx.tmp, "mirror-probe-%s.ndjson" % p)
        jobs.append((t, "probe:" + p, ["-mode", "probe", "-proto", p, "-trace", t]))
    with cf.ThreadPoolExecutor(max_workers=len(jobs)) as ex:
        for f in [ex.submit(vlib.run_driver, ctx, binary, j[2], 1500) for j in jobs]:
            f.result()

    def validate(j):
        return vlib.validate_trace(ctx, FAM, "MirrorTrace", "MirrorTrace.cfg", j[0], timeout=1200)
    with cf.ThreadPoolExecutor(max_workers=max(2, min(len(jobs), vlib.NCPU // 2))) as ex:
        results = list(ex.map(validate, jobs))

    ncases = nskip = nsteer = 0
    nprobe = collections.Counter()
    replies = collections.Counter()
    copies = collections.Counter()
    for j, v in zip(jobs, results):
        evs = vlib.read_jsonl(j[0])
        ctx.cov["states"] += v["distinct"]; ctx.cov["transitions"] += v["generated"]
        mm = {}
        for m in MM.finditer(v["text"]):
            mm.setdefault(int(m.group(1)), set()).add(m.group(2))
        if not v["accepted"] and not mm and v["matched"] is None:
            raise vlib.Inconclusive("MirrorTrace validation did not complete:\n%s" % v["text"][-1500:])
        for e in evs:
            if e["ev"] == "case":
                ncases += 1
                nsteer += 1 if e.get("steered") and (e["ord"] != "none" or (e["cp"] == "before" and e["mut"] != "none")) else 0
                o = e["obs"]
                replies["%s" % (o["status"] if o["kind"] == "response" else o["kind"])] += 1
                copies[len(o["marr"])] += 1
            elif e["ev"] == "skip":
                nskip += 1
            elif e["ev"] == "probe":
                nprobe[e["proto"]] += 1
        if v["matched"] is not None and v["matched"] < len(evs):
            mm.setdefault(v["matched"] + 1, set()).add("trace-rejected")
        for line, kinds in sorted(mm.items()):
            e = evs[line - 1]
            for k in sorted(kinds):
                sig = "%s:mirror:%s" % (pid, k)
                if e["ev"] == "probe":
                    vlib.report_failure(ctx, sig, dict(kind=k, schedule=j[1], observed=e, seed=ctx.seed, legend="routes: none / p0 / p100 (mirror cluster "
                                                      "mirok) / ref (mirror cluster refuses connections) / absent (no such cluster); the mirror host behaves as the primary's script says"))
                    continue
                vlib.report_failure(ctx, sig, dict(kind=k, schedule=j[1], case={x: e.get(x) for x in ("pol", "mk", "ps", "rt", "shape", "mut", "ord", "cp")},
                                                  name=e.get("name"), idx=e.get("idx"), steered=e.get("steered"), observed=e.get("obs") or e,
                                                  legend=LEGEND, seed=ctx.seed))
    if ncases + nskip != len(cases) + len(onep):
        raise vlib.Inconclusive("mirror driver recorded %d of %d cases" % (ncases + nskip, len(cases) + len(onep)))
    if nskip * 10 > ncases + nskip:
        raise vlib.Inconclusive("%d of %d mirror cases ran while the machine stalled" % (nskip, ncases + nskip))
    by = collections.Counter((c["pol"], c["mk"]) for c in cases)
    ctx.cov["mirror"] = dict(cases=ncases, skipped=nskip, universe=len(universe), picked=len(cases), single_p=len(onep), steered=nsteer,
                             by_policy_and_mirror={"%s/%s" % k: n for k, n in sorted(by.items())},
                             schedule_classes=sorted(set("%s/%s" % (c["ord"], c["cp"]) for c in cases)),
                             replies=dict(replies), copies_per_request={str(k): n for k, n in sorted(copies.items())},
                             defects_rejected=sorted(DEFECTS), exhaustive=not q, probes=dict(nprobe))
    for p in probes:
        if nprobe[p] < 20:
            raise vlib.Inconclusive("mirror probe %s recorded %d requests" % (p, nprobe[p]))
    ctx.cov["traces_validated_against_impl"] += ncases + sum(nprobe.values())
    ctx.cov["evaluations"] += ncases + sum(nprobe.values())
    ctx.assumptions += [
        "mirror part: HTTP/1 downstream and upstream, mirror filter with its default configuration (amplification 1, no broadcast), one request at a "
        "time per MOSN process (%d processes + one with GOMAXPROCS=1); percentages 0 and 100 only; primary scripts of at most %d attempts; route "
        "timeout 400 ms where a primary host never answers; 'reply in bounded time' = reply within the primary's deadline + 700 ms + twice the longest "
        "scheduling gap the driver's watchdog saw during the case, counted from the release of the last hold; the copies a request caused are read off "
        "the recording hosts' logs at the end of the whole run; quick: a VERIF_SEED sample stratified by <policy, mirror cluster, schedule class, later "
        "change> of the %d cases TLC enumerates" % (shards, 2 if q else 3, len(universe)),
        "mirror part, HTTP/2 and bolt (two-way, one-way) listeners: a fixed set of %s requests each (routes without policy / percent 0 / percent 100 / mirror "
        "cluster refusing connections / absent x primary answers ok / 503 / never x body / no body or one-way), the mirror host behaving as the primary's; no "
        "later change, no retry policy, free schedule" % dict(nprobe),
        "mirror part, not driven: broadcast / amplification > 1, a mirror cluster that is also the primary cluster, "
        "percentages between 0 and 100 (the policy's random source)"]
    ctx.sample("mirror filter: %d cases (%d steered schedules) through the real filter, replies %s, copies per request %s" % (
        ncases, nsteer, dict(replies), dict(copies)))
    vlib.log("[mirror] %d cases validated (%d skipped, %d steered), replies %s, copies per request %s" % (ncases, nskip, nsteer, dict(replies), dict(copies)))
