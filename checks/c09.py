"""C09 Upstream connection pools: exclusive leases, no leaks, no dirty reuse.
   spec/pool/PingPongPool.tla: truth (state of every connection) next to the books (idle list, total,
   requests resource) of a ping-pong pool, one action per linearization point; model-checked incl. three
   defect switches.  TLC enumerates every operation history to a bound (B1); each is replayed into the
   real HTTP/1 pool and the real xprotocol ping-pong pool against a scripted upstream; after every
   operation result, books (verif accessors), truth and gauges are recorded and TLC validates the trace
   against PingPongPoolTrace (B2).  Histories whose last operation condemns a connection are also run
   with a NewStream forced into the window in which that connection is being closed; concurrent random
   workers are audited at quiescent points."""
import concurrent.futures as cf
import json, os, re
import vlib
import keepalive_part

LEVEL = "model_checking"
PROTOS = ("http1", "xpp")


def _hist_key(ln):
    return ln


def close_inside_destroy(c):
    """some connection has its close event delivered between the two steps of its stream destruction"""
    ops = c["ops"]
    for i, o in enumerate(ops):
        if o["op"] == "dbegin":
            for j in range(i + 1, len(ops)):
                if ops[j].get("c") == o["c"] and ops[j]["op"] == "dend":
                    break
                if ops[j].get("c") == o["c"] and ops[j]["op"] == "rclose":
                    return any(x["op"] == "dend" and x["c"] == o["c"] for x in ops[j + 1:])
    return False


def gen_cases(ctx, maxops, lines_out, par=False, split=None):
    """split: None = atomic completions only; "all" = histories that contain a two-step completion;
       "race" = of those, the ones with a close event inside a two-step completion"""
    cfg = ("CONSTANTS\n  NClients = 8\n  Configs <- %s\n  MaxOps = %d\n  Defects = {}\n  SplitDestroy = %s\n  LeaseOrder = \"lifo\"\n"
           "SPECIFICATION Spec\nINVARIANTS EmitCase\nCHECK_DEADLOCK FALSE\n") % (
               "ConfigsQuick" if ctx.quick() else "ConfigsAll", maxops, "TRUE" if split else "FALSE")
    raw = os.path.join(ctx.tmp, "raw_%d_%s_%s.jsonl" % (maxops, par, split))
    r = vlib.run_tlc(ctx, "pool", "PingPongPool", "PingPongPool_gen.cfg", workers=1, cases_to=raw, cfg_text=cfg, timeout=1200)
    ctx.add_tlc(r)
    n = 0
    for ln in sorted(set(open(raw).read().splitlines())):
        c = json.loads(ln)
        if split:
            if not any(o["op"] == "dbegin" for o in c["ops"]):
                continue
            if split == "race" and not close_inside_destroy(c):
                continue
        if par:
            lastop = c["ops"][-1]
            if lastop["op"] not in ("reset", "garbage", "resp"):
                continue
            lastop["par"] = True
            ln = json.dumps(c, sort_keys=True)
        if ln not in lines_out:
            lines_out[ln] = True
            n += 1
    return n


MUX_KINDS = (("xmux", 1), ("xmux", 2), ("h2", 1), ("bind", 2))


def mux_cfg(kind, nidx, maxops, trace=False, reqs="{0, 2}", split=False):
    if trace:
        return ("CONSTANTS\n  Kind = \"%s\"\n  NConns = 12\n  NStreams = 12\n  NIdx = %d\n  MaxReqs = {0}\n  MaxOps = 0\n  SplitNew = TRUE\n  Defects = {}\n"
                "SPECIFICATION TraceSpec\nPOSTCONDITION Accepted\nCHECK_DEADLOCK FALSE\n") % (kind, nidx)
    return ("CONSTANTS\n  Kind = \"%s\"\n  NConns = 8\n  NStreams = 8\n  NIdx = %d\n  MaxReqs = %s\n  MaxOps = %d\n  SplitNew = %s\n  Defects = {}\n"
            "SPECIFICATION Spec\nINVARIANTS EmitCase\nCHECK_DEADLOCK FALSE\n") % (kind, nidx, reqs, maxops, "TRUE" if split else "FALSE")


def send_after_something(c):
    """a request taken in its two steps with at least one other operation between the lease and a send"""
    ops = c["ops"]
    for i, o in enumerate(ops):
        if o["op"] == "lease" and any(x["op"] == "send" for x in ops[i + 2:]):
            return True
    return False


def gen_mux_cases(ctx, kind, nidx, maxops, reqs, split=None):
    """split: None = requests in one step ("new") only; "send" = the histories in which some request is taken in the
       code's two steps (a lease and a send); "between" = of those, the ones with an operation between a lease and a send
       (the observation after every operation is validated, so these cover every shorter history that leases a stream).
       Returns (histories, TLC result); thread-safe (the caller registers the TLC run)."""
    raw = os.path.join(ctx.tmp, "mraw_%s_%d_%d_%s.jsonl" % (kind, nidx, maxops, split))
    r = vlib.run_tlc(ctx, "pool", "MuxPool", "MuxPool_gen_%s_%d_%d_%s.cfg" % (kind, nidx, maxops, split), workers=1, cases_to=raw,
                     cfg_text=mux_cfg(kind, nidx, maxops, reqs=reqs, split=bool(split)), timeout=1500)
    out = []
    for ln in sorted(set(open(raw).read().splitlines())):
        c = json.loads(ln)
        if split:
            if not any(o["op"] == "lease" for o in c["ops"]) or not any(o["op"] == "send" for o in c["ops"]):
                continue
            if split == "between" and not send_after_something(c):
                continue
        c["kind"], c["nidx"] = kind, nidx
        out.append(json.dumps(c, sort_keys=True))
    return out, r


def mismatches(txt):
    out = []
    # TLC wraps long tuples over several lines
    for m in re.finditer(r'<<\s*"MISMATCH",\s*(\d+),\s*"([^"]+)"\s*>>', txt):
        out.append((int(m.group(1)), m.group(2)))
    return out


def run(ctx):
    q = ctx.quick()
    import random
    rng = random.Random(ctx.seed)

    # 1. the design: exhaustive model check, defect switches must be rejected
    r = vlib.run_tlc(ctx, "pool", "PingPongPool", "PingPongPool.cfg" if q else "PingPongPool_thorough.cfg", timeout=1500)
    ctx.add_tlc(r)
    for d in ("LeakOnReqOverflow", "DirtyReuse", "ClosedStaysIdle", "CheckThenActOutsideLock"):
        rr = vlib.run_tlc(ctx, "pool", "PingPongPool", "PingPongPool_defect_%s.cfg" % d, expect_ok=False)
        if rr["ok"] or not rr["violated"]:
            raise vlib.Inconclusive("PingPongPool does not reject defect " + d)

    # MuxPool_split_*: the same pools with every request also taken in the code's two steps (lease = NewStream hands out
    # a sender, send = the caller writes the request) and every other operation in between
    mux_cfgs = (("MuxPool_xmux.cfg", "MuxPool_xmux2.cfg", "MuxPool_h2.cfg", "MuxPool_bind.cfg",
                 "MuxPool_split_xmux.cfg", "MuxPool_split_xmux2.cfg", "MuxPool_split_h2.cfg", "MuxPool_split_bind.cfg") if q else
                ("MuxPool_xmux_thorough.cfg", "MuxPool_xmux2.cfg", "MuxPool_h2_thorough.cfg", "MuxPool_bind_thorough.cfg",
                 "MuxPool_split_xmux.cfg", "MuxPool_split_xmux2_thorough.cfg", "MuxPool_split_h2.cfg", "MuxPool_split_bind_thorough.cfg"))
    with cf.ThreadPoolExecutor(max_workers=4) as ex:
        for r in ex.map(lambda cfg: vlib.run_tlc(ctx, "pool", "MuxPool", cfg, workers=max(2, vlib.NCPU // 4), timeout=1500), mux_cfgs):
            ctx.add_tlc(r)
    for d in ("DestroyNotCounted", "GoAwayKeepsAccepting", "DeleteClientInGoAway", "CountOnOneway", "OnewayReleasesOnFailure"):
        rr = vlib.run_tlc(ctx, "pool", "MuxPool", "MuxPool_defect_%s.cfg" % d, expect_ok=False)
        if rr["ok"] or not rr["violated"]:
            raise vlib.Inconclusive("MuxPool does not reject defect " + d)

    # 2. histories for replay
    seq, deeper, par = {}, {}, {}
    depth = 5 if q else 6
    gen_cases(ctx, depth, seq)                     # exhaustive part (seed-independent)
    gen_cases(ctx, depth + 1, deeper)              # one operation deeper: VERIF_SEED-chosen sample
    for d in ((3, 4) if q else (3, 4, 5)):
        gen_cases(ctx, d, par, par=True)
    # completions taken in their two steps (destroy begun / returned to the idle list) with every other
    # operation - in particular the connection's close event - in between
    split = {}
    gen_cases(ctx, depth, split, split="all")
    gen_cases(ctx, depth + 1, split, split="race")
    seq_lines = sorted(seq)
    deep_lines = sorted(deeper)
    cap = 5000 if q else 10 ** 9
    sampled = len(deep_lines) > cap
    if sampled:
        deep_lines = rng.sample(deep_lines, cap)
    seq_lines += deep_lines
    all_lines = seq_lines + list(par) + sorted(split)
    rng.shuffle(all_lines)          # even load per shard; the order of cases does not matter (fresh pool per case)
    cases = os.path.join(ctx.tmp, "cases.jsonl")
    with open(cases, "w") as fo:
        fo.write("\n".join(all_lines) + "\n")
    vlib.log("[c09] histories: %d of depth %d (all) + %d of depth %d%s + %d with a forced close window + %d with two-step completions" % (
        len(seq), depth, len(deep_lines), depth + 1, " (sampled)" if sampled else " (all)", len(par), len(split)))

    # 2b. histories for the multiplexed pools (MuxPool): all of depth mdepth, a VERIF_SEED sample one deeper
    mdepth = 4 if q else 5
    mcap = 2500 if q else 20000
    mux_sampled = False
    mux_files = {}
    n_mux = n_split = 0
    reqs = "{0, 2}" if q else "{0, 1, 2}"
    # requests in two steps (lease ... send): every history of length sdepth that leases a stream and sends a request, and of
    # the histories one operation longer those with something between a lease and a send (VERIF_SEED sample when capped)
    sdepth = 3 if q else 4
    scap = 1500 if q else 10000
    gens = {}
    with cf.ThreadPoolExecutor(max_workers=max(2, vlib.NCPU // 2)) as ex:
        for kind, nidx in MUX_KINDS:
            gens[(kind, nidx, "base")] = ex.submit(gen_mux_cases, ctx, kind, nidx, mdepth, reqs)
            gens[(kind, nidx, "deep")] = ex.submit(gen_mux_cases, ctx, kind, nidx, mdepth + 1, reqs)
            gens[(kind, nidx, "split")] = ex.submit(gen_mux_cases, ctx, kind, nidx, sdepth, reqs, "send")
            gens[(kind, nidx, "split+")] = ex.submit(gen_mux_cases, ctx, kind, nidx, sdepth + 1, reqs, "between")
    for k in sorted(gens):
        ctx.add_tlc(gens[k].result()[1])
    for kind, nidx in MUX_KINDS:
        lines = gens[(kind, nidx, "base")].result()[0]
        deep = gens[(kind, nidx, "deep")].result()[0]
        if len(deep) > mcap:
            deep = rng.sample(deep, mcap)
            mux_sampled = True
        lines += deep
        sp = gens[(kind, nidx, "split")].result()[0]
        sp2 = gens[(kind, nidx, "split+")].result()[0]
        if len(sp2) > scap:
            sp2 = rng.sample(sp2, scap)
            mux_sampled = True
        if not sp or not sp2:
            raise vlib.Inconclusive("no two-step (lease/send) histories for %s/%d" % (kind, nidx))
        n_split += len(sp) + len(sp2)
        lines += sp + sp2
        rng.shuffle(lines)
        n_mux += len(lines)
        pth = os.path.join(ctx.tmp, "mux-%s-%d.jsonl" % (kind, nidx))
        with open(pth, "w") as fo:
            fo.write("\n".join(lines) + "\n")
        mux_files[(kind, nidx)] = pth
    vlib.log("[c09] multiplexed pools: %d histories (depth %d all, depth %d %s; %d of them with a request in two steps, depth %d with lease and send + depth %d with "
             "an operation between lease and send) over %s" % (
        n_mux, mdepth, mdepth + 1, "sampled" if mux_sampled else "all", n_split, sdepth, sdepth + 1, ", ".join("%s/%d" % k for k in MUX_KINDS)))

    # 3. real pools
    binary = vlib.go_build("c09")
    shards = 8 if q else 12
    jobs = []
    PP = ("PingPongPoolTrace", "PingPongPoolTrace.cfg", None)
    for pr in PROTOS:
        for s in range(shards):
            t = os.path.join(ctx.tmp, "hist-%s-%d.ndjson" % (pr, s))
            jobs.append(("hist", pr, t, ["-mode", "hist", "-protos", pr, "-cases", cases, "-trace", t,
                                        "-shard", str(s), "-shards", str(shards)], PP))
        for s in range(2 if q else 4):
            t = os.path.join(ctx.tmp, "stress-%s-%d.ndjson" % (pr, s))
            jobs.append(("stress", pr, t, ["-mode", "stress", "-protos", pr, "-trace", t, "-shard", str(s),
                                          "-rounds", "10" if q else "40", "-workers", "6"], PP))
    mshards = 4 if q else 8
    for (kind, nidx), pth in mux_files.items():
        for s in range(mshards):
            t = os.path.join(ctx.tmp, "mux-%s-%d-%d.ndjson" % (kind, nidx, s))
            jobs.append(("mux", "%s" % kind if nidx == 1 else "%s%d" % (kind, nidx), t,
                         ["-mode", "mux", "-protos", kind, "-cases", pth, "-trace", t, "-shard", str(s), "-shards", str(mshards)],
                         ("MuxPoolTrace", "MuxPoolTrace_run.cfg", mux_cfg(kind, nidx, 0, trace=True))))
    with cf.ThreadPoolExecutor(max_workers=min(len(jobs), max(4, vlib.NCPU))) as ex:
        futs = [ex.submit(vlib.run_driver, ctx, binary, j[3], 1500) for j in jobs]
        for f in futs:
            f.result()

    # 4. TLC validates every recorded trace
    def validate(j):
        mod, cfg, txt = j[4]
        return vlib.validate_trace(ctx, "pool", mod, cfg, j[2], timeout=1500, extra_files={cfg: txt} if txt else None)
    with cf.ThreadPoolExecutor(max_workers=max(2, vlib.NCPU // 2)) as ex:
        results = list(ex.map(validate, jobs))

    nhist = nops = naudit = 0
    kinds = {}
    for j, v in zip(jobs, results):
        mode, pr, path = j[0], j[1], j[2]
        evs = vlib.read_jsonl(path)
        mm = mismatches(v["text"])
        if len(mm) != v["text"].count('"MISMATCH"'):
            raise vlib.Inconclusive("unparsed MISMATCH lines in the TLC output of %s" % path)
        if not v["accepted"] and not mm and v["matched"] is None:
            raise vlib.Inconclusive("trace validation of %s did not complete:\n%s" % (path, v["text"][-1500:]))
        ctx.cov["states"] += v["distinct"]; ctx.cov["transitions"] += v["generated"]
        nhist += sum(1 for e in evs if e["ev"] == "pool")
        nops += sum(1 for e in evs if e["ev"] == "op")
        naudit += sum(1 for e in evs if e["ev"] == "audit")
        if mode in ("hist", "mux") and len([x for x in ctx.cov["samples"] if x.get("proto") == pr]) < 1 and len(evs) > 4:
            ctx.sample({"proto": pr, "trace_head": evs[:4]})
        start_of = {}
        st = 0
        for i, e in enumerate(evs, 1):
            if e["ev"] == "pool":
                st = i
            start_of[i] = st
        def fail(line, kind):
            sig = "C09:%s:%s" % (pr, kind)
            s0 = start_of.get(line, 1)
            vlib.report_failure(ctx, sig, dict(proto=pr, mode=mode, line=line, history=evs[s0 - 1:line]))
            kinds[sig] = kinds.get(sig, 0) + 1
        for line, kind in mm:
            fail(line, kind)
        if v["matched"] is not None and v["matched"] < len(evs):
            e = evs[v["matched"]]
            fail(v["matched"] + 1, "trace-rejected:" + e["ev"] + ":" + str(e.get("op", "")))
    if nhist == 0 or nops == 0:
        raise vlib.Inconclusive("no histories were replayed")
    ctx.cov["traces_validated_against_impl"] = nhist
    ctx.cov["evaluations"] = nops + naudit
    ctx.cov["distinct_nontrivial"] = len(all_lines) * len(PROTOS) + n_mux
    ctx.cov["mux_histories"] = n_mux
    ctx.cov["mux_two_step_histories"] = n_split
    n_sendfail = {}
    for j in jobs:
        if j[0] == "mux":
            for e in vlib.read_jsonl(j[2]):
                if e.get("op") == "send" and e.get("res") == "sendfail":
                    k = j[1] + (":oneway" if e.get("oneway") else ":two-way")
                    n_sendfail[k] = n_sendfail.get(k, 0) + 1
    ctx.cov["mux_failed_sends"] = n_sendfail
    if not any(k.endswith(":oneway") for k in n_sendfail) or not any(k.endswith(":two-way") for k in n_sendfail):
        raise vlib.Inconclusive("no request of the two-step histories had its write fail on the real pools: %r" % n_sendfail)
    ctx.cov["mux_deeper_layer_sampled"] = mux_sampled
    ctx.cov["mismatch_kinds"] = kinds
    ctx.cov["exhaustive"] = True      # all histories up to the stated depth are replayed; the deeper layer is a sample when capped
    ctx.cov["deeper_layer_sampled"] = sampled
    ctx.cov["rule"] = ("every operation history of length %d over {new(up/down), resp, resp+go-away, local reset, undecodable answer, "
                       "remote close of a leased or idle connection, pool Close, pool Shutdown} enabled in PingPongPool "
                       "(configs max_connections x max_requests in %s), TLC-enumerated, replayed into the HTTP/1 pool and the xprotocol "
                       "ping-pong pool; histories of length 3..%d ending in an exchange end are replayed again with a NewStream forced "
                       "into the connection's Close(); every history of that length that takes a completion in its two steps (stream destroyed with the "
                       "destroying goroutine held at the request resource / returned to the idle list) with any operation in between, and the "
                       "histories one operation longer in which that connection's close event falls between the two steps; plus %d histories one operation deeper (VERIF_SEED sample when capped); "
                       "distinct = histories x pools. Multiplexed pools (MuxPool): every history of length %d (and a VERIF_SEED sample / all of length %d) over "
                       "{new (up/down, one-way, retry on the downstream context of an ended attempt), response, local reset, peer reset (h2), go-away, "
                       "remote close, undecodable input, pool Close, Shutdown} with max_requests in %s, replayed into the xprotocol multiplex pool "
                       "(1 and 2 client indexes), the HTTP/2 pool and the binding pool (2 downstream connections, plus the operation 'downstream connection closes')") % (
                           depth, "6 of {0,1,2}^2" if q else "{0,1,2}^2", 4 if q else 5, len(deep_lines),
                           mdepth, mdepth + 1, "{0,2}" if q else "{0,1,2}")
    ctx.cov["rule"] += ("; a request in the code's two steps (MuxPool SplitNew): lease = CheckAndInit + NewStream hands out a sender (the admission is taken, "
                        "nothing is written), send = the caller writes the request (encodable or refused by the encoder), two-way and one-way, with "
                        "every other operation of the history in between (remote close, undecodable input, go-away, pool Close, Shutdown, downstream close, "
                        "another stream's completion or reset, a local reset of the leased stream itself): every history of length %d that leases a stream and sends a request and the "
                        "histories of length %d with an operation between a lease and a send (VERIF_SEED sample of %d per pool when capped), %d histories; the "
                        "connection's close has gone through every listener on the proxy side before the write, so the write really fails") % (
                            sdepth, sdepth + 1, scap, n_split)
    # 5. the pooled connection while no request uses it: heartbeats, fail / idle close (KeepAlive.tla)
    keepalive_part.run_part(ctx, "C09")
    __import__("conn_part").run(ctx, "C09")     # 6. the connection object itself: close event exactly once, Write/Close races (spec/network/Connection.tla)
    ctx.cov["rule"] += ("; keep-alive of a pooled connection (KeepAlive): TLC-enumerated operation sequences over {tick, ordinary stream, answer, "
                        "time-out, late answer, peer closes} for tick thresholds x fail threshold x idle limit, replayed into the real keep-alive object "
                        "with logical time-outs, real timers and the real fast-fail task")
    ctx.assumptions += [
        "keep-alive runs: the peer is the driver; a tick is a direct SendKeepAlive() call (what keepAliveListener does on a read-idle event); logical time-out = HandleTimeout(id), what the heartbeat's timer calls",
        "the scripted upstream answers/closes exactly when the driver says; connect failure = a loopback port that refuses",
        "xprotocol ping-pong pool is driven with a harness codec: bolt wire format with PoolMode()=PingPong and no heartbeat",
        "go-away: HTTP/1 'Connection: close' response, xprotocol GoAway frame before the response; the upstream itself keeps the connection open",
        "truth = state of the connection objects the pool created (wrapped types.Host), connection each request arrived on at the upstream, live streams by stream event listener",
        "multiplex pool driven with a harness codec (bolt wire format, PoolMode()=Multiplex, heartbeat on); HTTP/2 pool against a raw-frame h2c peer "
        "(SETTINGS/PING handled, HEADERS = request, answers HEADERS+END_STREAM, RST_STREAM, GOAWAY with last-stream-id 2^31-1)",
        "a go-away is known to be handled when a probe sent after it (heartbeat / PING) is acknowledged or the connection closes",
        "binding pool driven with a harness codec (bolt wire format, PoolMode()=TCP) and stand-in downstream connections (id, event listeners, Close) for 2 downstream connections",
    ]
