"""From the published stream-filter list of a listener to the chain a new stream gets (spec/lifecycle/FilterPublish.tla +
FilterPublishTrace.tla), a part of C14: 'stream filters run in configured order' over the life of a listener = the order
of the list published LAST. TLC checks the model (the chain is the creatable entries of the last list; defect
KeepUnchangedByIndex rejected) and enumerates every history of publications; harness/cmd/c14 -mode pub applies each to a
fresh key of the real stream filter manager and records the chain the key's factory builds after every publication;
TLC validates the recorded runs."""
import json, os, random, re
import vlib

FAM = "lifecycle"
MM = re.compile(r'<<\s*"MISMATCH",\s*(\d+),\s*"([^"]+)"\s*>>')


def run(ctx, pid="C14"):
    q = ctx.quick()
    rng = random.Random(ctx.seed)
    if vlib.run_tlc(ctx, FAM, "FilterPublish", "FilterPublish_defect_KeepUnchangedByIndex.cfg", workers=1, expect_ok=False)["ok"]:
        raise vlib.Inconclusive("FilterPublish does not reject KeepUnchangedByIndex")
    raw = os.path.join(ctx.tmp, "pub_cases.jsonl")
    ctx.add_tlc(vlib.run_tlc(ctx, FAM, "FilterPublish", "FilterPublish.cfg", workers=1, cases_to=raw, timeout=600))
    lines = sorted(set(open(raw).read().splitlines()))
    total3 = 0
    if True:
        raw3 = os.path.join(ctx.tmp, "pub_cases3.jsonl")
        ctx.add_tlc(vlib.run_tlc(ctx, FAM, "FilterPublish", "FilterPublish_thorough.cfg", workers=1, cases_to=raw3, timeout=900))
        l3 = sorted(set(open(raw3).read().splitlines()))
        total3 = len(l3)
        lines += rng.sample(l3, min(len(l3), 4000)) if q else l3
    if len(lines) < 1000:
        raise vlib.Inconclusive("FilterPublish enumerated only %d histories" % len(lines))
    casef = os.path.join(ctx.tmp, "pub_all.jsonl")
    open(casef, "w").write("\n".join(lines) + "\n")
    binary = vlib.go_build("c14")
    trace = os.path.join(ctx.tmp, "pub.ndjson")
    vlib.run_driver(ctx, binary, ["-mode", "pub", "-cases", casef, "-trace", trace], timeout=600)
    evs = vlib.read_jsonl(trace)
    v = vlib.validate_trace(ctx, FAM, "FilterPublishTrace", "FilterPublishTrace.cfg", trace, timeout=900)
    ctx.cov["states"] += v["distinct"]; ctx.cov["transitions"] += v["generated"]
    mm = {}
    for m in MM.finditer(v["text"]):
        mm.setdefault(int(m.group(1)), set()).add(m.group(2))
    if not v["accepted"] and not mm and v["matched"] is None:
        raise vlib.Inconclusive("FilterPublishTrace validation did not complete:\n%s" % v["text"][-1500:])
    start, cur = {}, 1
    for i, e in enumerate(evs, 1):
        if e["ev"] == "key":
            cur = i
        start[i] = cur
    for line, kinds in sorted(mm.items()):
        hist = evs[start[line] - 1:line]
        unc = any("x" in e.get("list", []) for e in hist if e["ev"] == "pub")
        for k in sorted(kinds):
            vlib.report_failure(ctx, "%s:publish:%s:%s" % (pid, k, "history-with-an-uncreatable-entry" if unc else "all-entries-creatable"),
                                dict(line=line, history=hist))
    if v["matched"] is not None and v["matched"] < len(evs):
        vlib.report_failure(ctx, "%s:publish:trace-rejected" % pid, dict(line=v["matched"] + 1, event=evs[v["matched"]]))
    npub = sum(1 for e in evs if e["ev"] == "pub")
    ctx.cov["publish"] = dict(histories=sum(1 for e in evs if e["ev"] == "key"), publications=npub, histories_of_3_enumerated=total3)
    ctx.cov["evaluations"] += npub
    ctx.cov["traces_validated_against_impl"] += ctx.cov["publish"]["histories"]
    ctx.assumptions.append("publish: 4 filter types, one of which has no registered factory; lists of <= 3 distinct entries; every history of 2 "
                           "publications and (quick: a VERIF_SEED sample of 4000 of) the histories of 3 on a fresh key of the real stream filter "
                           "manager; the chain is read by letting the key's factory build it into a recorder (no MOSN, no traffic)")
