"""C13 TLS policy is enforced as configured.
   spec/tls/TLSSelect.tla      reference (Pick, AuthExpect, UpExpect, PlainAllowed) + implementation-shaped scan
                               (Accept/Hello/Scan/Decide/Auth/UpHandshake) with five Defects switches
   spec/tls/TLSSelectMC.tla    the bounded universes TLC enumerates (quick / thorough / small)
   spec/tls/TLSSelectTrace.tla trace validation of the real handshakes
   binding: B1 - every case TLC enumerates is replayed by harness/cmd/c13 (-mode direct) into a real
   serverContextManager (static + SDS backed contexts) / clientContextManager with a stock crypto/tls peer doing the
   handshake; a seeded sample is replayed again (-mode e2e) through TLS listeners and TLS clusters of an in-process MOSN
   (tcp_proxy, echo upstreams). TLC validates both recorded traces (certificate presented, handshake result, plaintext
   served / sent).
   Returning peers (cases with the field res; actions Return / Expire / Resume of TLSSelect): a stock client with a session
   cache handshakes once under the initial configuration, then its short-lived certificate runs out and / or the update
   history is pushed, then it connects again offering its ticket (TLS 1.2) / PSK (TLS 1.3); the second connection is
   judged by the policy and the clock of that moment, abbreviated handshake or not. The same towards upstreams (a stock
   server that hands out tickets, visited twice by MOSN). All first visits are paid before the other cases, all second
   visits after them: one (usually empty) wait per driver run."""
import json, os, random, re
import vlib

LEVEL = "model_checking"

DEFECTS = ["SharedMatchSet", "EmptyServerName", "IfGivenForRequire", "PlainWhenNotReady", "SkipVerifyLeftOn", "StaleOnEqualHash", "InspectorLagsUpdate", "PoolCachedByPath", "RotationBuildsOutsideLock",
           "ResumeSkipsVerification", "UpstreamSessionCache"]


def mismatches(txt):
    out = {}
    for m in re.finditer(r'"MISMATCH",\s*(\d+),\s*"([^"]+)"', txt):
        out.setdefault(int(m.group(1)), set()).add(m.group(2))
    return out


def runs(c):
    """how many times the driver executes a case: a case that says where its material comes from once, another
    update history twice (static and SDS backed contexts), anything else once"""
    explicit = ("casrc" in c["ctxs"][0]) if c["side"] == "srv" else ("casrc" in c["cfg"])
    return 1 if explicit or not c["upds"] else 2


def visits(c):
    """handshakes recorded per execution: a returning peer (field res) connects twice"""
    return 2 if "res" in c else 1


def brief(mgr):
    if not mgr:
        return None
    return dict(insp=mgr.get("insp"), ctxs=[dict(names=[".".join(n) for n in c["names"]], server_name=".".join(c["sn"]),
                                                  alpn=c["alpn"], ready=c["ready"], verify_client=c["verify"],
                                                  require_client_cert=c["require"], ca=c["ca"], kind=c.get("kind"),
                                                  cert_layout=c.get("layout"), ca_source=c.get("casrc"),
                                                  cert_source=c.get("certsrc")) for c in mgr["ctxs"]])


def run(ctx):
    q = ctx.quick()
    # ---------- 1. design level: the scan must refine the reference on the whole universe; cases are emitted
    cases = os.path.join(ctx.tmp, "cases.jsonl")
    r = vlib.run_tlc(ctx, "tls", "TLSSelectMC", "TLSSelect.cfg" if q else "TLSSelect_thorough.cfg", workers=1,
                     cases_to=cases, timeout=1500)
    ctx.add_tlc(r)
    ncases = r["cases"]
    if ncases == 0:
        raise vlib.Inconclusive("TLC emitted no cases")
    # the race cases (SDS rotation || config update) once per gate-level schedule: TLC enumerates the interleavings of
    # the two writers with the lock ignored, the real code decides which of them are feasible
    raw_sched = os.path.join(ctx.tmp, "sched_raw.jsonl")
    rs = vlib.run_tlc(ctx, "tls", "TLSSelectMC", "TLSSelect_sched.cfg", workers=1, cases_to=raw_sched, timeout=300)
    ctx.add_tlc(rs)
    sched_lines = sorted(set(open(raw_sched).read().splitlines()))
    nsched = len(set(json.dumps(json.loads(ln)["sched"]) for ln in sched_lines))
    if nsched != 6:
        raise vlib.Inconclusive("expected the 6 interleavings of two 2-segment writers, TLC enumerated %d" % nsched)
    with open(cases, "a") as fh:
        for ln in sched_lines:
            fh.write(ln + "\n")
    ncases += len(sched_lines)
    # every named way the design can go wrong must be rejected by the invariants (non-vacuity)
    for d in DEFECTS:
        rd = vlib.run_tlc(ctx, "tls", "TLSSelectMC", "TLSSelect_defect_%s.cfg" % d, workers=1, expect_ok=False, timeout=300)
        if rd["ok"] or not rd["violated"]:
            raise vlib.Inconclusive("TLSSelect model does not reject defect %s: invariants vacuous (%s)" % (d, rd["errors"][:2]))

    # ---------- 2. real code: replay every case into the real context managers, record
    binary = vlib.go_build("c13")
    trace = os.path.join(ctx.tmp, "c13.ndjson")
    vlib.run_driver(ctx, binary, ["-mode", "direct", "-cases", cases, "-trace", trace, "-par", "8"], timeout=1500)
    # ---------- 2b. a seeded sample of the same cases end to end: TLS listeners / TLS clusters of an in-process MOSN
    rng = random.Random(ctx.seed)
    groups, order, ups = {}, [], []
    n_direct = 0          # a case with an update history is run twice: static and SDS backed contexts
    with open(cases) as fh:
        for ln in fh:
            c = json.loads(ln)
            sched = None
            if "c" in c:                     # a race case wrapped with its schedule
                c, sched = c["c"], c["sched"]
            n_direct += runs(c) * visits(c)
            if c["side"] == "up":
                ups.append((c, ln))        # e2e: cluster TLS updates go through the running cluster manager
                continue
            k = json.dumps([c["ctxs"], c["insp"], c["upds"], sched, "res" in c], sort_keys=True)
            if k not in groups:
                groups[k] = []
                order.append(k)
            groups[k].append((c, ln))

    def special(g):   # client-auth matrix, inspector, readiness, update-history and returning-peer groups are always taken
        c = g[0][0]
        return bool(c["upds"]) or c["insp"] or "res" in c or any(x["verify"] or x["require"] for x in c["ctxs"]) or any(y[0]["first"] == "plain" for y in g)
    keep = [k for k in order if special(groups[k])]
    rest = [k for k in order if not special(groups[k])]
    keep += rng.sample(rest, min(len(rest), 40 if q else 250))
    e2e_cases = os.path.join(ctx.tmp, "e2e_cases.jsonl")
    with open(e2e_cases, "w") as fh:
        for k in keep:
            for _, ln in groups[k]:
                fh.write(ln)
        for _, ln in ups:
            fh.write(ln)
    n_e2e = sum(runs(c) * visits(c) for k in keep for c, _ in groups[k]) + sum(runs(c) * visits(c) for c, _ in ups)
    e2e_trace = os.path.join(ctx.tmp, "c13_e2e.ndjson")
    for attempt in (1, 2):
        try:
            vlib.run_driver(ctx, binary, ["-mode", "e2e", "-cases", e2e_cases, "-trace", e2e_trace, "-par", "8"], timeout=900)
            break
        except vlib.Inconclusive:
            if attempt == 2:     # e.g. a reserved port was taken before MOSN bound it
                raise

    # ---------- 3. TLC decides: every recorded handshake must be what the specification expects
    ctx.cov["traces_validated_against_impl"] = 0
    ctx.cov["outcomes"] = {}
    first_sample = True
    for part, tpath, expect_n in (("direct", trace, n_direct), ("e2e", e2e_trace, n_e2e)):
        evs = vlib.read_jsonl(tpath)
        nreal = sum(1 for e in evs if e["ev"] in ("hs", "up"))
        if nreal != expect_n:
            raise vlib.Inconclusive("%s driver replayed %d of %d cases" % (part, nreal, expect_n))
        v = vlib.validate_trace(ctx, "tls", "TLSSelectTrace", "TLSSelectTrace.cfg", tpath, timeout=1500)
        mm = mismatches(v["text"])
        if not v["accepted"] and not mm and v["matched"] is None:
            raise vlib.Inconclusive("trace validation (%s) did not complete:\n%s" % (part, v["text"][-1500:]))
        ctx.cov["states"] += v["distinct"]
        ctx.cov["transitions"] += v["generated"]
        ctx.cov["traces_validated_against_impl"] += sum(1 for e in evs if e["ev"] in ("mgr", "up"))
        ctx.cov["evaluations"] += nreal
        ctx.cov.setdefault("trace_events", {})[part] = len(evs)
        followed = {}
        for e in evs:
            u = e if e["ev"] == "upd" else (e["upds"][-1] if e["ev"] == "up" and e.get("upds") else None)
            if u and "sched" in u and u["path"].startswith("config-update"):
                key = "".join(u["sched"])
                f = followed.setdefault(key, {"followed": 0, "degraded": 0})
                f["followed" if u["followed"] else "degraded"] += 1
        ctx.cov.setdefault("race_schedules", {})[part] = followed
        ctx.cov.setdefault("updates_pushed", {})[part] = {
            path: sum(1 for e in evs if e["ev"] == "upd" and e["path"] == path) +
                  sum(1 for e in evs if e["ev"] == "up" for u in e.get("upds", []) if u["path"] == path)
            for path in ("sds-push", "config-update", "config-update:same-file-rewritten", "config-update:other-file",
                         "config-update:inline-material")}
        kinds = {}
        for e in evs:
            if e["ev"] == "mgr":
                for c in e["ctxs"]:
                    kinds[c["kind"]] = kinds.get(c["kind"], 0) + 1
        ctx.cov.setdefault("context_kinds", {})[part] = kinds
        ctx.cov["outcomes"][part] = {
            "tls_ok": sum(1 for e in evs if e["ev"] == "hs" and e["ok"]),
            "tls_refused": sum(1 for e in evs if e["ev"] == "hs" and e["first"] == "tls" and not e["ok"]),
            "plain_served": sum(1 for e in evs if e["ev"] == "hs" and e["plain"]),
            "plain_refused": sum(1 for e in evs if e["ev"] == "hs" and e["first"] == "plain" and not e["plain"]),
            "upstream_ok": sum(1 for e in evs if e["ev"] == "up" and e["ok"]),
            "upstream_refused": sum(1 for e in evs if e["ev"] == "up" and not e["ok"]),
        }
        # returning peers: what their second connection was (abbreviated / full handshake, served / refused)
        second = [e for e in evs if e["ev"] == "hs" and e.get("ticket")]
        ctx.cov.setdefault("returning_peers", {})[part] = {
            "ticket_offered": len(second),
            "resumed_ok": sum(1 for e in second if e["resumed"] and e["ok"]),
            "ticket_refused": sum(1 for e in second if not e["ok"]),
            "ticket_declined_full_handshake_ok": sum(1 for e in second if e["ok"] and not e["resumed"]),
            "certificate_run_out": sum(1 for e in second if e["late"] == "yes"),
            "certificate_run_out_refused": sum(1 for e in second if e["late"] == "yes" and not e["ok"]),
            "clock_edge": sum(1 for e in evs if e["ev"] in ("hs", "up") and e.get("late") == "edge"),
            "upstream_second_visits": sum(1 for e in evs if e["ev"] == "up" and e.get("visit") == 2),
            "upstream_resumed": sum(1 for e in evs if e["ev"] == "up" and e.get("resumed")),
            "waited_ms": max([e["ms"] for e in evs if e["ev"] == "wait"] or [0]),
        }
        mgr_at, upd_at, cur, upds = {}, {}, None, []
        for i, e in enumerate(evs, 1):
            if e["ev"] == "mgr":
                cur, upds = e, []
            elif e["ev"] == "upd":
                upds = upds + [{k: e[k] for k in ("pos", "field", "val", "how", "path", "kind")}]
            mgr_at[i], upd_at[i] = cur, upds
        if first_sample:
            first_sample = False
            for want in ("hs", "up"):
                for i, e in enumerate(evs, 1):
                    if e["ev"] == want and (want != "hs" or (e["ok"] and len(mgr_at[i]["ctxs"]) > 1 and e["cert"] > 1)):
                        ctx.sample({"via": part, "event": e, "config": brief(mgr_at[i]) if want != "up" else None}, cap=4)
                        break

        def fail(line, kind):
            e = evs[line - 1]
            detail = dict(via=part, line=line, event=e, config=brief(mgr_at.get(line)) if e["ev"] != "up" else None,
                          updates_since_config=upd_at.get(line) if e["ev"] != "up" else e.get("upds"))
            vlib.report_failure(ctx, "C13:" + kind, detail)

        for line, ks in sorted(mm.items()):
            for k in sorted(ks):
                fail(line, k)
        if v["matched"] is not None and v["matched"] < len(evs):
            fail(v["matched"] + 1, "trace-rejected:" + evs[v["matched"]]["ev"])
    ctx.cov["distinct_nontrivial"] = ncases
    ctx.cov["e2e_cases"] = n_e2e

    ctx.cov["rule"] = ("a case = one real handshake: every <ordered context list (<=3 of %d profiles: exact/wildcard/multi names, "
                       "server_name, ALPN lists, not-ready SDS contexts), ClientHello (SNI none/exact/wildcard depth 1-2/upper-case/"
                       "unknown/ALPN-token, ALPN set, TLS 1.2|1.3)> + the client-auth matrix (4 modes x own/other CA per context x "
                       "6 peer kinds x 2 versions, 1-2 contexts) + inspector x first-byte x readiness + upstream (server_name x "
                       "insecure_skip x CA x certificate issuer/expiry) + update histories of 1-2 single-field updates (ca, names, server_name, alpn, "
                       "verify, require, the listener's inspector flag / skip, ca, server_name) on contexts already in use, each run with static contexts (listener/cluster "
                       "config update) and with SDS contexts (secret push or in-place re-configuration) + returning peers (two connections each, the second "
                       "offering the session ticket / PSK of the first: 4 modes x peers none/self/ca1/short-lived ca1 leaf that runs out in between; 15 histories "
                       "that tighten verify/require, rotate the CA or replace the context between the visits x 4 peers; expiry combined with an update of "
                       "another context; CA rotation by file rewrite / other file / SDS push; TLS 1.2 and 1.3; upstream: MOSN connects twice to a stock "
                       "server that hands out tickets, certificate run out / CA rotated / skip switched / server_name changed in between), "
                       "enumerated by TLC from TLSSelectMC; all replayed into the real context "
                       "managers, and a seeded sample (all auth/inspector/upstream cases + %d context lists) again through listeners and "
                       "TLS clusters of an in-process MOSN" % (8 if q else 11, 40 if q else 250))
    ctx.cov["exhaustive"] = True
    ctx.assumptions += [
        "proof of possession / chain building is delegated to the forked crypto/tls and crypto/x509; decided by real handshakes with stock crypto/tls peers",
        "wildcard names match any number of leading labels and SNI compares lower-cased (semantics documented in tls_context.go)",
        "MOSN side runs with GODEBUG=tls13=1 so that both handshake_server.go (1.2) and handshake_server_tls13.go (1.3) are exercised",
        "ECDSA P-256 certificates only; loopback TCP; e2e part: tcp_proxy listeners of one in-process MOSN (handler.go OnAccept, connection.go tryConnect)",
        "SDS contexts get their secrets through an injected SdsClient (mtls.VerifSetSdsClientFunc); seed chooses static vs SDS and CN/SAN layout",
        "returning peers: stock crypto/tls client with its own LRU session cache per peer; short-lived certificates are issued right before the first "
        "visit with NotAfter = now + 2 s truncated to the second; every handshake carries what the clock said (read before and after it) about "
        "NotAfter, a handshake during which the certificate ran out is not judged (coverage.returning_peers.clock_edge); a refused TLS 1.3 PSK "
        "is refused before the server shows a certificate: the context the property prescribes is taken as the one that refused",
        "MOSN's TLS client configuration keeps no session cache (no ClientSessionCache is set anywhere in pkg/mtls outside the forked "
        "crypto/tls): second visits to an upstream are full handshakes (coverage.returning_peers.upstream_resumed = 0); the upstream returning "
        "cases judge whatever is done there by the cluster tls config and the clock of the second visit",
        "races: SDS rotation and config update of one SDS context in two goroutines, each of the 6 gate-level schedules forced through "
        "mtls.RegisterTlsContextCallback (parks a writer between 'context built' and 'context stored'); a step the code does not allow "
        "(writer blocked on a lock) degrades after 80 ms and is counted in coverage.race_schedules, the resulting policy is judged either way",
    ]
