"""C04 Route selection follows the documented precedence, deterministically.
   spec/router/VHostSem.tla + VHostMatch.tla : virtual-host precedence (declarative) and the implementation-shaped
       build/lookup machine, model-checked against each other for every configuration x request of the universe.
   spec/router/RouteSem.tla + RouteMatch.tla : rule semantics / first match and the implementation-shaped scan.
   spec/router/RouterTrace.tla               : TLC validates what the real router answered (binding B1/B2):
       every configuration / rule list TLC enumerates is built with the real router.NewRouters (and, for the
       determinism half of the property, through a RouterManager update history ending in the same configuration,
       looked up from 8 goroutines) and every request of the universe is sent through MatchRoute/MatchAllRoutes.
   spec/router/RouteScanSem.tla + RouteScan.tla + RouteScanTrace.tla : a lookup walking the rule list while the route
       API updates it in place (lock model, defect switch ScanWithoutLock); TLC enumerates held-position x update
       script schedules, the driver holds a real lookup at that rule (getter of a harness variable) while the
       RouterManager runs the script; the answer must be the answer of one version."""
import json, os, random, re
from concurrent.futures import ThreadPoolExecutor
import vlib

LEVEL = "model_checking"

VH_DEFECTS = ("NoSort", "SuffixMayEqualHost", "AnyPortFirst", "EmptyHostNone")
RT_DEFECTS = ("HeaderDisjunction", "FastMatchIgnoresRegexFlag", "VarLeftToRight", "PrefixAsContains", "LastMatchWins",
              "DslErrorHolds", "QueryAnyMatcher", "LastIndexedWins", "SkipAbsentCluster", "RegexMatchFromStartOnly")
CATCHALL = {"k": "rpc", "pa": [], "re": "", "hs": [], "vs": [], "qs": [], "ds": []}
DEFAULT_DOM = {"h": ["*"], "p": ""}


def mismatches(txt):
    out = {}
    for m in re.finditer(r'<<\s*"MISMATCH",\s*(\d+),\s*"([^"]+)"\s*>>', txt):
        out.setdefault(int(m.group(1)), set()).add(m.group(2))
    return out


def with_clusters(vhosts):
    """cluster name of rule i of virtual host v = v<v>r<i>: the observable the property speaks about"""
    out = []
    for vi, v in enumerate(vhosts, 1):
        out.append({"doms": v["doms"], "rules": [dict(r, c="v%dr%d" % (vi, ri)) for ri, r in enumerate(v["rules"], 1)]})
    return out


def run(ctx):
    q = ctx.quick()
    rng = random.Random(ctx.seed)
    suf = "" if q else "_thorough"

    # ---------- 1. design level: implementation-shaped machines against the declarative semantics
    def defect_run(md):
        mod, d = md
        r = vlib.run_tlc(ctx, "router", mod, "%s_defect_%s.cfg" % (mod, d), expect_ok=False, workers=2)
        if r["ok"] or r["violated"] is None:
            raise vlib.Inconclusive("%s does not reject the %s defect (invariants vacuous?): %s" % (mod, d, r["errors"][:2]))
        return r
    with ThreadPoolExecutor(max_workers=5) as ex:
        main_runs = [ex.submit(vlib.run_tlc, ctx, "router", "VHostMatch", "VHostMatch%s.cfg" % suf, timeout=1500),
                     ex.submit(vlib.run_tlc, ctx, "router", "RouteMatch", "RouteMatch%s.cfg" % suf, workers=4, timeout=1500)]
        defect_runs = list(ex.map(defect_run, [("VHostMatch", d) for d in VH_DEFECTS] + [("RouteMatch", d) for d in RT_DEFECTS]))
        scan_raw = os.path.join(ctx.tmp, "scan_raw.jsonl")
        main_runs.append(ex.submit(vlib.run_tlc, ctx, "router", "RouteScan", "RouteScan%s.cfg" % suf, workers=2,
                                   cases_to=scan_raw, timeout=900))
        defect_runs.append(ex.submit(defect_run, ("RouteScan", "ScanWithoutLock")).result())
        for f in main_runs:
            ctx.add_tlc(f.result())
    ctx.cov["defect_switches_rejected"] = len(defect_runs)

    # ---------- 2. case enumeration by TLC
    vraw = os.path.join(ctx.tmp, "vh_raw.jsonl")
    rraw = os.path.join(ctx.tmp, "rt_raw.jsonl")
    ctx.add_tlc(vlib.run_tlc(ctx, "router", "VHostMatch", "VHostMatch_emit%s.cfg" % suf, workers=1, cases_to=vraw, timeout=900))
    ctx.add_tlc(vlib.run_tlc(ctx, "router", "RouteMatch", "RouteMatch_emit%s.cfg" % suf, workers=1, cases_to=rraw, timeout=900))
    vlines = vlib.read_jsonl(vraw)
    rlines = vlib.read_jsonl(rraw)
    areqs = [x for x in vlines if x["kind"] == "reqs"][0]["reqs"]
    rreqs = [x for x in rlines if x["kind"] == "rreqs"][0]["reqs"]
    menus = [x for x in rlines if x["kind"] in ("valre", "pathre", "kvs", "qparse")]
    vcfgs = sorted((x["vhosts"] for x in vlines if x["kind"] == "cfg"), key=lambda c: json.dumps(c, sort_keys=True))
    rlists = sorted((x["rules"] for x in rlines if x["kind"] == "rules"), key=lambda c: json.dumps(c, sort_keys=True))
    if not areqs or not rreqs or not vcfgs or not rlists or len(menus) != 4:
        raise vlib.Inconclusive("case emission incomplete")
    a_plain = [i for i, a in enumerate(areqs) if a["h"] == ["a", ".", "c"] and a["p"] == ""][:1]
    r_plain = [i for i, r in enumerate(rreqs) if r["path"] == ["/", "a"] and r["method"] == "GET" and r["query"] == ""
               and r["hd"] == {"h1": "-", "h2": "-", "service": "-"}][:1]
    if not a_plain or not r_plain:
        raise vlib.Inconclusive("plain request missing from the universes")
    all_a = list(range(len(areqs)))
    all_r = list(range(len(rreqs)))

    def nd(c):
        return sum(len(v) for v in c)
    sampled = False

    def pick(items, cap):
        nonlocal sampled
        if cap is None or len(items) <= cap:
            return items
        sampled = True
        return rng.sample(items, cap)

    def clusters_of(vhosts):
        return [r["c"] for v in vhosts for r in v["rules"]]

    def subsets(names, cap):
        """cluster sets under which the handler is asked: all of them for <= 3 clusters, else the full set, the empty set
        and seed-chosen ones"""
        if len(names) <= 3:
            out = [[n for i, n in enumerate(names) if m >> i & 1] for m in range(1 << len(names))]
        else:
            out = [list(names), []] + [[n for n in names if rng.random() < 0.5] for _ in range(cap)]
        return out[:max(cap, 2)] if len(out) > cap and len(names) > 3 else out

    def with_extras(case, kv, nsub, hreqs):
        case["kv"] = kv
        case["present"] = subsets(clusters_of(case["vhosts"]), nsub) if nsub else []
        case["hreqs"] = hreqs
        return case

    # virtual-host part: every virtual host gets one catch-all route, so the cluster names the virtual host
    v_small = [c for c in vcfgs if nd(c) <= 2]
    v_big = pick([c for c in vcfgs if nd(c) > 2], 3000 if q else None)
    r_small = [l for l in rlists if len(l) <= 2]
    r_big = pick([l for l in rlists if len(l) > 2], 250 if q else 5000)
    cases = []
    for n, c in enumerate(v_small + v_big):
        case = dict(kind="case", part="vhost", hist=False, areqs=all_a, rreqs=r_plain,
                    vhosts=with_clusters([{"doms": v, "rules": [CATCHALL]} for v in c]))
        # every 8th configuration also through the handler (one cluster set)
        cases.append(with_extras(case, False, 1 if n % 8 == 0 else 0, r_plain))
    for l in r_small + r_big:
        case = dict(kind="case", part="route", hist=False, areqs=a_plain, rreqs=all_r,
                    vhosts=with_clusters([{"doms": [DEFAULT_DOM], "rules": l}]))
        cases.append(with_extras(case, True, 8, rng.sample(all_r, 5)))
    # composition: several virtual hosts with their own rule lists
    ncomb = 250 if q else 2500
    for _ in range(ncomb):
        c = rng.choice(vcfgs)
        rr = rng.sample(all_r, 4)
        case = dict(kind="case", part="combined", hist=False, areqs=all_a, rreqs=rr,
                    vhosts=with_clusters([{"doms": v, "rules": rng.choice(rlists)} for v in c]))
        cases.append(with_extras(case, True, 2, rr[:2]))
    # determinism: the same configurations reached through an update history, looked up concurrently
    nhist = 400 if q else 4000
    hist = []
    for _ in range(nhist):
        k = rng.randrange(3)
        if k == 0:
            c = rng.choice(vcfgs)
            hist.append(with_extras(dict(kind="case", part="hist-vhost", hist=True, areqs=all_a, rreqs=r_plain,
                                         vhosts=with_clusters([{"doms": v, "rules": [CATCHALL]} for v in c])), False, 0, []))
        elif k == 1:
            rr = rng.sample(all_r, 24)
            hist.append(with_extras(dict(kind="case", part="hist-route", hist=True, areqs=a_plain, rreqs=rr,
                                         vhosts=with_clusters([{"doms": [DEFAULT_DOM], "rules": rng.choice(rlists)}])), True, 2, rr[:3]))
        else:
            c = rng.choice(vcfgs)
            rr = rng.sample(all_r, 3)
            hist.append(with_extras(dict(kind="case", part="hist-combined", hist=True, areqs=all_a, rreqs=rr,
                                         vhosts=with_clusters([{"doms": v, "rules": rng.choice(rlists)} for v in c])), True, 1, rr[:1]))
    casefile = os.path.join(ctx.tmp, "cases.jsonl")
    with open(casefile, "w") as fh:
        fh.write(json.dumps(dict(kind="reqs", reqs=areqs)) + "\n")
        fh.write(json.dumps(dict(kind="rreqs", reqs=rreqs)) + "\n")
        for m in menus:
            fh.write(json.dumps(m) + "\n")
        for c in cases + hist:
            fh.write(json.dumps(c) + "\n")

    # ---------- 3. real code: replay and record
    binary = vlib.go_build("c04")

    # concurrent in-place update part: lookups held at rule p of the list while the update script runs
    scases = sorted((c for c in vlib.read_jsonl(scan_raw) if c.get("kind") == "scan"), key=lambda c: json.dumps(c, sort_keys=True))
    if not scases or not any(c["sens"] for c in scases):
        raise vlib.Inconclusive("RouteScan emitted no schedule that distinguishes a scan without the lock")
    s_sens = [c for c in scases if c["sens"]]
    s_rest = [c for c in scases if not c["sens"]]
    s_pick = pick(s_sens, 170 if q else 1500) + pick(s_rest, 60 if q else 600)
    rng.shuffle(s_pick)
    scanfile = os.path.join(ctx.tmp, "scan_cases.jsonl")
    with open(scanfile, "w") as fh:
        for c in s_pick:
            fh.write(json.dumps(c) + "\n")
    strace = os.path.join(ctx.tmp, "scan.ndjson")

    def scan_part():
        vlib.run_driver(ctx, binary, ["-mode", "scan", "-cases", scanfile, "-trace", strace, "-grace", "15"], timeout=1800)
        return vlib.validate_trace(ctx, "router", "RouteScanTrace", "RouteScanTrace.cfg", strace, timeout=1200)
    scan_ex = ThreadPoolExecutor(max_workers=1)
    scan_future = scan_ex.submit(scan_part)
    trace = os.path.join(ctx.tmp, "router.ndjson")
    vlib.run_driver(ctx, binary, ["-cases", casefile, "-trace", trace, "-lookers", "8"], timeout=1800)

    # ---------- 4. TLC decides. The trace is cut at cfg events (a cfg event replaces the whole state) and the
    # pieces are validated in parallel.
    lines = open(trace).read().splitlines()
    evs = [json.loads(x) for x in lines]
    nchunks = max(6, len(evs) // 150000 + 1)
    target = len(evs) // nchunks + 1
    cuts = [0]
    for i, e in enumerate(evs):
        if e["ev"] == "cfg" and i - cuts[-1] >= target:      # no lookup follows a refused update, so any cfg event is a safe cut
            cuts.append(i)
    cuts.append(len(evs))
    chunks = [(cuts[k], cuts[k + 1]) for k in range(len(cuts) - 1) if cuts[k + 1] > cuts[k]]

    def validate(k):
        lo, hi = chunks[k]
        p = os.path.join(ctx.tmp, "chunk%d.ndjson" % k)
        with open(p, "w") as fh:
            fh.write("\n".join(lines[lo:hi]) + "\n")
        return vlib.validate_trace(ctx, "router", "RouterTrace", "RouterTrace.cfg", p, timeout=2400)
    with ThreadPoolExecutor(max_workers=min(len(chunks), 6)) as ex:
        results = list(ex.map(validate, range(len(chunks))))

    cfg_at = {}
    cur = None
    hist_at = {}
    hstart = None
    for i, e in enumerate(evs):
        if e["ev"] == "cfg":
            cur = i
            hstart = i
        cfg_at[i] = cur
        hist_at[i] = hstart

    def fail(gi, kind):
        e = evs[gi]
        c = evs[cfg_at[gi]] if cfg_at.get(gi) is not None else None
        part = c.get("part") if c else None
        via = c.get("via") if c else None
        sig = "C04:%s" % kind
        # updates between the configuration and this event (history cases)
        ups = [x for x in evs[(cfg_at.get(gi) or 0):gi] if x["ev"] in ("addroute", "removeall")]
        cl = [x for x in evs[(cfg_at.get(gi) or 0):gi] if x["ev"] == "clusters"]
        vlib.report_failure(ctx, sig, dict(line=gi + 1, part=part, via=via, event=e, config=c, updates=ups[-8:],
                                           clusters=cl[-1]["present"] if cl else None))

    for k, v in enumerate(results):
        lo, hi = chunks[k]
        ctx.cov["states"] += v["distinct"]
        ctx.cov["transitions"] += v["generated"]
        mm = mismatches(v["text"])
        if not v["accepted"] and not mm and v["matched"] is None:
            raise vlib.Inconclusive("trace validation of RouterTrace did not complete:\n%s" % v["text"][-1500:])
        for line, kinds in sorted(mm.items()):
            for kind in sorted(kinds):
                fail(lo + line - 1, kind)
        if v["matched"] is not None and v["matched"] < hi - lo:
            gi = lo + v["matched"]
            fail(gi, "trace-rejected:" + evs[gi]["ev"])

    # concurrent part
    sv = scan_future.result()
    scan_ex.shutdown()
    sevs = vlib.read_jsonl(strace)
    ctx.cov["states"] += sv["distinct"]
    ctx.cov["transitions"] += sv["generated"]
    smm = mismatches(sv["text"])
    if not sv["accepted"] and not smm and sv["matched"] is None:
        raise vlib.Inconclusive("trace validation of RouteScanTrace did not complete:\n%s" % sv["text"][-1500:])
    starts = [i for i, e in enumerate(sevs) if e["ev"] == "scfg"]

    def scan_fail(i, kind):
        st = max([x for x in starts if x <= i] or [0])
        vlib.report_failure(ctx, "C04:%s" % kind, dict(line=i + 1, part="concurrent", history=sevs[st:i + 1]))
    for line, kinds in sorted(smm.items()):
        for kind in sorted(kinds):
            scan_fail(line - 1, kind)
    if sv["matched"] is not None and sv["matched"] < len(sevs):
        scan_fail(sv["matched"], "trace-rejected:" + sevs[sv["matched"]]["ev"])
    nsend = sum(1 for e in sevs if e["ev"] == "send")
    ctx.cov["concurrent"] = {"schedules_enumerated": len(scases), "distinguishing": len(s_sens), "replayed": len(s_pick),
                             "lookups_held": nsend, "updates_overtook_lookup": sum(1 for e in sevs if e["ev"] == "send" and e["overtook"]),
                             "update_ops": sum(1 for e in sevs if e["ev"] == "supd")}
    if starts:
        ctx.sample({"concurrent_head": sevs[starts[0]:starts[0] + 6]})

    looks = [e for e in evs if e["ev"] == "look"]
    ncfg = sum(1 for e in evs if e["ev"] == "cfg") + len(starts)
    ctx.cov["traces_validated_against_impl"] = ncfg
    nh = sum(1 for e in evs if e["ev"] == "hlook")
    nkv = sum(1 for e in evs if e["ev"] == "kvlook")
    ctx.cov["evaluations"] = len(looks) + sum(1 for e in evs if e["ev"] in ("cfg", "addroute", "removeall")) + nsend + nh + nkv
    distinct = set()
    c = None
    for e in evs:
        if e["ev"] == "cfg":
            c = json.dumps(e["vhosts"], sort_keys=True)
        elif e["ev"] == "look":
            distinct.add(hash((c, json.dumps([e["h"], e["p"], e["path"], e["method"], e["query"], e["hd"]]))))
    ctx.cov["distinct_nontrivial"] = len(distinct)
    ctx.cov["trace_events"] = {"total": len(evs), "cfg": ncfg, "look": len(looks), "handler_look": nh, "headerkv_look": nkv,
                               "cluster_sets": sum(1 for e in evs if e["ev"] == "clusters"),
                               "addroute": sum(1 for e in evs if e["ev"] == "addroute"),
                               "removeall": sum(1 for e in evs if e["ev"] == "removeall"),
                               "refused": sum(1 for e in evs if e["ev"] == "cfg" and e["err"])}
    ctx.cov["cases"] = {"vhost_cfgs_enumerated": len(vcfgs), "vhost_cfgs_replayed": len(v_small) + len(v_big),
                        "rule_lists_enumerated": len(rlists), "rule_lists_replayed": len(r_small) + len(r_big),
                        "combined": ncomb, "history": nhist, "authorities": len(areqs), "route_requests": len(rreqs)}
    for e in (evs[0], evs[1] if len(evs) > 1 else None):
        if e:
            ctx.sample({"trace_event": e})
    hs = [i for i, e in enumerate(evs) if e["ev"] == "addroute"][:1]
    if hs:
        ctx.sample({"history_head": evs[hist_at[hs[0]]:hs[0] + 2]})
    ctx.cov["rule"] = ("a case = one real lookup (MatchRoute + MatchAllRoutes) of one request against one configuration. "
                       "vhost part: every sequence of <=3 domain entries from the universe (exact/ported/any-port/mixed-case/"
                       "wildcards of 3 suffix lengths/default/malformed) cut into virtual hosts in every way x every authority "
                       "(7 hosts x 3 ports + empty); route part: every ordered list of <=3 rules from the menu (path/prefix/regex/"
                       "header/method/variable and-or/RPC incl. compatibility form) x every request of the universe; quick tier: "
                       "all configurations with <=2 entries / rules, a VERIF_SEED sample of the 3-element ones; plus sampled "
                       "compositions and update histories (AddOrUpdateRouters over the previous case, AddRoute, RemoveAllRoutes) "
                       "ending in the same configuration with every lookup done concurrently from 8 goroutines; concurrent part: "
                       "old list (<=3 rules, every match pattern) x MatchRoute/MatchAllRoutes x rule at which the lookup is held x "
                       "update script (RemoveAllRoutes + k AddRoute / AddRoute only / AddOrUpdateRouters) enumerated by TLC; all "
                       "schedules that distinguish a walk without the lock, a sample of the others")
    ctx.cov["exhaustive"] = not sampled
    ctx.assumptions += [
        "request properties are put where the stream layers put them: x-mosn-host/-path/-method/-querystring variables and a CommonHeader map with lower-case keys",
        "regular expressions are limited to the menu of RouteSem.tla; its hand-written meaning is cross-checked against Go regexp on the value universe by the driver",
        "authorities are well-formed host[:port] names or empty (no IPv6 literals, no malformed host:port:port)",
        "concurrent part: the held lookup goes on when the update script has returned or after 15 ms (updates waiting for the lookup's lock); a stalled scheduler can only hide a defect of that schedule, never raise an alarm",
        "DSL (CEL) rules, query-parameter matchers and MatchRouteFromHeaderKV are not covered",
        "an entry without port is an exact 'no port' entry, as the comment above findHighestPriorityIndex and TestVirtulHostWithPortMatch document"]
