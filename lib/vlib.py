"""Shared plumbing for /verif checks: TLC runner, Go harness builder, evidence, findings.

Verdict contract (DESIGN.md 2.2):
  exit 0  property held on everything explored (KNOWN-FINDING lines allowed)
  exit 1  + "VIOLATION property=<id> replay=<path>"  a real execution disagreed with the spec
  exit 2  inconclusive (model error, build failure, timeout) - never a violation
"""
import hashlib
import json
import os
import re
import shutil
import subprocess
import sys
import tempfile
import time

VERIF = os.path.dirname(os.path.dirname(os.path.abspath(__file__)))
REPO = os.environ.get("VERIF_REPO", "/repo")
SPEC = os.path.join(VERIF, "spec")
NCPU = os.cpu_count() or 4

GOENV = dict(GOFLAGS="-mod=mod", GOPROXY="off", GOSUMDB="off", GOTOOLCHAIN="local")


class Inconclusive(Exception):
    pass


def log(*a):
    print(*a, flush=True)


# ---------------------------------------------------------------- context

class Ctx:
    def __init__(self, pid, tier, seed):
        self.pid = pid
        self.tier = tier
        self.seed = seed
        self.t0 = time.time()
        self.tmp = tempfile.mkdtemp(prefix="verif-%s-" % pid)
        self.cov = {"states": 0, "transitions": 0, "traces_validated_against_impl": 0,
                    "samples": [], "evaluations": 0, "distinct_nontrivial": 0,
                    "exhaustive": False, "tlc_runs": [], "rule": ""}
        self.assumptions = []
        self.violations = []     # list of dict(signature, detail)
        self.known_hits = []
        self.notes = []

    def quick(self):
        return self.tier == "quick"

    def cleanup(self):
        shutil.rmtree(self.tmp, ignore_errors=True)

    def sample(self, s, cap=6):
        if len(self.cov["samples"]) < cap:
            self.cov["samples"].append(s)

    def add_tlc(self, r):
        self.cov["states"] += r["distinct"]
        self.cov["transitions"] += r["generated"]
        self.cov["tlc_runs"].append({k: r[k] for k in ("module", "cfg", "generated", "distinct", "depth", "wall_s", "mode")})


# ---------------------------------------------------------------- TLC

def _prep_spec_dir(ctx, family, extra_files=None):
    """Copy spec/<family> (and spec/common) into a scratch dir so TLC litter never lands in /verif."""
    d = tempfile.mkdtemp(prefix="tlc-", dir=ctx.tmp)
    for src in (os.path.join(SPEC, "common"), os.path.join(SPEC, family)):
        if os.path.isdir(src):
            for f in os.listdir(src):
                p = os.path.join(src, f)
                if os.path.isfile(p):
                    shutil.copy(p, d)
    for name, content in (extra_files or {}).items():
        with open(os.path.join(d, name), "w") as fh:
            fh.write(content)
    return d


_STAT = re.compile(r"(\d+) states generated, (\d+) distinct states found")
_DEPTH = re.compile(r"The depth of the complete state graph search is (\d+)")


def run_tlc(ctx, family, module, cfg, workers=None, timeout=600, extra_files=None, extra_args=None,
            dfs=False, cases_to=None, simulate=None, cfg_text=None, keep_dir=False, expect_ok=True):
    """Run TLC. Returns dict(ok, generated, distinct, depth, out, violated, dir).
    cases_to: path; lines `<<"CASE", "json">>` are decoded and appended there as JSON lines.
    """
    d = _prep_spec_dir(ctx, family, extra_files)
    if cfg_text is not None:
        with open(os.path.join(d, cfg), "w") as fh:
            fh.write(cfg_text)
    meta = os.path.join(d, "meta")
    args = ["tlc", "-metadir", meta, "-workers", str(workers or NCPU)]
    if simulate:
        args += ["-simulate", simulate]
    args += (extra_args or [])
    args += [module + ".tla", "-config", cfg]
    env = dict(os.environ)
    jopts = "-Xss256m"
    if dfs:
        jopts += " -Dtlc2.tool.queue.IStateQueue=StateDeque"
    env["JAVA_TOOL_OPTIONS"] = jopts
    t0 = time.time()
    outp = os.path.join(d, "tlc.out")
    with open(outp, "w") as fh:
        try:
            p = subprocess.run(["timeout", str(timeout)] + args, cwd=d, stdout=fh, stderr=subprocess.STDOUT, env=env)
            rc = p.returncode
        except Exception as e:  # pragma: no cover
            raise Inconclusive("tlc failed to start: %s" % e)
    wall = time.time() - t0
    generated = distinct = depth = 0
    violated = None
    ncases = 0
    casefh = open(cases_to, "a") if cases_to else None
    errlines = []
    with open(outp, errors="replace") as fh:
        for line in fh:
            if line.startswith('<<"CASE", "'):
                if casefh:
                    inner = line.rstrip("\n")[len('<<"CASE", '):-2]
                    casefh.write(json.loads(inner) + "\n")
                    ncases += 1
                continue
            m = _STAT.search(line)
            if m:
                generated, distinct = int(m.group(1)), int(m.group(2))
            m = _DEPTH.search(line)
            if m:
                depth = int(m.group(1))
            if line.startswith("Error:") or "is violated" in line or "Invariant" in line and "violated" in line:
                errlines.append(line.strip())
                m2 = re.search(r"Invariant (\S+) is violated", line)
                if m2:
                    violated = m2.group(1)
    if casefh:
        casefh.close()
    ok = (rc == 0) and not errlines
    if rc == 124:
        raise Inconclusive("TLC timeout after %ss on %s/%s" % (timeout, module, cfg))
    r = dict(ok=ok, rc=rc, generated=generated, distinct=distinct, depth=depth, out=outp, violated=violated,
             errors=errlines, dir=d, wall_s=round(wall, 2), module=module, cfg=cfg, cases=ncases,
             mode="simulate" if simulate else "bfs")
    log("[tlc] %s/%s %s: generated=%d distinct=%d depth=%d ok=%s %.1fs" % (module, cfg, r["mode"], generated, distinct, depth, ok, wall))
    if expect_ok and not ok:
        tail = subprocess.run(["tail", "-40", outp], capture_output=True, text=True).stdout
        raise Inconclusive("TLC rejected the model %s/%s (rc=%s): %s\n%s" % (module, cfg, rc, errlines[:3], tail))
    if not keep_dir and ok:
        # keep only output file path valid while ctx.tmp lives; states dir is the bulky part
        shutil.rmtree(meta, ignore_errors=True)
    return r


def validate_trace(ctx, family, module, cfg, trace_path, timeout=300, extra_files=None, trace_name="trace.ndjson"):
    """Trace validation: copy trace to scratch dir as trace.ndjson, run TLC depth-first, -workers 1.
    Returns dict(accepted, matched, total, out, violated)."""
    d_extra = dict(extra_files or {})
    d = _prep_spec_dir(ctx, family, d_extra)
    shutil.copy(trace_path, os.path.join(d, trace_name))
    meta = os.path.join(d, "meta")
    env = dict(os.environ)
    env["JAVA_TOOL_OPTIONS"] = "-Xss256m -Dtlc2.tool.queue.IStateQueue=StateDeque"
    outp = os.path.join(d, "tlc.out")
    t0 = time.time()
    with open(outp, "w") as fh:
        p = subprocess.run(["timeout", str(timeout), "tlc", "-metadir", meta, "-workers", "1",
                            module + ".tla", "-config", cfg], cwd=d, stdout=fh, stderr=subprocess.STDOUT, env=env)
    if p.returncode == 124:
        raise Inconclusive("trace validation timeout %s" % module)
    txt = open(outp, errors="replace").read()
    m = re.search(r'"matched", (\d+), "of", (\d+)', txt)
    matched = total = None
    if m:
        matched, total = int(m.group(1)), int(m.group(2))
    violated = None
    m2 = re.search(r"Invariant (\S+) is violated", txt)
    if m2:
        violated = m2.group(1)
    st = _STAT.search(txt)
    gen, dist = (int(st.group(1)), int(st.group(2))) if st else (0, 0)
    accepted = p.returncode == 0 and "Error:" not in txt
    parse_err = ("Parsing or semantic analysis failed" in txt) or ("ConfigFileException" in txt) or \
                ("java.lang." in txt and "Exception" in txt and not m and not m2)
    if parse_err:
        tail = "\n".join(txt.splitlines()[-30:])
        raise Inconclusive("trace spec %s did not run: %s" % (module, tail))
    log("[trace] %s: accepted=%s matched=%s/%s states=%d %.1fs" % (module, accepted, matched, total, dist, time.time() - t0))
    # TLC wraps a long <<"MISMATCH", n, "kind">> tuple over several lines: every reported mismatch must be parseable by
    # the checks' (white-space tolerant) pattern, otherwise a mismatch would be dropped silently
    if txt.count('"MISMATCH"') != len(re.findall(r'<<\s*"MISMATCH",\s*\d+,\s*"[^"]+"\s*>>', txt)):
        raise Inconclusive("unparsed MISMATCH lines in the TLC output of %s" % module)
    return dict(accepted=accepted, matched=matched, total=total, out=outp, violated=violated,
                generated=gen, distinct=dist, wall_s=round(time.time() - t0, 2), text=txt)


# ---------------------------------------------------------------- Go harness

def harness_dir():
    h = hashlib.md5(REPO.encode()).hexdigest()[:8]
    return os.path.join(VERIF, ".build", "h-" + h)


def prepare_harness():
    """Mirror /verif/harness into a build dir with go.mod derived from REPO/go.mod."""
    bd = harness_dir()
    os.makedirs(bd, exist_ok=True)
    subprocess.run(["rsync", "-a", "--delete", "--exclude", "go.mod", "--exclude", "go.sum", "--exclude", "bin/", "--exclude", "bin-cover/",
                    os.path.join(VERIF, "harness") + "/", bd + "/"], check=True)
    gm = open(os.path.join(REPO, "go.mod")).read()
    gm = re.sub(r"^module .*$", "module verif", gm, count=1, flags=re.M)
    gm += "\nrequire mosn.io/mosn v0.0.0\nreplace mosn.io/mosn => %s\n" % REPO
    gm += ("\nrequire (\n\tpgregory.net/rapid v1.3.0\n)\n" if False else "")
    old = None
    gmp = os.path.join(bd, "go.mod")
    if os.path.exists(gmp):
        old = open(gmp).read()
    if old != gm:
        open(gmp, "w").write(gm)
    shutil.copy(os.path.join(REPO, "go.sum"), os.path.join(bd, "go.sum"))
    return bd


def go_env():
    env = dict(os.environ)
    env.update(GOENV)
    return env


def go_build(cmd, tags="verif", timeout=1500):
    """Build harness/cmd/<cmd> against the current REPO tree. Returns binary path."""
    bd = prepare_harness()
    cover = bool(os.environ.get("VERIF_COVER"))   # bin/coveraudit: statement coverage of mosn under a check's drivers
    out = os.path.join(bd, "bin-cover" if cover else "bin", cmd)
    os.makedirs(os.path.dirname(out), exist_ok=True)
    t0 = time.time()
    extra = ["-cover", "-coverpkg=mosn.io/mosn/pkg/...,./cmd/" + cmd] if cover else []   # main must be instrumented too or nothing is written
    p = subprocess.run(["timeout", str(timeout), "go", "build"] + extra + ["-tags", tags, "-o", out, "./cmd/" + cmd],
                       cwd=bd, env=go_env(), capture_output=True, text=True)
    if p.returncode != 0:
        raise Inconclusive("go build of harness cmd %s failed:\n%s" % (cmd, (p.stdout + p.stderr)[-4000:]))
    log("[build] %s in %.1fs" % (cmd, time.time() - t0))
    return out


def run_driver(ctx, binary, args, timeout=900, env_extra=None, stdin_path=None, ok_codes=(0,)):
    """Run a harness driver. Drivers write result JSON lines to the file given by -out."""
    env = go_env()
    env["VERIF_SEED"] = str(ctx.seed)
    env["VERIF_TIER"] = ctx.tier
    env["VERIF_REPO"] = REPO
    if env_extra:
        env.update(env_extra)
    for attempt in range(3):
        logp = os.path.join(ctx.tmp, "driver-%d.log" % int(time.time() * 1000))
        with open(logp, "w") as fh:
            stdin = open(stdin_path) if stdin_path else subprocess.DEVNULL
            p = subprocess.run(["timeout", "-k", "10", str(timeout), binary] + args, stdout=fh, stderr=subprocess.STDOUT,
                               env=env, stdin=stdin, cwd=ctx.tmp)
        # a listener port picked a moment ago may have been taken by another process: start again, do not judge
        if p.returncode not in ok_codes and "address already in use" in open(logp, errors="replace").read():
            log("[driver] port collision, restarting %s" % os.path.basename(binary))
            continue
        break
    if p.returncode == 124 or p.returncode == 137:
        raise Inconclusive("driver timeout: %s %s (log %s)\n%s" % (binary, args, logp, tail(logp)))
    if p.returncode not in ok_codes:
        raise Inconclusive("driver died rc=%s: %s %s\n%s" % (p.returncode, binary, args, tail(logp)))
    return logp


def tail(path, n=40):
    try:
        return subprocess.run(["tail", "-%d" % n, path], capture_output=True, text=True).stdout
    except Exception:
        return ""


def read_jsonl(path):
    out = []
    with open(path) as fh:
        for line in fh:
            line = line.strip()
            if line:
                out.append(json.loads(line))
    return out


# ---------------------------------------------------------------- findings / verdict

def load_findings():
    p = os.path.join(VERIF, "known_findings.json")
    if not os.path.exists(p):
        return []
    return json.load(open(p))["findings"]


def save_replay(ctx, obj):
    d = os.path.join(VERIF, "replays", ctx.pid)
    os.makedirs(d, exist_ok=True)
    blob = json.dumps(obj, sort_keys=True, indent=1, default=str)
    name = hashlib.sha1(blob.encode()).hexdigest()[:12] + ".json"
    p = os.path.join(d, name)
    with open(p, "w") as fh:
        fh.write(blob)
    return p


def report_failure(ctx, signature, detail):
    """A real execution disagreed with the spec. Classify against known_findings.json."""
    for f in load_findings():
        if f["property"] == ctx.pid and f.get("status") == "open" and f["signature"] == signature:
            if signature not in [k["signature"] for k in ctx.known_hits]:
                ctx.known_hits.append(dict(signature=signature, summary=f["summary"], detail=detail))
            return "known"
    for v in ctx.violations:
        if v["signature"] == signature:
            v["count"] += 1
            return "dup"
    ctx.violations.append(dict(signature=signature, detail=detail, count=1))
    return "new"


def finish(ctx, level="model_checking"):
    wall = round(time.time() - ctx.t0, 2)
    cov = ctx.cov
    ev = dict(property_id=ctx.pid, tier=ctx.tier, seed=ctx.seed, level=level, coverage=cov,
              assumptions=ctx.assumptions, wall_s=wall, violations=len(ctx.violations),
              known_findings=[k["signature"] for k in ctx.known_hits], notes=ctx.notes)
    if not cov["samples"]:
        cov["samples"] = ["(none)"]
    evdir = os.environ.get("VERIF_EVIDENCE_DIR") or os.path.join(VERIF, "evidence")   # audits write elsewhere
    os.makedirs(evdir, exist_ok=True)
    with open(os.path.join(evdir, ctx.pid + ".json"), "w") as fh:
        json.dump(ev, fh, indent=1, sort_keys=True, default=str)
    for k in ctx.known_hits:
        log("KNOWN-FINDING: property=%s %s -- %s" % (ctx.pid, k["signature"], k["summary"]))
    rc = 0
    for v in ctx.violations:
        path = save_replay(ctx, dict(property=ctx.pid, signature=v["signature"], detail=v["detail"],
                                     seed=ctx.seed, tier=ctx.tier))
        log("VIOLATION property=%s replay=%s" % (ctx.pid, path))
        log("  signature=%s count=%s" % (v["signature"], v["count"]))
        rc = 1
    log("[%s] tier=%s seed=%s states=%s transitions=%s traces=%s evals=%s wall=%.1fs rc=%d" % (
        ctx.pid, ctx.tier, ctx.seed, cov["states"], cov["transitions"], cov["traces_validated_against_impl"],
        cov["evaluations"], wall, rc))
    return rc
